"""P-SITE: inventory of panic-capable, wrapping and truncating constructs.

A site is (a) an arithmetic/bounds Assert terminator, (b) a call whose resolved callee is in
the may-panic API table, (c) a narrowing or sign-changing integer cast / float-to-int cast
of a non-constant.  Keys contain no line numbers."""
import json, os, re
from .core import VERIF
from .prog import short, INT_RANGES, place_str

_API = None


def api_table():
    global _API
    if _API is None:
        with open(os.path.join(VERIF, "tables", "may_panic_api.json")) as fh:
            t = json.load(fh)
        _API = [(re.compile(e["pattern"]), e["kind"], e.get("why", ""), re.compile(e["targ0"]) if e.get("targ0") else None) for e in t["may_panic"]]
    return _API


def classify_callee(name, targs=None):
    """(kind, why) if the callee is in the may-panic table; rows with `targ0` apply only when the first generic argument matches"""
    s = short(name)
    for rx, kind, why, t0 in api_table():
        if rx.search(s):
            if t0 is not None and not (targs and t0.search(targs[0])):
                continue
            return kind, why
    return None


class Site:
    __slots__ = ("fn", "bb", "kind", "detail", "line", "file", "call", "term", "stmt", "exp", "extra")

    def __init__(self, fn, bb, kind, detail, line, file=None, call=None, term=None, stmt=None, exp=False, extra=None):
        self.fn = fn
        self.bb = bb
        self.kind = kind      # overflow / divzero / bounds / api:<kind> / cast
        self.detail = detail  # stable text: op + operand types, callee short path, cast from->to
        self.line = line
        self.file = file or fn.file
        self.call = call
        self.term = term
        self.stmt = stmt
        self.exp = exp
        self.extra = extra or {}

    @property
    def owner(self):
        """outermost named function: closure numbering is not stable under edits"""
        f = self.fn
        while f.kind == "Closure" and f.parent_key in f.prog.fns:
            f = f.prog.fns[f.parent_key]
        return f

    @property
    def key(self):
        return "%s|%s|%s" % (self.owner.spath, self.kind, self.detail)

    def loc(self):
        return "%s:%d" % (self.file, self.line)


def fingerprint(site):
    """name-independent description of what a site computes on: kinds / types / callees of the leaves of its operands.
    Used to recognise a tabled site after its function (or a field) was renamed."""
    from . import flow as F
    fn = site.fn
    ops = []
    if site.extra.get("ops"):
        ops = list(site.extra["ops"])
    elif site.call is not None:
        ops = list(site.call.args)
    elif site.stmt is not None and site.stmt["rv"]["k"] == "cast":
        ops = [site.stmt["rv"]["op"]]
    elif site.term is not None and site.term.get("ops"):
        ops = [o for o in site.term["ops"] if isinstance(o, dict)]
    out = set()
    for op in ops:
        if not isinstance(op, dict) or "k" not in op:
            continue
        if op["k"] == "const":
            out.add("const")
            continue
        visited_fields = []

        def visit(pl):
            for e in pl["p"]:
                if isinstance(e, dict) and "f" in e:
                    visited_fields.append(e.get("ty", "?"))
        for o in F.origins(fn, op, depth=8, visit=visit):
            if o.kind in ("arg", "place"):
                pass     # what matters is which fields were read on the way (below), not where the struct itself came from
            elif o.kind == "call":
                out.add("call:" + short(o.call.name))
            elif o.kind == "const":
                out.add("const")
            elif o.kind in ("cast", "binop", "unop"):
                out.add("%s:%s" % (o.kind, o.extra))
            else:
                out.add(o.kind)
        if visited_fields:
            out.add("field:" + visited_fields[-1])
        elif not any(x.startswith("call:") or x == "const" for x in out):
            out.add("local")
    return sorted(out)


def operand_desc(fn, op):
    if op["k"] == "const":
        return "const(%s)" % op["v"]
    if op["k"] in ("copy", "move"):
        return place_str(fn, op["pl"])
    return "?"


def enumerate_sites(fn):
    sites = []
    for i in sorted(fn.reach):
        b = fn.blocks[i]
        t = b["term"]
        if t["k"] == "assert":
            ak = t["ak"]
            if ak in ("MisalignedPointerDereference", "NullPointerDereference"):
                continue
            ops = t["ops"]
            tys = [o.get("ty", "?") for o in ops]
            if ak.startswith("Overflow("):
                kind = "overflow"
                cs = ["c%s" % o["int"] if (o["k"] == "const" and "int" in o) else "_" for o in ops]
                detail = "%s %s" % (ak[9:-1], ",".join(tys))
                if any(c != "_" for c in cs):
                    detail += " [%s]" % ",".join(cs)
            elif ak == "OverflowNeg":
                kind, detail = "overflow", "Neg %s" % tys[0]
            elif ak in ("DivisionByZero", "RemainderByZero"):
                kind, detail = "divzero", "%s %s" % (ak, tys[0])
            elif ak == "BoundsCheck":
                kind, detail = "bounds", "index"
            else:
                kind, detail = "assert", ak
            sites.append(Site(fn, i, kind, detail, t["span"]["line"], t["span"]["file"], term=t,
                              exp=t["span"].get("exp", False), extra={"ops": ops}))
        for s in b["stmts"]:
            if s["k"] != "assign":
                continue
            rv = s["rv"]
            if rv["k"] == "cast" and rv["ck"] in ("IntToInt", "FloatToInt"):
                if rv["op"]["k"] == "const":
                    continue
                fr, to = rv["from"], rv["to"]
                if rv["ck"] == "IntToInt":
                    a, bnd = INT_RANGES.get(fr), INT_RANGES.get(to)
                    if a and bnd and bnd[0] <= a[0] and a[1] <= bnd[1]:
                        continue  # widening: value-preserving
                sites.append(Site(fn, i, "cast", "%s->%s" % (fr, to), s["line"], stmt=s, exp=s.get("exp", False)))
    for c in fn.calls:
        cl = classify_callee(c.name, (c.func.get("res_targs") or c.targs))
        if cl is None and c.target is None and not short(c.name).startswith("std::process::exit"):
            cl = ("panic", "diverging call (panic / abort)")
        if cl is None and c.func.get("path") and c.func.get("path") != c.name:
            cl = classify_callee(c.func["path"], c.targs)
        if cl and cl[0] == "vec-pos" and short(c.name).endswith("::drain") and \
                "core::ops::range::RangeFull" in (c.func.get("res_targs") or c.targs or []):
            cl = None       # drain(..): the full range is in bounds for every length
        if cl:
            kind, why = cl
            d = short(c.name)
            if kind == "index":
                ts = c.func.get("res_targs") or c.targs
                d = "%s [%s]" % (d, ",".join(x for x in ts if x != "alloc::alloc::Global"))[:300]
            sites.append(Site(fn, c.bb, "api:" + kind, d, c.line, c.file, call=c, exp=c.exp, extra={"why": why}))
    return sites
