"""Check framework: rule registry, findings, known-findings matching, evidence and
replay files, exit protocol.

exit 0  every obligation discharged or listed as known finding
exit 1  at least one VIOLATION line
exit 2  ERROR (engine failure / anchor missing / positive control silent): never a
        verdict about the property, no VIOLATION line is printed."""
import json, os, sys, time
from collections import Counter, defaultdict

VERIF = os.path.dirname(os.path.dirname(os.path.abspath(__file__)))
# the selftest harness redirects evidence of its (parallel, patched-tree) runs away from the committed evidence directory
EVID = os.environ.get("VERIF_EVIDENCE_DIR") or os.path.join(VERIF, "evidence")


class EngineError(Exception):
    pass


class AnchorMissing(EngineError):
    pass


class Finding:
    def __init__(self, rule, key, msg, locs=None, detail=None):
        self.rule = rule
        self.key = key          # stable: no line numbers
        self.msg = msg
        self.locs = locs or []  # ["file:line", ...]
        self.detail = detail or {}

    def full_key(self):
        return "%s|%s" % (self.rule, self.key)


class Run:
    """Accumulates what one property check did."""

    def __init__(self, prop, tier, prog, info):
        self.prop = prop
        self.tier = tier
        self.prog = prog
        self.info = info
        self.findings = []
        self.rules = {}            # rule id -> {"instances": n, "desc": str, "ok": n}
        self.samples = []
        self.assumptions = []
        self.notes = []
        for old_, new_ in sorted(getattr(prog, "renames", {}).items()):
            self.notes.append("renamed function recognised by impl + signature: %s is analysed under its pinned name %s" % (new_, old_))
        for (adt_, old_), new_ in sorted(getattr(prog, "field_renames", {}).items()):
            self.notes.append("renamed field recognised by struct + type: %s.%s is analysed under its pinned name %s" % (adt_.split("::")[-1], new_, old_))
        self.obligations = 0
        self.discharged = 0
        self.disch_by = Counter()
        self.nontrivial = set()
        self.t0 = time.time()

    # -- bookkeeping -------------------------------------------------------
    def rule(self, rid, desc):
        self.rules.setdefault(rid, {"desc": desc, "instances": 0, "violations": 0})

    def instance(self, rid, key, verdict, how="", loc=None, nontrivial=True, sample=None):
        """one evaluated rule instance (obligation). verdict: 'ok' | 'violation' | 'known'"""
        r = self.rules[rid]
        r["instances"] += 1
        self.obligations += 1
        if verdict == "ok":
            self.discharged += 1
            self.disch_by[how or "rule"] += 1
        else:
            r["violations"] += 1
        if nontrivial:
            self.nontrivial.add("%s|%s" % (rid, key))
        if sample is not None or len([s for s in self.samples if s["rule"] == rid]) < 4:
            self.samples.append({"rule": rid, "key": key, "verdict": verdict, "how": how, "loc": loc,
                                 **({"detail": sample} if sample else {})})

    def ok(self, rid, key, how="rule", loc=None, nontrivial=True, sample=None):
        self.instance(rid, key, "ok", how, loc, nontrivial, sample)

    def violation(self, rid, key, msg, locs=None, detail=None):
        self.instance(rid, key, "violation", "", (locs or [None])[0])
        self.findings.append(Finding(rid, key, msg, locs, detail))

    def assume(self, text):
        if text not in self.assumptions:
            self.assumptions.append(text)

    def note(self, text):
        self.notes.append(text)

    def floor(self, rid, minimum):
        """non-vacuity: a rule that matched nothing has lost its anchors (fail closed: reported as a violation).  `minimum` is the instance count
        confirmed by hand on the pinned tree; fewer (but some) instances happen under behaviour-preserving refactors (two call sites
        merged into one helper), so that case is recorded in the evidence instead of failing the check."""
        n = self.rules.get(rid, {}).get("instances", 0)
        if n == 0:
            raise AnchorMissing("rule %s matched no instance (pinned tree: %d): its anchors are gone" % (rid, minimum))
        if n < minimum:
            self.note("rule %s matched %d instances (pinned tree: %d)" % (rid, n, minimum))

    def need_fn(self, spath, target=None, raw=False):
        """the anchor function - by default as a *view*: helpers that did not exist on the pinned tree are inlined into it, so that
        an extract-function refactoring does not hide statements from the rule (on the pinned tree the view is the function itself)"""
        f = self.prog.fn(spath, target)
        if f is None:
            raise AnchorMissing("anchor function not found: %s" % spath)
        if raw:
            return f
        from . import pathrules as PR
        return PR.view(self.prog, f)

    def fn_or_host(self, spath, host, target=None):
        """a private helper the rule knows by name; when it is gone (renamed / moved / inlined) the rule analyses its former host
        instead - the view of the host contains whatever new function took the helper's place"""
        f = self.prog.fn(spath, target)
        if f is not None:
            from . import pathrules as PR
            return PR.view(self.prog, f)
        return self.need_fn(host, target)


def load_known():
    p = os.path.join(VERIF, "known_findings.json")
    if not os.path.exists(p):
        return {"known": [], "fixed": []}
    with open(p) as fh:
        return json.load(fh)


def finish(run, level="other", explanation="", trusted=None, seed=0):
    """Match findings against known_findings.json, print protocol lines, write evidence;
    returns exit code."""
    known = load_known()
    kn = defaultdict(int)
    kn_what = {}
    for e in known.get("known", []):
        if e["property"] == run.prop:
            k = "%s|%s" % (e["rule"], e["key"])
            kn[k] += e.get("multiplicity", 1)
            kn_what[k] = e.get("what", "")
    counts = Counter(f.full_key() for f in run.findings)
    by_key = defaultdict(list)
    for f in run.findings:
        by_key[f.full_key()].append(f)
    violations = []
    known_hit = []
    for k, fs in by_key.items():
        allowed = kn.get(k, 0)
        if allowed >= len(fs):
            known_hit.append((k, fs))
        elif allowed > 0:
            known_hit.append((k, fs[:allowed]))
            violations.extend(fs[allowed:])
        else:
            violations.extend(fs)
    os.makedirs(os.path.join(EVID, "replay"), exist_ok=True)
    for k, fs in known_hit:
        print("KNOWN-FINDING: property=%s %s [%s x%d at %s]" % (
            run.prop, kn_what.get(k) or fs[0].msg, k, len(fs), ", ".join(sorted(set(l for f in fs for l in f.locs)))))
    vio_out = []
    for n, f in enumerate(violations):
        rp = os.path.join(EVID, "replay", "%s-%d.json" % (run.prop, n))
        with open(rp, "w") as fh:
            json.dump({"property": run.prop, "rule": f.rule, "key": f.key, "message": f.msg,
                       "locations": f.locs, "detail": f.detail, "tree": run.info.get("root"),
                       "tree_hash": run.info.get("hash")}, fh, indent=1)
        print("--- %s violated: rule %s" % (run.prop, f.rule))
        print("    %s" % f.msg)
        for l in f.locs:
            print("    at %s" % l)
        print("    key: %s" % f.key)
        for dk, dv in f.detail.items():
            print("    %s: %s" % (dk, dv if isinstance(dv, str) else json.dumps(dv)))
        print("VIOLATION property=%s replay=%s" % (run.prop, rp))
        vio_out.append({"rule": f.rule, "key": f.key, "msg": f.msg, "locs": f.locs})
    # remove stale replay files of this property
    import glob
    for p in glob.glob(os.path.join(EVID, "replay", "%s-*.json" % run.prop)):
        try:
            idx = int(os.path.basename(p)[len(run.prop) + 1:-5])
        except ValueError:
            continue
        if idx >= len(violations):
            os.remove(p)
    prog = run.prog
    ev = {
        "property_id": run.prop,
        "tier": run.tier,
        "seed": seed,
        "level": level,
        "coverage": {
            "explanation": explanation,
            "obligations": run.obligations,
            "discharged": run.discharged,
            "discharged_by": dict(run.disch_by),
            "known_findings_matched": sum(len(fs) for _, fs in known_hit),
            "evaluations": run.obligations,
            "distinct_nontrivial": len(run.nontrivial),
            "rule": "one evaluation = one rule instance (site, path, arm, impl or table row) enumerated from the "
                    "MIR of the current tree; distinct = distinct (rule, key) pairs; non-trivial = needed a "
                    "dominance/dataflow/table argument (not a widening cast, constant operand or compiler-generated site)",
            "exhaustive": True,
            "rules": run.rules,
            "samples": run.samples[:60],
            "functions_analysed": len(prog.fns) if prog else 0,
            "targets": prog.targets if prog else [],
            "tree_hash": run.info.get("hash"),
            "extraction_cached": run.info.get("cached"),
            "checker_cmd": "./check %s --tier %s" % (run.prop, run.tier),
            "trusted_base": trusted or [],
            "notes": run.notes,
            "violations_detail": vio_out,
        },
        "assumptions": run.assumptions,
        "wall_s": round(time.time() - run.t0 + run.info.get("extract_s", 0) * (0 if run.info.get("cached") else 1), 3),
        "violations": len(violations),
    }
    with open(os.path.join(EVID, "%s.json" % run.prop), "w") as fh:
        json.dump(ev, fh, indent=1)
    print("%s: %d obligations, %d discharged, %d known findings, %d violations (%s tier, %d fns, tree %s)" % (
        run.prop, run.obligations, run.discharged, sum(len(fs) for _, fs in known_hit), len(violations), run.tier,
        len(prog.fns) if prog else 0, run.info.get("hash")))
    return 1 if violations else 0
