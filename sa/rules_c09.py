"""C09 — execution is total."""
from . import rules_sites


def run(R):
    rules_sites.run_inventory(
        R, "C09.sites", "EXEC",
        "every panic-capable, wrapping or truncating construct reachable from the execution entry points is "
        "mechanically discharged, discharged by a tabled reason (optionally with a re-proved guard), a known finding, or reported")
    rules_sites.recursion_rule(R, "C09.recursion", "EXEC", guard_roots="PARSE")
    # several tabled reasons lean on "a group exists only because a validated row was aggregated into it" (the key mapping has every
    # group-by part, a group key has one part per GROUP BY expression): who may create an entry of the group tables is decided here
    from . import rules_c04
    rules_c04._slot_creation(R, "C09.groups")
    R.assume("termination, stack depth and memory exhaustion are not decided")
    R.assume("dependencies do not panic on arguments that satisfy their documented preconditions")


def run_thorough(R):
    rules_sites.run_thorough_release(R, "C09.sites", "EXEC")
