"""C04 — GROUP BY: one row per group, every aggregate computed from that group's rows.
C15 — order-insensitive aggregates (the structural clause: folds cover every value type and depend on the first
value only through its type) is decided by run_c15 below on the same anchors."""
import re
from .prog import short, place_fields
from . import flow as F
from . import pathrules as PR
from . import arms as A
from .rules_c17 import count_range

AGG = "sqlgrep::execution::aggregate_execution::"
ENGINE = AGG + "AggregateExecutionEngine::"
V = "sqlgrep::model::Value"


ONE_TO_ONE = re.compile(r"^core::iter::traits::iterator::Iterator::(map|cloned|copied|enumerate|inspect|by_ref|peekable)$|IntoIterator>::into_iter$")
MAP_SOURCE = re.compile(r"^(alloc::collections::btree::map::BTreeMap|std::collections::hash::map::HashMap)::(keys|values|iter)$")


def _iter_chains(f):
    """iterator-form columns: [(source call, [adapter calls], collect call or None, offending adapter or None)] for every keys()/values()/iter()
    of a map whose result is consumed by adapters instead of a `for` loop"""
    out = []
    for c0 in f.calls:
        if not MAP_SOURCE.match(short(c0.name)):
            continue
        cur, adapters, end, bad, looped = c0, [], None, None, False
        for _ in range(12):
            cons = [c for c in f.calls if c is not cur and c.args and c.args[0].get("k") in ("copy", "move") and
                    any(o.kind == "call" and o.call is cur for o in F.origins(f, c.args[0], depth=4, through_calls=False))]
            if not cons:
                break
            c = cons[0]
            sn = short(c.name)
            if sn.endswith("as core::iter::traits::iterator::Iterator>::next"):
                looped = True
                break
            if sn == "core::iter::traits::iterator::Iterator::collect":
                end = c
                break
            if ONE_TO_ONE.search(sn):
                adapters.append(c)
                cur = c
                continue
            bad = c
            break
        if looped:
            continue
        out.append((c0, adapters, end, bad))
    return out


def _rect(R, rid):
    f = R.need_fn(ENGINE + "extract_result_rows_by_column")
    P = R.prog
    loops = []
    for c in f.calls:
        sn = short(c.name)
        if re.search(r"btree::map::(Keys|Values|Iter)<'a, K, V> as core::iter::traits::iterator::Iterator>::next$", sn) or \
                re.search(r"hash::map::(Keys|Values|Iter)<'a, K, V> as core::iter::traits::iterator::Iterator>::next$", sn):
            loops.append(c)
    chains = _iter_chains(f)
    if len(loops) + len(chains) < 2:
        R.violation(rid, "extract_result_rows_by_column|loops", "expected the per-column traversals of the group table, one for the key columns and "
                    "one for the aggregate columns (found %d)" % (len(loops) + len(chains)), [f.loc()])
        return
    for nx in loops:
        g = PR.discr_guard(f, nx, "Some")
        hdr, body = PR.loop_of(f, nx.bb)
        pushes = [c for c in f.calls if c.bb in body and short(c.name) == "alloc::vec::Vec::push" and (c.func.get("res_targs") or c.targs)[:1] == [V]]
        r = count_range(f, g[1], {hdr}, {c.bb for c in pushes}) if g else None
        key = "extract_result_rows_by_column|" + ("keys" if "Keys" in short(nx.name) else "values")
        if r == (1, 1):
            R.ok(rid, key, "exactly one value pushed per group on every path", nx.loc())
        else:
            R.violation(rid, key, "per group %s values are pushed into the result column (must be exactly 1 on every path): the result table is not "
                                  "rectangular, so execute_result indexes out of bounds or shows another group's value" % (r,), [nx.loc()])
    for c0, adapters, end, bad in chains:
        key = "extract_result_rows_by_column|" + short(c0.name).split("::")[-1]
        if bad is not None or end is None:
            R.violation(rid, key, "the result column is built from the group table through %s, which is not one value per group: the result table "
                                  "is not rectangular, so execute_result indexes out of bounds or shows another group's value"
                        % (short(bad.name).split("::")[-1] if bad is not None else "an iterator that is never collected"), [(bad or c0).loc()])
        else:
            R.ok(rid, key, "one value per group: %s().%s.collect()" % (short(c0.name).split("::")[-1],
                                                                     ".".join(short(a.name).split("::")[-1] for a in adapters) or "-"), c0.loc())


def _all_through(f, op, tcalls, depth):
    """every definition that can reach the operand comes out of one of the calls in tcalls (through `?` / moves only)"""
    if depth == 0 or op["k"] == "const":
        return False
    l = op["pl"]["l"]
    cdefs = [c for c in f.calls if c.dest is not None and c.dest["l"] == l and not c.dest["p"]]
    adefs = [s_ for i_, s_ in f.stmts() if s_["k"] == "assign" and s_["pl"]["l"] == l and not s_["pl"]["p"]]
    if not cdefs and not adefs:
        return False
    for c in cdefs:
        if c in tcalls:
            continue
        if re.search(r"Try>::branch$", short(c.name)) and c.args and _all_through(f, c.args[0], tcalls, depth - 1):
            continue
        return False
    for s_ in adefs:
        rv = s_["rv"]
        if rv["k"] == "use" and rv["op"]["k"] in ("copy", "move"):
            if not _all_through(f, {"k": "copy", "pl": {"l": rv["op"]["pl"]["l"], "p": []}}, tcalls, depth - 1):
                return False
        else:
            return False
    return True


def _transform(R):
    """an arithmetic wrapper around an aggregate is applied to every value of that aggregate's column, including the value used when
    the group has no entry"""
    P = R.prog
    R.rule("C04.transform", "every value pushed into an aggregate's result column passed through the aggregate's transform (wrapper) closure")
    f = R.need_fn(ENGINE + "extract_result_rows_by_column")
    tcl = None
    for ch in P.children.get(f.key, []):
        if any(short(c.name).endswith("ExpressionExecutionEngine::evaluate") for c in ch.calls):
            tcl = ch
    if tcl is None:
        _transform_inline(R, f)
        return
    # calls of that closure in f
    tcalls = [c for c in f.calls if (c.func.get("trait") or "").startswith("core::ops::function::Fn") and
              any(tcl.key.endswith(x) or x == tcl.raw["key"] for x in (c.func.get("closure_args") or []))]
    pushes = [c for c in f.calls if short(c.name) == "alloc::vec::Vec::push" and (c.func.get("res_targs") or c.targs)[:1] == [V]]
    n = 0
    for pc in pushes:
        lp = PR.loop_of(f, pc.bb)
        if not lp:
            continue
        nxt = [c for c in f.calls if c.bb in lp[1] and re.search(r"btree::map::Values<|hash::map::Values<", short(c.name))]
        if not nxt:
            continue  # the GroupKey column (keys loop) has no wrapper
        n += 1
        if _all_through(f, pc.args[1], tcalls, 12):
            R.ok("C04.transform", "extract_result_rows_by_column|values", "pushed value = transform(value)", pc.loc())
        else:
            R.violation("C04.transform", "extract_result_rows_by_column|untransformed",
                        "a value is pushed into an aggregate's result column without passing through the aggregate's wrapper expression "
                        "(e.g. the COUNT = 0 / NULL fallback of a group without entry): `COUNT(c) + 1` would show 0", [pc.loc()])
    # iterator form: values().map(|subgroups| ..).collect(): what the map closure returns went through the transform closure
    for c0, adapters, end, bad in _iter_chains(f):
        if not short(c0.name).endswith("::values") and not short(c0.name).endswith("::iter"):
            continue
        for a in adapters:
            if not short(a.name).endswith("Iterator::map"):
                continue
            for ck in (a.func.get("closure_args") or []):
                g = P.fns.get(ck)
                if g is None:
                    continue
                gt = [c for c in g.calls if (c.func.get("trait") or "").startswith("core::ops::function::Fn") and
                      any(tcl.key.endswith(x) or x == tcl.raw["key"] for x in (c.func.get("closure_args") or []))]
                n += 1
                if gt and _all_through(g, {"k": "move", "pl": {"l": 0, "p": []}}, gt, 12):
                    R.ok("C04.transform", "extract_result_rows_by_column|values", "collected value = transform(value)", a.loc())
                else:
                    R.violation("C04.transform", "extract_result_rows_by_column|untransformed",
                                "a value is collected into an aggregate's result column without passing through the aggregate's wrapper "
                                "expression (e.g. the COUNT = 0 / NULL fallback of a group without entry): `COUNT(c) + 1` would show 0", [a.loc()])
    if n == 0:
        R.violation("C04.transform", "extract_result_rows_by_column|no-values-loop", "no per-group push of aggregate values found", [f.loc()])


def _transform_inline(R, f):
    """the wrapper applied through a helper function (or spelled out) instead of a local closure: on the function with its helpers and
    combinators inlined, every definition that reaches a pushed aggregate value is either the result of evaluating the aggregate's
    `transform` expression or lies under the `None` edge of a test of that `transform`"""
    P = R.prog
    fd = PR.desugared(P, f)
    def from_transform(op):
        return "transform" in F.source_fields(fd, op, depth=10) or \
            any((o.place is not None and isinstance(o.place, dict) and "p" in o.place and "transform" in place_fields(o.place)) or
                (o.kind == "call" and o.call.args and F.TRANSPARENT.search(short(o.call.name)) and
                 "transform" in F.source_fields(fd, o.call.args[0], depth=10))
                for o in F.origins(fd, op, depth=14))
    evs = [c for c in fd.calls if short(c.name).endswith("ExpressionExecutionEngine::evaluate") and len(c.args) > 1 and from_transform(c.args[1])]
    none_edges = []
    for b in range(len(fd.blocks)):
        info = F.switch_info(fd, b)
        if not info or info[0] != "discr":
            continue
        pl = info[1]["pl"]
        if "transform" not in place_fields(pl) and not from_transform({"k": "copy", "pl": {"l": pl["l"], "p": []}}):
            continue
        names = dict(info[1].get("variants", []))
        listed = [names.get(l) for l in info[2] if l != "otherwise"]
        for lab, tgt in info[2].items():
            vn = names.get(lab) if lab != "otherwise" else ([n for n in names.values() if n not in listed] or [None])[0]
            if vn == "None":
                none_edges.append((b, tgt))
    if not evs or not none_edges:
        R.violation("C04.transform", "extract_result_rows_by_column|no-transform", "the aggregate's wrapper expression (`transform`) is not evaluated "
                    "under a test of its presence", [f.loc()])
        return

    def through(op, depth):
        if depth == 0 or op["k"] == "const":
            return False
        l = op["pl"]["l"]
        cdefs = [c for c in fd.calls if c.dest is not None and c.dest["l"] == l and not c.dest["p"]]
        adefs = [(i_, s_) for i_, s_ in fd.stmts() if s_["k"] == "assign" and s_["pl"]["l"] == l and not s_["pl"]["p"]]
        if not cdefs and not adefs:
            return False
        for c in cdefs:
            if c in evs or any(PR.dominated_by_edge(fd, c.bb, sw, t) for sw, t in none_edges):
                continue
            if re.search(r"Try>::branch$", short(c.name)) and c.args and through(c.args[0], depth - 1):
                continue
            return False
        for i_, s_ in adefs:
            if any(PR.dominated_by_edge(fd, i_, sw, t) for sw, t in none_edges):
                continue
            rv = s_["rv"]
            if rv["k"] == "use" and rv["op"]["k"] in ("copy", "move"):
                if not through({"k": "copy", "pl": {"l": rv["op"]["pl"]["l"], "p": []}}, depth - 1):
                    return False
            else:
                return False
        return True
    pushes = [c for c in fd.calls if short(c.name) == "alloc::vec::Vec::push" and (c.func.get("res_targs") or c.targs)[:1] == [V]]
    n = 0
    for pc in pushes:
        lp = PR.loop_of(fd, pc.bb)
        if not lp or not [c for c in fd.calls if c.bb in lp[1] and re.search(r"btree::map::Values<|hash::map::Values<", short(c.name))]:
            continue
        n += 1
        if through(pc.args[1], 14):
            R.ok("C04.transform", "extract_result_rows_by_column|values", "pushed value = transform evaluated, or the value itself where there is no transform", pc.loc())
        else:
            R.violation("C04.transform", "extract_result_rows_by_column|untransformed",
                        "a value is pushed into an aggregate's result column without passing through the aggregate's wrapper expression "
                        "(e.g. the COUNT = 0 / NULL fallback of a group without entry): `COUNT(c) + 1` would show 0", [pc.loc()])
    if n == 0:
        R.violation("C04.transform", "extract_result_rows_by_column|no-values-loop", "no per-group push of aggregate values found", [f.loc()])


def _having_scopes(R, acc):
    """C04.having-scope: in the row HAVING is evaluated on, the GroupKey scope holds parts of this group's key and nothing else (an
    aggregate's value under a key column's name would be compared instead of the key), the GroupValue scope holds this group's
    aggregate values"""
    rid = "C04.having-scope"
    R.rule(rid, "accept_group fills the column scope GroupKey only from the group's key (`group_key.0[i]`) and the scope GroupValue only "
                "from the group's aggregate values: a name in HAVING resolves to the group's own key, whatever the select list calls its columns")
    def root(f, op):
        pl, n = op.get("pl"), 0
        while pl is not None and n < 8:
            n += 1
            defs = [st for _, st in F._assign_defs(f).get(pl["l"], []) if not st["pl"]["p"]]
            if len(defs) == 1 and defs[0]["rv"]["k"] == "use" and defs[0]["rv"]["op"].get("pl") is not None:
                pl = defs[0]["rv"]["op"]["pl"]
            elif len(defs) == 1 and defs[0]["rv"]["k"] in ("ref", "copy_for_deref", "rawptr"):
                pl = defs[0]["rv"]["pl"]
            else:
                break
        return pl["l"] if pl is not None else None
    ins = [c for c in acc.calls if re.search(r"hash::map::HashMap::insert$", short(c.name))]
    outer = [c for c in ins if "ColumnScope" in ((c.func.get("res_targs") or c.targs or [""])[0])]
    scope_of = {}
    for c in outer:
        sc = None
        a1 = c.args[1]
        if a1.get("k") == "const":
            m = re.search(r"ColumnScope::(\w+)", str(a1.get("v", "")))
            sc = m.group(1) if m else None
        else:
            for o in F.origins(acc, a1, depth=4, through_calls=False):
                if o.kind == "aggr" and o.place is not None:
                    for _, st in F._assign_defs(acc).get(o.place["l"], []):
                        if st["rv"]["k"] == "aggr" and (st["rv"].get("adt") or "").endswith("ColumnScope"):
                            sc = st["rv"].get("variant")
        r_ = root(acc, c.args[2]) if len(c.args) > 2 else None
        if sc and r_ is not None:
            scope_of[r_] = sc
    if "GroupKey" not in scope_of.values():
        R.note("C04.having-scope: no map inserted under ColumnScope::GroupKey in accept_group (HAVING row built differently); not instantiated")
        return
    n = 0
    for c in ins:
        if c in outer or len(c.args) < 3:
            continue
        sc = scope_of.get(root(acc, c.args[0]))
        if sc not in ("GroupKey", "GroupValue"):
            continue
        n += 1
        os_, work, seen_c = [], [c.args[2]], set()
        while work and len(seen_c) < 40:
            for o in F.origins(acc, work.pop(), depth=12):
                os_.append(o)
                if o.kind == "call" and id(o.call) not in seen_c and o.call.args and \
                        re.search(r"^core::option::Option::(unwrap_or|unwrap_or_else|unwrap_or_default|unwrap|expect)$", short(o.call.name)):
                    seen_c.add(id(o.call))
                    work.append(o.call.args[0])
        keypart = any(o.kind == "call" and re.search(r"Index<.*>>::index$|slice::<impl \[T\]>::get$|Vec::get$", short(o.call.name)) and
                      any(x.kind == "arg" and acc.local_ty(x.arg).endswith("GroupKey") for x in F.origins(acc, o.call.args[0], depth=8)) for o in os_)
        aggval = any(o.kind == "call" and re.search(r"hash::map::HashMap::get$|Index<&Q>>::index$", short(o.call.name)) and
                     (o.call.func.get("res_targs") or o.call.targs or [])[:2] == ["usize", V] for o in os_)
        if sc == "GroupKey" and (aggval or not keypart):
            R.violation(rid, "accept_group|GroupKey", "accept_group puts %s into the GroupKey scope of the HAVING row: a name in HAVING that "
                        "is a GROUP BY column can then resolve to that value instead of the group's own key"
                        % ("an aggregate's value" if aggval else "something that is not a part of the group key"), [c.loc()])
        elif sc == "GroupValue" and (keypart or not aggval):
            R.violation(rid, "accept_group|GroupValue", "accept_group fills the GroupValue scope of the HAVING row from something else than the "
                        "group's aggregate values", [c.loc()])
        else:
            R.ok(rid, "accept_group|%s" % sc, "filled from %s only" % ("group_key.0[i]" if sc == "GroupKey" else "group_value.get(i)"), c.loc())
    if n == 0:
        R.note("C04.having-scope: no insert into the scope maps found")


def run(R):
    P = R.prog
    R.rule("C04.rect", "result table is rectangular: in every per-column loop over the group table exactly one value is pushed per group on every path")
    R.rule("C04.order", "the group table is a BTreeMap keyed by GroupKey (ascending key order); NULL is the first variant of Value's derived order")
    R.rule("C04.isolation", "every access to group_values / group_aggregators in the update phase is addressed by this row's group key and this "
                            "aggregate's index, unmodified")
    R.rule("C04.having-index", "HAVING aggregates are numbered aggregates.len() + k both where they are updated and where they are read")
    R.rule("C04.minmax", "MIN / MAX compare with Value's order for every value type (no numeric-only fold with a silent catch-all) and replace "
                         "the stored value exactly when the new one is smaller / larger")
    R.rule("C04.isnull", "an aggregator is NULL exactly when its running value is NULL (no comparison with a default value)")
    R.rule("C04.count", "COUNT adds exactly 1 per admitted row with a non-NULL argument")
    R.rule("C04.percentile", "PERCENTILE picks rank floor(p * n) clamped to n - 1 with one and the same sample count n")
    _percentile_rank(R, "C04.percentile")
    _empty_state(R, "C04.empty")
    _slot_creation(R, "C04.slot")
    _text_keys(R, "C04.argkey")
    _rect(R, "C04.rect")
    _transform(R)
    # a memo shared between groups (e.g. "the last value seen by this aggregate", whatever its group) lets one group's rows decide
    # what another group's aggregate sees: the same analysis as C15.state, decided here for the isolation clause
    _update_state(R, "C04.state")
    # every aggregate is computed from exactly its group's values: an INT value is not rounded on its way into a running sum
    _exact_sums(R, "C04.exact")
    # ---- order
    a = P.adts.get(ENGINE.rstrip(":"))
    a = P.adts.get(AGG + "AggregateExecutionEngine")
    okord = True
    for fld in ("group_values", "group_aggregators"):
        tys = [fl["ty"] for v in (a or {"variants": []})["variants"] for fl in v["fields"] if fl["name"] == fld]
        if tys and tys[0].startswith("alloc::collections::btree::map::BTreeMap<" + AGG + "GroupKey"):
            R.ok("C04.order", fld, "BTreeMap<GroupKey, ..>", "src/execution/aggregate_execution.rs")
        else:
            okord = False
            R.violation("C04.order", fld, "%s is %s: groups are not produced in ascending key order" % (fld, tys), ["src/execution/aggregate_execution.rs"])
    va = P.adts.get(V)
    ord_derived = any(im["self_adt"] == V and im["trait"] == "core::cmp::Ord" and im["derived"] for im in P.impls)
    if va and va["variants"][0]["name"] == "Null" and ord_derived:
        R.ok("C04.order", "null-first", "Value::Null is the first variant of the derived Ord", "src/model.rs")
    else:
        R.violation("C04.order", "null-first", "Value's order does not put NULL first (first variant %s, Ord derived %s)"
                    % (va["variants"][0]["name"] if va else None, ord_derived), ["src/model.rs"])
    # ---- isolation
    ua = R.need_fn(ENGINE + "update_aggregate")
    n_iso = 0
    for c in ua.calls:
        sn = short(c.name)
        if sn in (ENGINE + "get_group_value", ENGINE + "get_group_aggregator", ENGINE + "get_group"):
            n_iso += 1
            def oty(o):
                """type of the argument (or of the field of a parameter struct such as `AggregateSlot { group_key, aggregate_index }`) an origin names"""
                fl = [e for e in (o.place or {}).get("p", []) if isinstance(e, dict) and "ty" in e and "f" in e]
                return fl[-1]["ty"] if fl else ua.local_ty(o.arg)
            ko = F.origins(ua, c.args[1], depth=12)
            # (the key handed over is this row's key: cloned here, or borrowed and cloned where the map needs an owned one)
            key_ok = all(o.kind == "arg" or (o.kind == "call" and F.TRANSPARENT.search(short(o.call.name))) for o in ko) and \
                any(o.kind == "arg" and oty(o).endswith("aggregate_execution::GroupKey") for o in ko)
            io = F.origins(ua, c.args[2], depth=12, through_calls=False)
            idx_ok = bool(io) and all(o.kind == "arg" and oty(o) == "usize" for o in io)
            k = "update_aggregate|%s" % sn.split("::")[-1]
            if key_ok and idx_ok:
                R.ok("C04.isolation", k, "(group_key.clone(), aggregate_index)", c.loc(), nontrivial=(n_iso <= 3))
            else:
                R.violation("C04.isolation", k, "a group entry is addressed with a key / index that is not this row's group key and this aggregate's "
                                                "index: a value could land in another group's row", [c.loc()])
    if n_iso < 5:
        R.violation("C04.isolation", "update_aggregate|count", "fewer group accesses than expected (%d)" % n_iso, [ua.loc()])
    # ---- having index
    def sum_leaves(fn, op, depth=12):
        """leaves of the additive expression an operand evaluates"""
        if op["k"] == "const":
            return [("const", op.get("int"))]
        if depth == 0:
            return [("var", None)]
        if fn.kind == "Closure":
            # a captured local (`let first_having_slot = aggregates.len();` used inside the visitor closure): its value is the
            # parent's operand the closure was built with
            os_ = F.origins(fn, op, depth=6, through_calls=False)
            if len(os_) == 1 and os_[0].kind == "arg" and os_[0].arg == 1:
                flds = [e["f"] for e in (os_[0].place or {}).get("p", []) if isinstance(e, dict) and "f" in e]
                par = P.fns.get(fn.parent_key)
                if flds and par is not None:
                    parv = PR.view(P, par) if par.kind != "Closure" else par
                    made = [st for i_, st in parv.stmts() if st["k"] == "assign" and st["rv"]["k"] == "aggr" and st["rv"].get("ak") == "closure"
                            and st["rv"].get("closure") == fn.raw["key"] and len(st["rv"]["ops"]) > flds[0]]
                    if len(made) == 1 and not (made[0]["rv"]["ops"][flds[0]].get("ty") or "").startswith("&mut"):
                        return sum_leaves(parv, made[0]["rv"]["ops"][flds[0]], depth - 1)
        l = op["pl"]["l"]
        if op["pl"]["p"]:
            # field of a tuple produced by AddWithOverflow: (sum, overflowed).0 - or a usize field of a local parameter struct
            # (`HavingFilter { first_having_slot: aggregates.len(), .. }`): the expression stored where the struct is built
            fe = [e for e in op["pl"]["p"] if isinstance(e, dict) and "f" in e]
            if fe and fe[-1].get("ty") == "usize" and (fe[-1].get("adt") or "").startswith("sqlgrep::") and fe[-1]["adt"] in P.adts \
                    and not fe[-1]["adt"].endswith("AggregateExecutionEngine"):
                built = []
                for g2 in P.fns.values():
                    for i2, s2 in g2.stmts():
                        if s2["k"] == "assign" and s2["rv"]["k"] == "aggr" and s2["rv"].get("adt") == fe[-1]["adt"] and len(s2["rv"]["ops"]) > fe[-1]["f"]:
                            built.append(norm(sum_leaves(PR.view(P, g2) if g2.kind != "Closure" else g2, s2["rv"]["ops"][fe[-1]["f"]], depth - 1)))
                if built and all(b == built[0] for b in built):
                    return [x if len(x) > 1 else ("var", None) for x in built[0]]
        defs = [s_ for i_, s_ in fn.stmts() if s_["k"] == "assign" and s_["pl"]["l"] == l and not s_["pl"]["p"]]
        cdefs = [c for c in fn.calls if c.dest is not None and c.dest["l"] == l and not c.dest["p"]]
        if cdefs:
            c = cdefs[0]
            if short(c.name) == "alloc::vec::Vec::len":
                return [("len", (F.source_fields(fn, c.args[0], depth=6) or [None])[-1])]
            return [("var", short(c.name))]
        if len(defs) == 1:
            rv = defs[0]["rv"]
            if rv["k"] == "binop" and rv["op"] in ("Add", "AddWithOverflow"):
                return sum_leaves(fn, rv["l"], depth - 1) + sum_leaves(fn, rv["r"], depth - 1)
            if rv["k"] == "use":
                return sum_leaves(fn, rv["op"], depth - 1)
            if rv["k"] in ("ref", "copy_for_deref"):
                return sum_leaves(fn, {"k": "copy", "pl": {"l": rv["pl"]["l"], "p": []}}, depth - 1)
            if rv["k"] == "aggr" or rv["k"] == "binop":
                return [("var", rv.get("op"))]
        return [("var", None)]

    def norm(leaves):
        return sorted(("len", x[1]) if x[0] == "len" else (("const", x[1]) if x[0] == "const" else ("var",)) for x in leaves)

    writer = None
    for ch in [PR.view(P, x) for x in P.children.get(R.need_fn(ENGINE + "update_aggregates").key, [])]:
        for c in ch.calls:
            if short(c.name) == ENGINE + "update_aggregate":
                # the aggregate index is the usize parameter of update_aggregate (wherever it sits in the signature)
                callee = R.need_fn(ENGINE + "update_aggregate")
                upos = [i_ for i_ in range(1, callee.arg_count + 1) if callee.local_ty(i_) == "usize"]
                idx_op = c.args[upos[0] - 1] if upos and upos[0] - 1 < len(c.args) else None
                if idx_op is None:
                    # ... or the usize field of a parameter struct (`AggregateSlot { group_key, aggregate_index }`) built at the call site
                    for i_ in range(1, callee.arg_count + 1):
                        a_ = P.adts.get(re.sub(r"<.*$", "", callee.local_ty(i_)))
                        if not a_ or i_ - 1 >= len(c.args) or c.args[i_ - 1].get("k") not in ("copy", "move"):
                            continue
                        uf = [n_ for n_, fl in enumerate(a_["variants"][0]["fields"]) if fl["ty"] == "usize"] if len(a_["variants"]) == 1 else []
                        if len(uf) != 1:
                            continue
                        built_ = [s2 for i2, s2 in ch.stmts() if s2["k"] == "assign" and s2["pl"]["l"] == c.args[i_ - 1]["pl"]["l"] and not s2["pl"]["p"]
                                  and s2["rv"]["k"] == "aggr" and len(s2["rv"]["ops"]) > uf[0]]
                        if len(built_) == 1:
                            idx_op = built_[0]["rv"]["ops"][uf[0]]
                if idx_op is not None:
                    cand = (ch, c, norm(sum_leaves(ch, idx_op)))
                    # of the two call sites (select list / HAVING) the HAVING one adds an offset
                    if writer is None or any(x[0] == "len" for x in cand[2]):
                        writer = cand
    acc = R.need_fn(AGG + "accept_group")
    _having_scopes(R, acc)
    reader = None
    for c in acc.calls:
        sn = short(c.name)
        if (re.search(r"hash::map::HashMap::get$", sn) or "Index<&Q>>::index" in sn) and (c.func.get("res_targs") or c.targs)[:1] == ["usize"]:
            reader = (acc, c, norm(sum_leaves(acc, c.args[1])))
    want = [("len", "aggregates"), ("var",)]
    if writer and reader and writer[2] == want and reader[2] == want:
        R.ok("C04.having-index", "aggregates.len()+k", "writer and reader both use aggregates.len() + k", reader[1].loc())
    else:
        R.violation("C04.having-index", "aggregates.len()+k",
                    "the HAVING aggregate index is not `aggregates.len() + k` on both sides (written at %s, read at %s): HAVING would be evaluated on "
                    "another aggregate's value" % (writer[2] if writer else None, reader[2] if reader else None),
                    [(reader or writer or (None, acc.calls[0]))[1].loc()])
    _minmax(R, "C04.minmax")
    _isnull(R, "C04.isnull")
    R.rule("C04.nullrow", "a NULL argument never overwrites a published SUM/AVG/STDDEV/PERCENTILE/BOOL value: NULL is written only behind "
                          "aggregator.is_null()")
    _nullrow(R, "C04.nullrow")
    # ---- count
    asw = [sw for sw in A.enum_switches(ua, "model::Aggregate")]
    if asw:
        arms_, wild, rest = A.arms(ua, asw[0])
        if "Count" in arms_:
            reg = arms_["Count"][1]
            incs = [s for i, s in ua.stmts() if i in reg and s["rv"]["k"] == "binop" and s["rv"]["op"] in ("Add", "AddWithOverflow") and s["rv"].get("lty") == "i64"]
            good = len(incs) == 1 and any(side["k"] == "const" and side.get("int") == 1 for side in (incs[0]["rv"]["l"], incs[0]["rv"]["r"]))
            if good:
                R.ok("C04.count", "update_aggregate|Count", "+1 per counted row", "%s:%d" % (ua.file, incs[0]["line"]))
            else:
                R.violation("C04.count", "update_aggregate|Count", "COUNT does not add exactly 1 per counted row", [ua.loc(arms_["Count"][0])])
    _groups(R, ua)
    R.assume("numerical correctness of AVG / STDDEV / VARIANCE / PERCENTILE formulas is not decided")
    R.assume("KNOWN LIMIT of the engine pinned by the existing tests (test_group_by_and_count2, test_ftpd4): a group for which no aggregate has any entry "
             "is not shown; recorded in known_findings.json")


def _groups(R, ua):
    """one row per group among the rows that pass WHERE: every admitted row must leave an entry for its group in group_values,
    either unconditionally in update_aggregates or on every non-error path of every arm of update_aggregate"""
    P = R.prog
    R.rule("C04.groups", "every row that passes WHERE creates (or finds) its group in the result table: either update_aggregates inserts the group "
                         "key unconditionally, or every non-error path of every aggregate arm touches group_values")
    us = R.need_fn(ENGINE + "update_aggregates")
    unconditional = False
    for c in us.calls:
        if re.search(r"btree::map::BTreeMap::(entry|insert)$", short(c.name)) and "group_values" in F.source_fields(us, c.args[0], depth=6):
            if not PR.loop_of(us, c.bb):
                unconditional = True
    if unconditional:
        R.ok("C04.groups", "update_aggregates", "group key inserted for every admitted row", us.loc())
        return
    asw = A.enum_switches(ua, "model::Aggregate")
    if not asw:
        return
    arms_, wild, rest = A.arms(ua, asw[0])
    touch = [c.bb for c in ua.calls if short(c.name) in (ENGINE + "get_group_value",)]
    seen_targets = {}
    for vn, (tgt, reg) in sorted(arms_.items()):
        seen_targets.setdefault(tgt, []).append(vn)
    # or-pattern arms share a body: group variants by the first non-binding block they reach
    groups = {}
    for vn, (tgt, reg) in sorted(arms_.items()):
        body = tgt
        for _ in range(3):
            su = ua.succs(body)
            if len(su) == 1 and not [c for c in ua.calls if c.bb == body] and len(ua.preds(su[0])) > 1:
                body = su[0]
                break
            break
        groups.setdefault(body, []).append(vn)
    for body, vns in sorted(groups.items()):
        # exits that are error returns do not count
        err_blocks = set(c.bb for c in ua.calls if short(c.name).endswith("::from_residual")) | \
            set(i for i, s in ua.stmts() if s["rv"]["k"] == "aggr" and s["rv"].get("variant") == "Err")
        good, bad = PR.all_paths_hit(ua, body, set(touch) | err_blocks)
        key = "update_aggregate|%s|group-not-created" % "|".join(vns)
        if good:
            R.ok("C04.groups", "update_aggregate|" + "|".join(vns), "every non-error path touches group_values", ua.loc(body))
        else:
            R.violation("C04.groups", key,
                        "a row that passes WHERE can leave the %s arm without an entry for its group in group_values: a group none of whose aggregates "
                        "has an entry is missing from the result (e.g. `SELECT k .. GROUP BY k`, or COUNT(c) with c NULL in the whole group)"
                        % "/".join(vns), [ua.loc(body)])


UA_KEEP = r"AggregateExecutionEngine::(get_group|get_group_value|get_group_aggregator|validate_group_key)$|GroupAggregator::|" \
          r"ExpressionExecutionEngine::|aggregate_execution::add_to_sum$|^sqlgrep::model::"


def _minmax(R, rid):
    P = R.prog
    ua = PR.view(P, R.need_fn(ENGINE + "update_aggregate"), keep=UA_KEEP)
    asw = A.enum_switches(ua, "model::Aggregate")
    if not asw:
        R.violation(rid, "update_aggregate|no-match", "update_aggregate does not dispatch on the aggregate", [ua.loc()])
        return
    arms_, wild, rest = A.arms(ua, asw[0])
    tgt = None
    for vn in ("Min", "Max"):
        if vn in arms_:
            tgt = arms_[vn]
    if tgt is None:
        R.violation(rid, "update_aggregate|no-minmax-arm", "no MIN / MAX arm", [ua.loc()])
        return
    # MIN and MAX usually share one arm body (or-pattern): the body is what MIN/MAX reach and no other arm does
    reg = set()
    for vn in ("Min", "Max"):
        if vn in arms_:
            reg |= ua.reachable_from(arms_[vn][0])
    for vn, (t_, _) in arms_.items():
        if vn not in ("Min", "Max"):
            reg -= ua.reachable_from(t_)
    names = [short(c.name) for c in ua.calls if c.bb in reg]
    if any(n.endswith("modify_same_type_numeric_nullable") for n in names):
        R.violation(rid, "update_aggregate|numeric-only-fold",
                    "MIN / MAX fold through Value::modify_same_type_numeric_nullable, whose catch-all arm silently ignores TEXT, BOOLEAN, TIMESTAMP "
                    "and array values: the first value seen is kept (wrong result, and dependent on line order)", [ua.loc(tgt[0])])
        return
    conv = [("%s->%s" % (st["rv"]["from"], st["rv"]["to"]), st["line"]) for i, st in ua.stmts()
            if i in reg and st["rv"]["k"] == "cast" and st["rv"]["ck"] in ("IntToFloat", "FloatToInt")]
    fcmp = [c for c in ua.calls if c.bb in reg and re.search(r"^core::f64::<impl f64>::(partial_cmp|total_cmp|max|min)$|"
                                                              r"<f64 as core::cmp::PartialOrd>::(partial_cmp|lt|gt|le|ge)$", short(c.name))]
    fops = [st for i, st in ua.stmts() if i in reg and st["rv"]["k"] == "binop" and st["rv"]["op"] in ("Lt", "Le", "Gt", "Ge")
            and st["rv"].get("lty") in ("f64", "f32")]
    if conv or fcmp or fops:
        what = ("the cast %s at line %d" % conv[0]) if conv else (short(fcmp[0].name) if fcmp else "an IEEE comparison operator")
        R.violation(rid, "update_aggregate|numeric-compare",
                    "MIN / MAX compare through %s instead of Value's total order: NaN compares `equal` to everything (so the result depends on the "
                    "order of the rows) and INTs above 2^53 collapse" % what, [ua.loc(tgt[0])])
        return
    # the decision to replace is a function of the order of the two values alone: a side condition on the row's value (`&& !is_nan(v)`)
    # applies to the comparison but not to the first value a group stores, so the fold depends on which row comes first
    side = [c for c in ua.calls if c.bb in reg and re.search(r"^core::f64::<impl f64>::(is_nan|is_finite|is_infinite|is_normal|is_sign_negative|is_sign_positive|abs|signum)$|"
                                                              r"^sqlgrep::model::Float::", short(c.name))]
    vsw = []
    for b in sorted(reg):
        info = F.switch_info(ua, b)
        if info and info[0] == "discr" and (info[1].get("adt") or "") == V and \
                any(o.kind == "call" and short(o.call.name).endswith("ExpressionExecutionEngine::evaluate") for o in F.origins(ua, info[1]["pl"], depth=10)):
            vsw.append(b)
    if side or vsw:
        R.violation(rid, "update_aggregate|side-condition",
                    "the MIN / MAX arm looks at the row's value itself (%s), not only at its order against the stored value: a condition that the "
                    "first value of a group is not subject to makes the result depend on which row arrives first"
                    % (short(side[0].name).split("::")[-1] if side else "a match on the value's variant"), [side[0].loc() if side else ua.loc(vsw[0])])
        return
    lt = [c for c in ua.calls if c.bb in reg and re.search(r"PartialOrd(<.*>)?( for &A)?>?::(lt|gt|le|ge|partial_cmp)$|Ord>?::(cmp|min|max)$", short(c.name))
          and ((c.func.get("res_targs") or c.targs)[:1] == [V] or c.targs[:1] in ([V], ["&" + V]))]
    meths = sorted(set(short(c.name).split("::")[-1] for c in lt))
    if set(meths) >= {"lt", "gt"} or set(meths) >= {"min", "max"} or "cmp" in meths:
        # both operands take part
        ok = True
        def root(op):
            cur = op
            for _ in range(6):
                if cur["k"] not in ("copy", "move"):
                    return None
                l = cur["pl"]["l"]
                defs = [s_ for i_, s_ in ua.stmts() if s_["k"] == "assign" and s_["pl"]["l"] == l and not s_["pl"]["p"] and s_["rv"]["k"] in ("ref", "use", "copy_for_deref")]
                if len(defs) != 1:
                    return l
                rv = defs[0]["rv"]
                cur = rv["op"] if rv["k"] == "use" else {"k": "copy", "pl": {"l": rv["pl"]["l"], "p": []}}
            return None
        for c in lt:
            r0, r1 = root(c.args[0]), root(c.args[1])
            if r0 is not None and r0 == r1:
                ok = False
        # a NULL argument takes no part: the running value is overwritten with the row's value only on paths where that value was
        # established to be non-NULL (NULL is the smallest value of the order, so `NULL < min` would reset MIN)
        if ok:
            fa = PR.facts(ua, tag="minmax")
            stores = [(i, st) for i, st in ua.stmts() if i in reg and st["k"] == "assign" and st["pl"]["p"] == ["*"] and st["rv"]["k"] == "use"
                      and st["rv"]["op"].get("k") in ("copy", "move") and (st["rv"]["op"].get("ty") or "") == V]
            for i, st in stores:
                src_calls = set(id(o.call) for o in F.origins(ua, st["rv"]["op"], depth=10) if o.kind == "call")
                ws = fa.worlds_at(i) if fa.ok else None
                if ws is None:
                    continue
                unproven = 0
                for w in ws:
                    good_ = False
                    for key_, val in w:
                        a = fa.atoms.get(key_, {})
                        c_ = a.get("call")
                        if c_ is None or not isinstance(val, bool) or not re.search(r"Value::(is_null|is_not_null)$", short(c_.name)):
                            continue
                        notnull = val if short(c_.name).endswith("is_not_null") else (not val)
                        tested = set(id(o.call) for o in F.origins(ua, c_.args[0], depth=10) if o.kind == "call") if c_.args else set()
                        if notnull and (tested & src_calls):
                            good_ = True
                    if not good_:
                        unproven += 1
                if unproven:
                    ok = None
                    R.violation(rid, "update_aggregate|null-overwrites",
                                "MIN / MAX store the row's value into the group's running value on a path where it was not established to be "
                                "non-NULL: a NULL argument overwrites the running minimum (NULL is the smallest Value), so MIN restarts after "
                                "every NULL row", ["%s:%d" % (ua.file, st["line"])])
                    break
        if ok is None:
            pass
        elif ok:
            R.ok(rid, "update_aggregate|MinMax", "MIN/MAX by Value's order (%s) for every value type" % "/".join(meths), lt[0].loc())
        else:
            R.violation(rid, "update_aggregate|self-compare", "MIN / MAX compare a value with itself", [lt[0].loc()])
    else:
        R.violation(rid, "update_aggregate|no-order-compare", "MIN / MAX do not compare the new value with the stored one through Value's order "
                                                              "(calls: %s)" % names[:8], [ua.loc(tgt[0])])


def _nullrow(R, rid):
    """a NULL argument must not overwrite a published aggregate: in the SUM-like arm the write of NULL into the group's entry is
    reachable only through `aggregator.is_null() == true` (no non-NULL input so far)"""
    ua = R.need_fn(ENGINE + "update_aggregate")
    asw = A.enum_switches(ua, "model::Aggregate")
    if not asw:
        return
    arms_, wild, rest = A.arms(ua, asw[0])
    sumlike = [vn for vn in ("Sum", "Average", "StandardDeviation", "Percentile", "BoolAnd", "BoolOr") if vn in arms_]
    if not sumlike:
        R.violation(rid, "update_aggregate|no-sum-arm", "no SUM-like arm in update_aggregate", [ua.loc()])
        return
    reg = set()
    for vn in sumlike:
        reg |= ua.reachable_from(arms_[vn][0])
    for vn, (t_, _) in arms_.items():
        if vn not in sumlike:
            reg -= ua.reachable_from(t_)
    # writes of Value::Null through a reference in this arm: `*entry = Value::Null`
    null_writes = []
    for i, s in ua.stmts():
        if i in reg and s["k"] == "assign" and s["pl"]["p"] == ["*"]:
            rv = s["rv"]
            src = None
            if rv["k"] == "aggr" and rv.get("variant") == "Null":
                src = "Null"
            elif rv["k"] == "use" and rv["op"]["k"] in ("copy", "move"):
                l = rv["op"]["pl"]["l"]
                for i2, s2 in ua.stmts():
                    if s2["k"] == "assign" and s2["pl"]["l"] == l and not s2["pl"]["p"] and s2["rv"]["k"] == "aggr" and s2["rv"].get("variant") == "Null":
                        src = "Null"
            if src:
                null_writes.append((i, s))
    isn = [c for c in ua.calls if c.bb in reg and short(c.name) == AGG + "GroupAggregator::is_null"]
    if not null_writes:
        R.ok(rid, "update_aggregate|sum-like|null-row", "a NULL argument writes nothing into the group's published value", ua.loc(arms_[sumlike[0]][0]))
        return
    for i, s in null_writes:
        guarded = False
        for c in isn:
            g = PR.bool_guard(ua, c)
            if g and PR.dominated_by_edge(ua, i, g[0], g[1]):
                guarded = True
        if guarded:
            R.ok(rid, "update_aggregate|sum-like|null-row", "NULL is published only while the aggregator has seen no non-NULL value (is_null())",
                 "%s:%d" % (ua.file, s["line"]))
        else:
            R.violation(rid, "update_aggregate|sum-like|null-overwrites",
                        "in the SUM/AVG/STDDEV/PERCENTILE/BOOL_* arm a NULL argument overwrites the group's published value with NULL without checking "
                        "that no non-NULL value was aggregated before: the result depends on whether the NULL row comes last",
                        ["%s:%d" % (ua.file, s["line"])])


def _isnull(R, rid):
    f = R.prog.fn(AGG + "GroupAggregator::is_null")
    if f is None:
        R.note("GroupAggregator::is_null no longer exists; the NULL-row rule decides the NULL handling")
        return
    bad = [c for c in f.calls if short(c.name) not in (V + "::is_null", V + "::is_not_null")]
    if bad:
        R.violation(rid, "GroupAggregator::is_null", "GroupAggregator::is_null uses %s: an aggregator is NULL only when its running value is NULL; "
                                                     "comparing with a default (e.g. a SUM of exactly 0) reports NULL for a real value"
                    % [short(c.name) for c in bad][:3], [bad[0].loc()])
    else:
        R.ok(rid, "GroupAggregator::is_null", "only Value::is_null of the running values", f.loc())


def _slot_creation(R, rid):
    """every slot of the group tables is created with its own aggregate's default: what the accessors (get_group / get_group_value /
    get_group_aggregator and helpers new to the tree) put into a container is the result of the caller's default closure, or an empty
    inner container - never a filler value (a NULL-padded slot makes `if let Value::Int(n) = slot { n += 1 }` a silent no-op, and which
    slot gets padded depends on the order of the rows)"""
    P = R.prog
    R.rule(rid, "a group's value / aggregator slot is created only with the default its own aggregate supplies (the accessor inserts the "
                "result of the default closure, or an empty inner container): no padding / filler values")
    INS = re.compile(r"^(std::collections::hash::map::HashMap|alloc::collections::btree::map::BTreeMap)::insert$|^alloc::vec::Vec::(push|insert|resize|resize_with|extend_from_slice)$|"
                     r"(Vacant|Occupied)?Entry::(or_insert|or_insert_with|or_insert_with_key|or_default|insert|insert_entry)$|^alloc::vec::from_elem$")
    n = 0
    for nm in ("get_group", "get_group_value", "get_group_aggregator"):
        g0 = P.fn(ENGINE + nm)
        if g0 is None:
            continue
        g = PR.view(P, g0)
        for c in g.calls:
            if not INS.search(short(c.name)) or not c.args:
                continue
            val = c.args[-1]
            ty = val.get("ty") or ""
            if short(c.name).endswith("::or_default"):
                # entry(key).or_default(): the inserted value is Default of the entry's value type - fine for an (empty) inner container
                n += 1
                if re.search(r"(HashMap|BTreeMap|Vec|HashSet|BTreeSet)<[^<>]*(<[^<>]*>)?[^<>]*>\s*>?$", ty) or re.search(r", (std::collections::hash::map::HashMap|alloc::collections::btree::map::BTreeMap|alloc::vec::Vec)<", ty):
                    R.ok(rid, "%s|or_default" % nm, "inserts an empty inner container", c.loc(), nontrivial=False)
                else:
                    R.violation(rid, "%s|filler" % nm, "%s creates a slot with Default::default() of %s instead of the aggregate's own default"
                                % (g0.path, ty[:80]), [c.loc()])
                continue
            if val.get("k") == "const" or ty in ("usize",):
                continue
            n += 1
            os_ = F.origins(g, val, depth=12) if val.get("k") in ("copy", "move") else []
            from_default = any(o.kind == "call" and re.search(r"core::ops::function::Fn(Once|Mut)?::call(_once|_mut)?$", short(o.call.name)) for o in os_)
            empty_inner = any(o.kind == "call" and re.search(r"::(new|default|with_capacity)$", short(o.call.name)) for o in os_) or \
                bool(re.match(r"^\{closure", ty))
            if from_default or empty_inner:
                R.ok(rid, "%s|%s" % (nm, short(c.name).split("::")[-1]), "inserts %s" % ("the default closure's result" if from_default else "an empty inner container"),
                     c.loc(), nontrivial=False)
            else:
                R.violation(rid, "%s|filler" % nm,
                            "%s puts a value into the group table (%s) that is neither the result of the aggregate's default closure nor an empty "
                            "inner container: a slot created with a filler (e.g. NULL padding for earlier aggregates) is not what its aggregate's "
                            "update expects - COUNT's `if let Value::Int(n) = slot` then silently skips the row, and which groups are affected "
                            "depends on the order of the lines" % (g0.path, short(c.name).split("::")[-1]), [c.loc()])
    if n == 0:
        raise AnchorMissing("%s: no insertion into the group tables found in get_group / get_group_value / get_group_aggregator" % rid)
    # ... and nobody but those accessors (reached from the update of a validated row) creates a group: a group that no row made has no
    # validated key - the result phase indexes the key mapping / the key parts of every group it finds
    ENTRY = re.compile(r"^(std::collections::hash::map::HashMap|alloc::collections::btree::map::BTreeMap)::(insert|entry|extend|append)$")
    acc = set(ENGINE + nm for nm in ("get_group", "get_group_value", "get_group_aggregator"))
    outsiders = []
    for k in sorted(P.fns):
        f = P.fns[k]
        if f.target != "lib" or f.derived or not f.spath.startswith(AGG):
            continue
        owner = f
        while owner.kind == "Closure" and owner.parent_key in P.fns:
            owner = P.fns[owner.parent_key]
        if owner.spath in acc or (PR.pinned_fns() and owner.spath not in PR.pinned_fns()):
            continue        # (helpers new to the tree are seen inlined in their callers)
        fv = PR.view(P, f) if f.kind != "Closure" else f
        for c in fv.calls:
            if ENTRY.search(short(c.name)) and c.args and \
                    set(F.source_fields(fv, c.args[0], depth=8)) & {"group_values", "group_aggregators"} and \
                    not any(o.kind == "call" and short(o.call.name) in acc for o in F.origins(fv, c.args[0], depth=8)):
                # inside an accessor that was inlined into this function the insertion is the accessor's own
                if fv.blocks[c.bb].get("inl") and any(a_.split("::")[-1] in str(fv.blocks[c.bb].get("inl")) for a_ in acc):
                    continue
                outsiders.append((f, c))
    if outsiders:
        f, c = outsiders[0]
        R.violation(rid, "%s|outside-accessor" % f.spath.split("::")[-1],
                    "%s creates an entry of the group tables itself (%s) instead of through get_group*: a group that no aggregated row made "
                    "has no validated key, and the result phase indexes the group-key mapping and key parts for every group it finds"
                    % (f.path, short(c.name).split("::")[-1]), [c.loc()])
    else:
        R.ok(rid, "creators", "entries of the group tables are created only by the accessors", "src/execution/aggregate_execution.rs", nontrivial=False)


def _exact_sums(R, rid):
    P = R.prog
    # exact accumulation: an INT input is accumulated as INT; converting it to REAL before it enters a running sum makes the result
    # depend on the order in which roundings happen
    R.rule(rid, "no value enters a running sum (add_to_sum) through an INT -> REAL conversion: INT inputs are accumulated exactly")
    upf = R.need_fn(AGG + "GroupAggregator::update")
    adds = [c for c in upf.calls if short(c.name) == AGG + "add_to_sum"]
    if not adds:
        R.violation(rid, "update|no-sum", "GroupAggregator::update no longer accumulates through add_to_sum", [upf.loc()])
    for c in adds:
        lossy = [o for a_ in c.args for o in F.origins(upf, a_, depth=10) if o.kind == "cast" and o.extra in ("i64->f64", "i64->f32", "f64->i64")]
        key = "update|add_to_sum@%s" % (F.source_fields(upf, c.args[0], depth=6) or ["?"])[-1]
        if lossy:
            R.violation(rid, key + "|converted",
                        "a value is converted %s before it is added to a running sum: the accumulated REAL rounds in arrival order, so the aggregate "
                        "of INT inputs depends on the order / split of the input" % lossy[0].extra, [c.loc()])
        else:
            R.ok(rid, key, "accumulated in the input's own numeric kind", c.loc())


def run_c15(R):
    P = R.prog
    _slot_creation(R, "C15.slot")
    R.rule("C15.fold", "MIN / MAX cover every value type through Value's order; SUM-like folds take both operands (checked addition), so no fold "
                       "keeps the first value it saw")
    R.rule("C15.lazy", "a lazily created entry depends on the first value only through its type (default_value) or is immediately folded with it")
    R.rule("C15.containers", "PERCENTILE sorts before indexing and COUNT(DISTINCT) inserts into a set: arrival order is erased")
    _minmax(R, "C15.fold")
    _nullrow(R, "C15.fold")
    add = R.need_fn(AGG + "add_to_sum")
    cl = [short(c.name) for ch in P.children.get(add.key, []) for c in ch.calls]
    raw = [s for ch in P.children.get(add.key, []) for i, s in ch.stmts() if s["rv"]["k"] == "binop" and s["rv"]["op"] in ("Add", "AddWithOverflow")
           and s["rv"].get("lty") in ("f64",)]
    if any(n.endswith("<impl i64>::checked_add") for n in cl) and any(n.endswith("TimeDelta::checked_add") for n in cl) and raw:
        R.ok("C15.fold", "add_to_sum", "sum' = sum + value for INT (checked), REAL and INTERVAL (checked)", add.loc())
    else:
        R.violation("C15.fold", "add_to_sum", "the running sum is not `sum + value` for all three numeric kinds (callees %s)" % cl, [add.loc()])
    _exact_sums(R, "C15.exact")
    # lazy default
    df = R.need_fn(AGG + "GroupAggregator::default")
    uses = []
    for c in df.calls:
        if c.args and any(o.kind == "arg" and df.local_ty(o.arg).endswith("model::Value") for o in F.origins(df, c.args[0], depth=4)):
            uses.append(short(c.name))
    if uses and all(u == V + "::default_value" for u in uses):
        R.ok("C15.lazy", "GroupAggregator::default", "the first value is used only through default_value() (its type)", df.loc())
    else:
        R.violation("C15.lazy", "GroupAggregator::default", "a new aggregator is seeded from the first value itself (%s): the result depends on which "
                                                            "row arrives first" % sorted(set(uses)), [df.loc()])
    uv = R.need_fn(AGG + "GroupAggregator::update_value")
    names = [short(c.name) for c in uv.calls]
    srt = [c for c in uv.calls if short(c.name).endswith("<impl [T]>::sort") or short(c.name).endswith("sort_unstable")]
    gt = [c for c in uv.calls if short(c.name) == "core::slice::<impl [T]>::get"]
    ga = P.adts.get(AGG + "GroupAggregator") or {"variants": []}
    pv_tys = [fl["ty"] for v in ga["variants"] if v["name"] == "Percentile" for fl in v["fields"]]
    ordered = any(t.startswith("alloc::collections::btree::") for t in pv_tys)
    if srt and gt and uv.dominates(srt[0].bb, gt[0].bb):
        R.ok("C15.containers", "percentile", "values.sort() dominates the index lookup", srt[0].loc())
    elif ordered and not any(t.startswith("alloc::vec::Vec") for t in pv_tys):
        R.ok("C15.containers", "percentile", "the samples are kept in an ordered map (%s): arrival order is erased by construction" % pv_tys[0][:60],
             uv.loc())
    else:
        R.violation("C15.containers", "percentile", "PERCENTILE indexes the collected values without sorting them first", [uv.loc()])
    up = R.need_fn(AGG + "GroupAggregator::update")
    if any(short(c.name) == "std::collections::hash::set::HashSet::insert" and (c.func.get("res_targs") or c.targs)[:1] == [V] for c in up.calls):
        R.ok("C15.containers", "count-distinct", "COUNT(DISTINCT) inserts into HashSet<Value>", up.loc())
    else:
        R.violation("C15.containers", "count-distinct", "COUNT(DISTINCT) does not collect into a set of values", [up.loc()])
    _update_state(R)
    _distinct_store(R, "C15.distinct")
    _no_division_in_update(R, "C15.nodiv")
    R.assume("the algebraic laws themselves (commutativity / associativity of the folds over runtime values) are not decided; only the structural "
             "necessary conditions above are")


def _update_state(R, rid="C15.state"):
    """C15.state: the update phase keeps no memory besides the per-(group, aggregate) tables"""
    P = R.prog
    R.rule(rid, "the update phase of the aggregate engine branches on no engine state other than the group tables (addressed by this row's "
                        "group key and this aggregate's index): a memo or cursor shared between rows, groups or aggregates makes the result "
                        "depend on the order in which lines arrive")
    a = P.adts.get(AGG + "AggregateExecutionEngine")
    if not a:
        from .core import AnchorMissing, EngineError
        raise EngineError("AggregateExecutionEngine type not found")
    group_fields, other_fields = set(), set()
    for v in a["variants"]:
        for fl in v["fields"]:
            if fl["ty"].startswith("alloc::collections::btree::map::BTreeMap<" + AGG + "GroupKey") or \
                    fl["ty"].startswith("std::collections::hash::map::HashMap<" + AGG + "GroupKey"):
                group_fields.add(fl["name"])
            else:
                other_fields.add(fl["name"])
    entry = R.need_fn(ENGINE + "execute_update")
    reach = P.reachable([entry])
    n = 0
    for k in sorted(reach):
        f = P.fns[k]
        owner = f
        while owner.kind == "Closure" and owner.parent_key in P.fns:
            owner = P.fns[owner.parent_key]
        if owner.raw.get("impl_self") != AGG + "AggregateExecutionEngine" or f.kind == "Closure":
            continue
        n += 1

        def src(pl, f=f):
            return pl.get("l") == 1 and bool(set(place_fields(pl)) & other_fields)
        T, sinks, lines = F.forward_taint(f, src)
        key = f.spath.split("::")[-1]
        if sinks:
            flds = sorted(other_fields)
            R.violation(rid, key + "|" + ",".join(flds),
                        "%s branches on engine state outside the group tables (field %s, read at line %s): what is done with a row then depends on "
                        "the rows seen before it, beyond the group's own aggregate state" % (f.path, "/".join(flds), lines[:1]),
                        [f.loc(sinks[0])])
        else:
            R.ok(rid, key, "no branch depends on a non-group field (engine fields: %s)" % sorted(group_fields | other_fields), f.loc(),
                 nontrivial=(n <= 3))
    R.floor(rid, 4)


def _count_descr(f, op, depth=8):
    """what a count operand measures: (callee, receiver fields / type) of the call it comes from, or the local it is"""
    out = []
    for o in F.origins(f, op, depth=depth):
        if o.kind == "call":
            c = o.call
            recv = (F.source_fields(f, c.args[0], depth=6) or ["?"])[-1] if c.args and c.args[0]["k"] in ("copy", "move") else "?"
            out.append("%s(%s)" % (short(c.name).split("::")[-1] + "@" + short(c.name).split("::")[-2], recv))
        elif o.kind in ("arg", "place") and o.place is not None:
            out.append("local:%s" % (f.local_name(o.place["l"]) or o.place["l"]))
        elif o.kind == "const":
            out.append("const")
        else:
            out.append(o.kind)
    return sorted(set(out))


def _empty_state(R, rid):
    """result phase: an aggregator that accumulated nothing publishes nothing (the cell stays NULL)"""
    P = R.prog
    R.rule(rid, "an aggregator that has accumulated no value publishes none: in GroupAggregator::update_value a `Some(value)` is either what an "
                "Option-returning accessor of the accumulated state gave (get / first / last / max ..) or constructed behind a test of that "
                "state; never unconditionally (a group whose argument is NULL on every row must show NULL)")
    f = PR.view(P, R.need_fn(AGG + "GroupAggregator::update_value"))
    somes = [(i, st) for i, st in f.stmts() if st["k"] == "assign" and st["rv"]["k"] == "aggr" and (st["rv"].get("adt") or "") == "core::option::Option"
             and st["rv"].get("variant") == "Some" and "model::Value" in (f.local_ty(st["pl"]["l"]) if not st["pl"]["p"] else "model::Value")]
    n = 0
    for bb, st in somes:
        gs = F.guards_dominating(f, bb)
        state_guards = []
        for (sw, lab, tgt) in gs:
            info = F.switch_info(f, sw)
            if info is None:
                continue
            if info[0] == "discr" and info[1]["pl"]["l"] == 1 and [e for e in info[1]["pl"]["p"] if e != "*"] == []:
                continue    # the match on the aggregator's own variant
            state_guards.append(sw)
        n += 1
        if state_guards:
            R.ok(rid, "update_value|some@%d" % n, "Some(..) constructed behind a test of the accumulated state", f.loc(bb))
        else:
            R.violation(rid, "update_value|unconditional-some",
                        "GroupAggregator::update_value constructs Some(value) with no test of the accumulated state: an aggregator that received no "
                        "non-NULL value (the argument is NULL on every row of the group) publishes a value instead of leaving the cell NULL",
                        [f.loc(bb)])
    if not somes:
        R.ok(rid, "update_value|accessor", "no Some(..) is constructed: every published value is the Option an accessor of the state returned",
             f.loc())


def _percentile_rank(R, rid):
    """the rank `(p * N) as usize` is clamped by `M - 1`: N and M must measure the same thing (the number of collected samples)"""
    P = R.prog
    f = R.need_fn(AGG + "GroupAggregator::update_value")
    muls = [(i, s) for i, s in f.stmts() if s["rv"]["k"] == "binop" and s["rv"]["op"] == "Mul" and s["rv"].get("lty") == "f64"]
    mins = [c for c in f.calls if re.search(r"(^core::cmp::Ord::min$|as core::cmp::Ord>::min$|^core::cmp::min$)", short(c.name))]
    done = False
    for c in mins:
        # one side: the scaled rank (a FloatToInt cast of a product), other side: M - 1
        sides = [F.origins(f, a, depth=6, through_calls=False) for a in c.args[:2]]
        rank_side = [k for k, os_ in enumerate(sides) if any(o.kind == "cast" and o.extra.startswith("f64->") for o in os_)]
        if len(rank_side) != 1:
            continue
        bound = sides[1 - rank_side[0]]
        m_desc = None
        for o in bound:
            if o.kind == "call" and re.search(r"::(saturating_sub|checked_sub|wrapping_sub)$", short(o.call.name)):
                m_desc = _count_descr(f, o.call.args[0])
            elif o.kind == "binop" and o.extra in ("Sub", "SubWithOverflow"):
                m_desc = _count_descr(f, o.place["l"])
        n_desc = None
        for i, s in muls:
            for side in (s["rv"]["l"], s["rv"]["r"]):
                for o in F.origins(f, side, depth=6, through_calls=False):
                    if o.kind == "cast" and o.extra.endswith("->f64") and o.place is not None:
                        n_desc = _count_descr(f, o.place)
        if m_desc is None or n_desc is None:
            continue
        done = True
        if m_desc == n_desc:
            R.ok(rid, "percentile|rank", "rank scaled and clamped by the same count %s" % n_desc, c.loc())
        else:
            R.violation(rid, "percentile|rank", "PERCENTILE scales its rank by %s but clamps it by %s - 1: when the two differ (repeated values) "
                                                "the rank is cut short and a too-small element is returned" % (n_desc, m_desc), [c.loc()])
    if not done:
        R.note("%s: PERCENTILE rank clamp not in the `(p * n) as usize).min(m - 1)` form; the n = m agreement is not decided" % rid)


def _distinct_store(R, rid):
    """COUNT(DISTINCT): an update that reports `new value` has recorded that value in the aggregator's collection on the same path"""
    P = R.prog
    R.rule(rid, "COUNT(DISTINCT): whenever an update reports a new distinct value (Bool(true)), the value itself was stored in the set of "
                "values seen (insert / push of the value) on that path; otherwise a later occurrence is counted again")
    f = R.need_fn(AGG + "GroupAggregator::update")
    sws = A.enum_switches(f, "aggregate_execution::GroupAggregator")
    if not sws:
        R.violation(rid, "update|no-match", "GroupAggregator::update does not match on the aggregator kind", [f.loc()])
        return
    arms_, wild, rest = A.arms(f, sws[0])
    val_args = [a for a in range(1, f.arg_count + 1) if f.local_ty(a) == V]
    ga = P.adts.get(AGG + "GroupAggregator") or {"variants": []}
    coll_variants = [v["name"] for v in ga["variants"] if v["fields"] and
                     any(re.search(r"(HashSet|BTreeSet|Vec|HashMap|BTreeMap)<" + re.escape(V), fl["ty"]) for fl in v["fields"])
                     and not any(fl["ty"] == "f64" for fl in v["fields"])]
    n = 0
    for vn in coll_variants:
        if vn not in arms_:
            continue
        entry, reg = arms_[vn]
        stores = [c for c in f.calls if c.bb in reg and re.search(r"::(insert|push|push_back|extend_one)$", short(c.name)) and
                  any(o.kind == "arg" and o.arg in val_args for a_ in c.args[1:] for o in F.origins(f, a_, depth=8))]
        news = []
        for i, st in f.stmts():
            if i in reg and st["k"] == "assign" and st["rv"]["k"] == "aggr" and st["rv"].get("variant") == "Bool" and st["rv"]["ops"]:
                op = st["rv"]["ops"][0]
                if op["k"] == "const" and op.get("v") == "true":
                    news.append((i, st, "const"))
                elif op["k"] in ("copy", "move"):
                    os_ = F.origins(f, op, depth=6, through_calls=False)
                    if any(o.kind == "call" and o.call in stores for o in os_):
                        continue          # the reported flag is the result of the storing call itself
                    if any(o.kind == "const" and o.const.get("v") == "true" for o in os_):
                        news.append((i, st, "maybe-true"))
        if not news and not stores:
            continue
        n += 1
        bad = None
        for i, st, how in news:
            free = f.reachable_from(entry, avoid=set(c.bb for c in stores))
            if i in free and i not in [c.bb for c in stores]:
                bad = (i, st)
        if bad:
            R.violation(rid, "update|%s|new-without-store" % vn,
                        "GroupAggregator::update (%s) can report a new distinct value on a path that does not store the value in the "
                        "aggregator's collection: a later occurrence of the same value is counted again, so the count depends on the order "
                        "of the lines" % vn, ["%s:%d" % (f.file, bad[1]["line"])])
        else:
            R.ok(rid, "update|%s" % vn, "`new` is reported only together with storing the value (%d store site(s))" % len(stores), f.loc(entry))
    if n == 0:
        R.note("%s: no collection-backed aggregator variant found" % rid)


def _text_keys(R, rid):
    """values computed for one expression must not be stored or looked up under the *text* of the expression (Display is not injective:
    REAL literals print with two decimals), nor under the text of a value"""
    P = R.prog
    R.rule(rid, "no per-row / per-group cache is keyed by the rendered text of an expression or value (the rendering does not identify it: "
                "two different expressions can share an entry)")
    entry = R.need_fn(ENGINE + "execute_update")
    reach = P.reachable([entry])
    n = 0
    for k in sorted(reach):
        g = P.fns[k]
        if g.derived or g.target != "lib" or not g.spath.startswith("sqlgrep::execution::"):
            continue
        for c in g.calls:
            sn = short(c.name)
            if not re.search(r"(hash::map::HashMap|btree::map::BTreeMap|hash::set::HashSet|btree::set::BTreeSet)::(get|get_mut|entry|insert|contains_key|contains|remove)$", sn):
                continue
            ts = c.func.get("res_targs") or c.targs
            if not ts or ts[0] not in ("alloc::string::String", "&str", "str"):
                continue
            n += 1
            lossy = None
            for o in F.origins(g, c.args[1], depth=12):
                if o.kind == "call" and re.search(r"ToString>::to_string$|^alloc::fmt::format$", short(o.call.name)):
                    t0 = (o.call.func.get("res_targs") or o.call.targs or [""])[0]
                    if "sqlgrep::model::" in t0 or short(o.call.name).endswith("alloc::fmt::format"):
                        lossy = (o.call, t0)
            owner = g
            while owner.kind == "Closure" and owner.parent_key in P.fns:
                owner = P.fns[owner.parent_key]
            key = "%s|%s" % (owner.spath.split("::")[-1], sn.split("::")[-1])
            if lossy:
                R.violation(rid, key + "|text-key", "%s looks values up under the rendered text of %s: different expressions (e.g. `x * 0.001` and "
                                                    "`x * 0.000001`, both printed `x * 0.00`) share one entry, so an aggregate is computed from "
                                                    "another aggregate's argument" % (owner.path, lossy[1] or "a formatted value"),
                            [c.loc(), lossy[0].loc()])
            else:
                R.ok(rid, key, "string key is not a rendering of an expression / value", c.loc(), nontrivial=False)
    if n == 0:
        R.ok(rid, "update-phase", "no string-keyed map in the update phase", entry.loc())


def _no_division_in_update(R, rid):
    """the running state of an aggregate is updated by additions / comparisons / insertions only: integer division or remainder in the
    update step truncates, and a truncated running state depends on the order in which the values arrive"""
    P = R.prog
    R.rule(rid, "GroupAggregator::update (and the helpers it calls) contains no integer division / remainder: quotients are taken once, "
                "from the complete sums, when the result is produced")
    up = R.need_fn(AGG + "GroupAggregator::update")
    fns_ = [up] + [P.fns[k] for k in P.reachable([up]) if P.fns[k].spath.startswith(AGG) and P.fns[k].key != up.key and
                   not P.fns[k].spath.endswith("GroupAggregator::update_value")]
    from . import effects as E
    bad = []
    for g in fns_:
        for i, st in g.stmts():
            if st["rv"]["k"] == "binop" and st["rv"]["op"] in ("Div", "Rem") and st["rv"].get("lty") in \
                    ("i8", "i16", "i32", "i64", "i128", "isize", "u8", "u16", "u32", "u64", "u128", "usize"):
                # only a quotient that is written back into the aggregator (its running state) matters; the value published for this
                # update may be computed from the complete sums by division
                dl = st["pl"]["l"]
                sinks = E.taint_sinks(g, lambda pl, dl=dl: pl.get("l") == dl and not pl.get("p"))
                if any(k_.startswith("store:") for k_, _ in sinks):
                    bad.append((g, st))
        for c in g.calls:
            if re.search(r"<impl (i|u)(8|16|32|64|128|size)>::(checked_div|checked_rem|div_euclid|rem_euclid|wrapping_div|wrapping_rem|"
                         r"checked_div_euclid|checked_rem_euclid)$", short(c.name)):
                bad.append((g, {"line": c.line, "rv": {"op": short(c.name).split("::")[-1], "lty": ""}}))
    if bad:
        g, st = bad[0]
        R.violation(rid, "update|%s" % st["rv"]["op"],
                    "%s updates an aggregate's running state with integer %s (%s): the truncation is applied in arrival order, so the published "
                    "value depends on the order / split of the input" % (g.path, st["rv"]["op"], st["rv"].get("lty", "")),
                    ["%s:%d" % (g.file, st["line"])])
    else:
        R.ok(rid, "update", "%d function(s) of the update step, no integer division / remainder" % len(fns_), up.loc())
