"""C07 — LIMIT n outputs exactly the first n rows of the unlimited result."""
import re
from .prog import short, place_fields
from . import flow as F
from . import pathrules as PR
from . import rules_exec_loops as L

ENG = "sqlgrep::execution::execution_engine::ExecutionEngine::"


def _field_switches(f, field):
    """switch blocks that test a bool read from a place with the named field (also through copies / negation)"""
    return sorted(set(sw for sw, tt, ft in PR.field_bool_switches(f, field)))


def limit_edges(f):
    """{switch block: target taken when the limit is reached}: switches on output.reached_limit read directly, through copies /
    negation, or carried out of an (inlined or called) helper inside Ok(..) / a bool result"""
    out = {sw: tt for sw, tt, ft in PR.field_bool_switches(f, "reached_limit")}
    P = f.prog
    helper_calls = []
    for c in f.calls:
        for k in P.callee_keys(f, c):
            g = P.fns.get(k)
            if g is not None and PR.field_reads(g, "reached_limit"):
                helper_calls.append(c)
    for sw in sorted(f.reach):
        t = f.blocks[sw]["term"]
        if t["k"] != "switch" or t["discr"].get("ty") != "bool" or sw in out:
            continue
        os_ = F.origins(f, t["discr"], depth=14)
        hit = "reached_limit" in F.provenance_fields(f, t["discr"]) or any(o.kind == "call" and o.call in helper_calls for o in os_)
        if not hit:
            continue
        zero = [b for v, b in t["targets"] if v == "0"]
        if not zero:
            continue
        pos, _ = F.bool_edge_polarity(f, sw, "otherwise")
        out[sw] = t["otherwise"] if pos else zero[0]
    return out


def _limit_switches(f):
    return sorted(limit_edges(f))


def _cut_length_problems(P, f, op, depth=2):
    """the length a result table is cut to must be the statement's `limit` field: no constant and no arithmetic may stand in for it,
    also not through a local helper that computes it"""
    out = []
    for o in F.origins(f, op, depth=12, through_calls=False):
        if o.kind == "const":
            out.append("the constant %s is used as the length" % (o.const.get("v") if o.const else "?"))
        elif o.kind == "binop":
            out.append("the length is computed with %s" % o.extra)
        elif o.kind == "call":
            keys = [k for k in P.callee_keys(f, o.call) if not P.fns[k].derived and P.fns[k].spath.startswith("sqlgrep::")]
            for k in keys:
                g = P.fns[k]
                if depth <= 0:
                    continue
                inner = _cut_length_problems(P, g, 0, depth - 1)
                fields_ok = any(oo.kind in ("arg", "place") and oo.place is not None and "limit" in place_fields(oo.place)
                                for oo in F.origins(g, 0, depth=12, through_calls=False))
                for m in inner:
                    out.append("%s can return something else than LIMIT (%s)" % (g.path, m))
                if not fields_ok:
                    out.append("%s does not return the statement's limit field" % g.path)
    return out


def limit_counter(P):
    """(name of the field of ExecutionEngine that counts emitted rows against a statement's LIMIT, [functions that add to it]).
    The field is a usize, or a private newtype / struct around one usize; comparisons and additions are looked for in the *views* of
    the engine's functions, so accessor methods of such a newtype (`is_exhausted(limit)`, `record(n)`) are seen through."""
    adt = P.adts.get("sqlgrep::execution::execution_engine::ExecutionEngine")
    if not adt:
        return None, []

    def usize_like(ty):
        if ty == "usize":
            return True
        a2 = P.adts.get(ty)
        if a2 and len(a2["variants"]) == 1:
            fl = a2["variants"][0]["fields"]
            return len(fl) == 1 and fl[0]["ty"] == "usize"
        return False
    cands = [fl["name"] for v in adt["variants"] for fl in v["fields"] if usize_like(fl["ty"])]
    views = []
    for f0 in P.fns.values():
        if f0.target != "lib" or f0.kind == "Closure" or not f0.spath.startswith("sqlgrep::execution::execution_engine::"):
            continue
        if f0.spath not in PR.pinned_fns() and PR.pinned_fns():
            continue     # a new helper: it is analysed inlined into its callers
        views.append(PR.desugared(P, PR.view(P, f0)))
    found = None
    for f in views:
        for i, st in f.stmts():
            if st["k"] != "assign" or st["rv"]["k"] != "binop" or st["rv"]["op"] not in ("Ge", "Lt", "Gt", "Le", "Eq"):
                continue
            sides = [st["rv"]["l"], st["rv"]["r"]]
            names = [set(F.provenance_fields(f, x, depth=8)) if x["k"] in ("copy", "move") else set() for x in sides]
            for c in cands:
                if (c in names[0]) != (c in names[1]):
                    other = sides[1] if c in names[0] else sides[0]
                    if other["k"] in ("copy", "move") and ("limit" in F.provenance_fields(f, other, depth=10) or any(
                            o.kind == "arg" and f.local_ty(o.arg) == "core::option::Option<usize>" for o in F.origins(f, other, depth=8))):
                        found = c
    if found is None:
        return None, []
    writers = []
    for f in views:
        if f.spath.endswith("::new"):
            continue
        if any(st["k"] == "assign" and st["pl"]["p"] and found in place_fields(st["pl"]) and st["rv"]["k"] != "aggr" for i, st in f.stmts()) or \
                any(st["k"] == "assign" and st["rv"]["k"] == "binop" and st["rv"]["op"] in ("Add", "AddWithOverflow") and
                    any(x["k"] in ("copy", "move") and found in F.provenance_fields(f, x, depth=8) for x in (st["rv"]["l"], st["rv"]["r"]))
                    for i, st in f.stmts()):
            writers.append(f)
    return found, writers


def _limit_env(f, sw, truth):
    """initial flag environment on the edge of a limit switch: the tested local is known to be `truth` (so a later test of the same
    flag, or of a copy made before, follows the same way)"""
    d = f.blocks[sw]["term"]["discr"]
    env = {}
    if d["k"] in ("copy", "move") and not d["pl"]["p"] and d.get("ty") == "bool":
        env[d["pl"]["l"]] = ("const", truth)
    return env


def run(R):
    P = R.prog
    R.rule("C07.exit", "from the reached_limit==true edge of every executor no input-consuming call is reachable (all input loops are left)")
    R.rule("C07.count", "the LIMIT counter is increased by the number of emitted rows (Vec::len of the result rows), not by a filtered count")
    R.rule("C07.pre", "a non-aggregate query tests the limit before it executes a line (LIMIT 0 emits nothing) and truncates the rows "
                      "of a line to the remaining budget (join fan-out)")
    R.rule("C07.agg", "batch aggregates: the limit is applied to the complete result table in ExecutionEngine::execute only "
                      "(no other reader of the statement's limit in the execution engines)")
    R.rule("C07.sentinel", "`no LIMIT` stays distinguishable from every LIMIT n: the statement's Option<usize> limit is never collapsed to a plain "
                           "number by a default (unwrap_or(k) / unwrap_or_default / map_or(k, ..)) other than usize::MAX - LIMIT k would "
                           "then mean `no limit` (or the reverse)")
    n_lim = 0
    for g0 in sorted(P.fns.values(), key=lambda g: g.key):
        if g0.target != "lib" or g0.derived or g0.kind == "Closure" or not re.match(r"^sqlgrep::(execution|executor|model)\b", g0.spath):
            continue
        g = PR.view(P, g0)
        for c in g.calls:
            m = re.search(r"^core::option::Option::(unwrap_or|unwrap_or_default|map_or)$", short(c.name))
            if not m or not c.args or c.args[0].get("k") not in ("copy", "move") or not (c.args[0].get("ty") or "").startswith("core::option::Option<usize>"):
                continue
            if m.group(1) == "map_or" and len(c.args) > 1 and (c.args[1].get("ty") or "") != "usize":
                continue     # `limit.map_or(false, |l| n >= l)`: a test, not a number
            if "limit" not in F.provenance_fields(g, c.args[0], depth=10):
                continue
            n_lim += 1
            dflt = c.args[1] if len(c.args) > 1 else None
            is_max = dflt is not None and dflt.get("k") == "const" and str(dflt.get("int")) == str(2 ** 64 - 1)
            if is_max:
                R.ok("C07.sentinel", g0.spath.split("::")[-1] + "|limit-default", "limit.unwrap_or(usize::MAX)", c.loc(), nontrivial=False)
            else:
                R.violation("C07.sentinel", g0.spath.split("::")[-1] + "|limit-default",
                            "%s turns the statement's optional LIMIT into a plain number with the default %s: a statement without LIMIT and one "
                            "with LIMIT %s become indistinguishable (LIMIT 0 must print nothing, no LIMIT everything)"
                            % (g0.path, dflt.get("int", dflt.get("v", "?")) if isinstance(dflt, dict) and dflt.get("k") == "const" else "Default (0)",
                               dflt.get("int", "k") if isinstance(dflt, dict) and dflt.get("k") == "const" else 0), [c.loc()])
    if n_lim == 0:
        R.ok("C07.sentinel", "limit-default", "the Option<usize> limit is nowhere replaced by a default value", R.need_fn(ENG + "execute").loc())
    for name in (L.FILE_EXEC, L.FOLLOW_EXEC):
        f = L.exec_view(R, name)
        sn = "::".join(f.spath.split("::")[-2:])
        sws = _limit_switches(f)
        if not sws:
            R.violation("C07.exit", sn + "|untested", "%s does not test output.reached_limit" % f.path, [f.loc()])
            continue
        for sw in sws:
            t = f.blocks[sw]["term"]
            true_t = limit_edges(f).get(sw, t["otherwise"])
            # flag-sensitive: `let stop = output.reached_limit; .. if stop { break }` and outcome enums (`LineOutcome::Stop`) count
            after = PR.flag_reach(f, true_t, _limit_env(f, sw, True))
            if after is None:
                after = f.reachable_from(true_t)
            cons = [c for c in L.consuming_calls(f) if c.bb in after]
            if cons:
                R.violation("C07.exit", sn + "|continues",
                            "%s: after the limit is reached control can still reach %s: further input is consumed and further rows are emitted"
                            % (f.path, short(cons[0].name)), [f.loc(sw)])
            else:
                R.ok("C07.exit", sn, "limit edge leaves every input loop", f.loc(sw))
        # the limit test must be reached on every iteration that executed a line (not only when a row was produced)
        ex = [c for c in L.calls_reaching(f, L.ENGINE_EXEC) if PR.loop_of(f, c.bb)]
        for e in ex:
            lp = PR.loop_of(f, e.bb)
            g = PR.discr_guard(f, PR.calls_matching(f, r"Try>::branch$")[0], "Continue") if False else None
            # paths from the execute call back to the loop header that avoid every reached_limit test
            reach = PR.flag_reach(f, e.bb, avoid=set(sws))
            if reach is None:
                reach = f.reachable_from(e.bb, avoid=set(sws))
            hdr = lp[0]
            if hdr in reach:
                # the limit may be tested through a value computed from it (a flag / an outcome enum returned by an inlined helper):
                # follow the false side of every limit switch flag-sensitively and see whether the header is reached without ANY limit
                # switch on the way - i.e. cut the CFG at the limit switches only when they are really passed
                passed = False
                for sw_ in sws:
                    if sw_ in f.reachable_from(e.bb) and hdr not in f.reachable_from(e.bb, avoid={sw_}):
                        passed = True
                if passed:
                    reach = set()
            # only consider normal continuation (not error returns)
            if hdr in reach:
                R.violation("C07.exit", sn + "|limit-test-skipped",
                            "%s: there is a path from executing a line back to the loop header that does not test reached_limit" % f.path,
                            [e.loc()])
            else:
                R.ok("C07.exit", sn + "|tested-every-line", "reached_limit is tested on every path back to the loop header", e.loc())
    # counter: the usize field of the engine that is compared with the statement's LIMIT (found structurally, names are free)
    counter, writers = limit_counter(P)
    if counter is None:
        R.violation("C07.count", "engine|no-counter", "no usize field of ExecutionEngine is compared with the statement's LIMIT: emitted rows "
                                                      "are not counted against the limit", [R.need_fn(ENG + "execute").loc()])
        writers = []
    for ul in writers:
        wn = ul.spath.split("::")[-1]
        names = [short(c.name) for c in ul.calls]
        adds = []
        for i, st in ul.stmts():
            if st["k"] == "assign" and st["rv"]["k"] == "binop" and st["rv"]["op"] in ("Add", "AddWithOverflow", "AddUnchecked") and \
                    any(counter in F.provenance_fields(ul, side, depth=8) for side in (st["rv"]["l"], st["rv"]["r"]) if side["k"] in ("copy", "move")):
                adds.append(st)
        fed = []
        for st in adds:
            for side in (st["rv"]["l"], st["rv"]["r"]):
                if side["k"] in ("copy", "move") and counter in F.provenance_fields(ul, side, depth=8):
                    continue
                fed += [o for o in F.origins(ul, side, depth=8)] if side["k"] in ("copy", "move") else [None]
        if not adds:
            R.violation("C07.count", wn + "|no-count", "%s writes the LIMIT counter but does not add to it" % ul.path, [ul.loc()])
        elif any(re.search(r"Iterator::(filter|filter_map|take_while|skip_while|count)$|Iterator>::count$", n) for n in names):
            R.violation("C07.count", wn + "|filtered", "the LIMIT counter is fed from a filtered count (%s): rows that are emitted but not "
                                                       "counted make the query overshoot the limit"
                        % [n for n in names if "filter" in n or "count" in n][:2], [ul.loc()])
        elif fed and all(o is not None and o.kind == "call" and short(o.call.name) == "alloc::vec::Vec::len" and
                         "sqlgrep::data_model::Row" in " ".join(o.call.func.get("res_targs") or o.call.targs) for o in fed
                         if o is None or o.kind != "call" or not F.TRANSPARENT.search(short(o.call.name))
                         # (`+= result_row.map_or(0, |row| row.data.len())`: the 0 of a line without result row adds nothing)
                         if not (o is not None and o.kind == "const" and o.const is not None and o.const.get("int") == 0)) and \
                any(o is not None and o.kind == "call" and short(o.call.name) == "alloc::vec::Vec::len" for o in fed):
            R.ok("C07.count", wn, "counter += number of result rows (Vec<Row>::len)", ul.loc())
        else:
            R.violation("C07.count", wn + "|shape", "the LIMIT counter is increased by something else than the number of result rows (%s)"
                        % [str(o) for o in fed][:3], [ul.loc()])
    # pre-test and truncation in the Select arm
    ef = PR.desugared(P, R.need_fn(ENG + "execute"))
    es = PR.calls_matching(ef, r"ExecutionEngine::execute_select$")
    if len(es) < 1:
        R.violation("C07.pre", "execute|shape", "ExecutionEngine::execute: expected an execute_select call", [ef.loc()])
    else:
        # on every path to execute_select either the limit is absent or `counter < limit` holds (path facts on the body with local
        # predicate helpers inlined)
        keep = r"ExecutionEngine::(execute_select|execute_aggregate|execute_aggregate_update|execute_aggregate_result)$|" + \
               "|".join(re.escape(w.spath) + "$" for w in writers) if writers else r"ExecutionEngine::(execute_select|execute_aggregate)"
        efv = PR.desugared(P, PR.view(P, getattr(ef, "origin_fn", ef), keep=keep))
        fa = PR.facts(efv)
        evs_ = [c for c in efv.calls if short(c.name).endswith("ExecutionEngine::execute_select")]

        def no_budget_left_excluded(a, val):
            if a.get("kind") == "discr" and a.get("call") is None and val == "None" and \
                    ("limit" in place_fields(a["place"]) or
                     # (the statement's LIMIT read once into a local, e.g. through a `Statement::limit()` accessor)
                     ("Option<usize>" in efv.local_ty(a["place"]["l"]) and not place_fields(a["place"]) and
                      "limit" in F.provenance_fields(efv, {"k": "copy", "pl": {"l": a["place"]["l"], "p": []}}, depth=12))):
                return True
            if a.get("kind") == "binop" and a.get("op") in ("Ge", "Lt", "Gt", "Le"):
                l_is = a["l"]["k"] in ("copy", "move") and counter in F.provenance_fields(efv, a["l"], depth=8)
                r_is = a["r"]["k"] in ("copy", "move") and counter in F.provenance_fields(efv, a["r"], depth=8)
                if not (l_is or r_is):
                    return False
                op = a["op"]
                if r_is:   # normalise to counter OP limit
                    op = {"Ge": "Le", "Le": "Ge", "Gt": "Lt", "Lt": "Gt"}[op]
                return (op == "Ge" and val is False) or (op == "Lt" and val is True)
            # the remaining budget, computed once: `limit.map(|l| l.saturating_sub(counter)) == Some(0)` is false
            c_ = a.get("call")
            if a.get("kind") == "call" and c_ is not None and val is False and \
                    re.search(r"^<core::option::Option<T> as core::cmp::PartialEq>::eq$", short(c_.name)) and len(c_.args) == 2:
                sides = [F.origins(efv, x, depth=8) for x in c_.args]
                rem = zero = False
                for os_ in sides:
                    for o in os_:
                        # (desugared view: the closure of `limit.map(|l| l.saturating_sub(n))` is spliced in)
                        if o.kind == "call" and re.search(r"usize>::(saturating_sub|checked_sub)$", short(o.call.name)) and len(o.call.args) == 2 and \
                                all(a_.get("k") in ("copy", "move") for a_ in o.call.args) and \
                                "limit" in F.provenance_fields(efv, o.call.args[0], depth=10) and \
                                counter in F.provenance_fields(efv, o.call.args[1], depth=10):
                            rem = True
                        if o.kind == "call" and short(o.call.name) == "core::option::Option::map" and \
                                "limit" in F.provenance_fields(efv, o.call.args[0], depth=8):
                            for ck in (o.call.func.get("closure_args") or []):
                                g_ = P.fns.get(ck)
                                if g_ is None:
                                    continue
                                for c2 in g_.calls:
                                    if re.search(r"usize>::(saturating_sub|checked_sub)$", short(c2.name)) and len(c2.args) == 2 and \
                                            c2.args[1].get("k") in ("copy", "move") and counter in F.provenance_fields(g_, c2.args[1], depth=8):
                                        rem = True
                        if o.kind == "const" and o.const is not None and "promoted" in o.const and o.const["promoted"] < len(efv.promoted):
                            for pb in efv.promoted[o.const["promoted"]]["blocks"]:
                                for ps in pb["stmts"]:
                                    if ps["k"] == "assign" and ps["rv"]["k"] == "aggr" and ps["rv"].get("variant") == "Some" and \
                                            len(ps["rv"]["ops"]) == 1 and ps["rv"]["ops"][0].get("k") == "const" and \
                                            str(ps["rv"]["ops"][0].get("int", ps["rv"]["ops"][0].get("v"))).split("_")[0] == "0":
                                        zero = True
                return rem and zero
            return False
        pre = fa.ok and all(fa.every_path(ev.bb, no_budget_left_excluded) for ev in evs_)

        def limit_absent(a, val):
            return a.get("kind") == "discr" and a.get("call") is None and "limit" in place_fields(a["place"]) and val == "None"
        # (a copy of the call on the path where the statement has no LIMIT needs no truncation)
        fa0 = PR.facts(ef)
        es_lim = [c for c in es if not (fa0.ok and fa0.every_path(c.bb, limit_absent))] or es
        e = es_lim[0]
        if pre:
            R.ok("C07.pre", "execute|pre-test", "every path to execute_select passes `limit is None` or `counter < limit`", e.loc())
        else:
            R.violation("C07.pre", "execute|no-pre-test",
                        "ExecutionEngine::execute runs execute_select without first testing the emitted-row counter against the limit: LIMIT 0 "
                        "(or an exhausted limit) still emits the rows of one more line", [e.loc()])
        tr = [c for c in PR.calls_matching(ef, r"^alloc::vec::Vec::(truncate|drain)$") if all(c.bb in ef.reachable_from(e_.bb) for e_ in es_lim)]
        ulc = [c.bb for c in ef.calls if any(k2 in [w.key for w in writers] for k2 in P.callee_keys(ef, c))]
        # ... or the counting itself, when the function that did it was inlined into execute (renamed / new helper)
        if counter:
            ulc += [i for i, st in ef.stmts() if st["k"] == "assign" and st["rv"]["k"] == "binop" and st["rv"]["op"] in ("Add", "AddWithOverflow")
                    and any(x["k"] in ("copy", "move") and counter in F.provenance_fields(ef, x, depth=8) for x in (st["rv"]["l"], st["rv"]["r"]))]
        if tr and ulc and any(b_ in ef.reachable_from(t.bb) for t in tr for b_ in ulc):
            R.ok("C07.pre", "execute|truncate", "rows of a line are truncated to the remaining budget before they are counted", tr[0].loc())
        else:
            R.violation("C07.pre", "execute|no-truncate",
                        "ExecutionEngine::execute does not truncate the rows of one line to the remaining LIMIT budget: a line that joins "
                        "with several partners can exceed the limit", [e.loc()])
        # aggregate result arm truncates
        ar = PR.calls_matching(ef, r"ExecutionEngine::execute_aggregate_result$")
        if not ar and P.fn(ENG + "execute_aggregate_result") is None:
            # the wrapper was inlined by hand: the call it wrapped
            ar = PR.calls_matching(ef, r"aggregate_execution::AggregateExecutionEngine::execute_result$")
        cuts = [c for c in PR.calls_matching(ef, r"^alloc::vec::Vec::(truncate|drain)$") if ar and c.bb in ef.reachable_from(ar[0].bb)]
        if ar and cuts:
            problems = []
            for c in cuts:
                problems += _cut_length_problems(P, ef, c.args[1])
            if problems:
                R.violation("C07.agg", "execute|agg-cut-length", "the aggregate result is cut to a length that is not the statement's LIMIT: %s"
                            % problems[0], [cuts[0].loc()])
            else:
                R.ok("C07.agg", "execute|agg-truncate", "the complete aggregate table is cut to `limit` rows", ar[0].loc())
        else:
            R.violation("C07.agg", "execute|agg-untruncated", "the batch aggregate result is not cut to the limit", [ef.loc()])
    # an aggregate line that only updates the groups (batch mode) says nothing about the limit: it must not come back as `reached_limit`,
    # which makes the executor stop reading (with LIMIT 0 after the first line: the groups of all later lines are lost)
    ef2 = R.need_fn(ENG + "execute")
    au = PR.calls_matching(ef2, r"ExecutionEngine::execute_aggregate_update$")
    wkeys = set(w.key for w in writers)
    for c in au:
        tgt = ef2.blocks[c.bb]["term"].get("target")
        after = ef2.reachable_from(tgt) if tgt is not None else set()
        # (the other branches of the mode test are not `after` an update-only call unless control really merges)
        flag = [x for x in ef2.calls if x.bb in after and
                (short(x.name).endswith("ExecutionOutput::with_reached_limit") or any(k2 in wkeys for k2 in P.callee_keys(ef2, x)))]
        if flag:
            R.violation("C07.agg", "execute|update-only-limit", "after execute_aggregate_update (a batch line that only updates the groups) "
                        "ExecutionEngine::execute goes on to %s: with LIMIT 0 (no row is ever counted) the line is reported as having reached "
                        "the limit and the executor stops reading the input" % short(flag[0].name).split("::")[-1], [flag[0].loc()])
        else:
            R.ok("C07.agg", "execute|update-only", "an update-only aggregate line returns without touching the limit bookkeeping", c.loc())
    # who reads `.limit`
    for f in P.fns.values():
        if f.target != "lib" or f.derived:
            continue
        if not (f.spath.startswith("sqlgrep::execution::") or f.spath.startswith("sqlgrep::executor::")):
            continue
        rd = PR.field_reads(f, "limit")
        if not rd:
            continue
        owner = f
        while owner.kind == "Closure" and owner.parent_key in P.fns:
            owner = P.fns[owner.parent_key]
        # a helper that did not exist on the pinned tree belongs to the function(s) it was carved out of
        hops = 0
        cached_adts = set(adt for (adt, _n) in getattr(P, "cached_fields", {}) or {})
        if cached_adts and any(st["k"] == "assign" and st["rv"]["k"] == "aggr" and st["rv"].get("adt") in cached_adts for _, st in f.stmts()):
            R.ok("C07.agg", "limit-reader|" + owner.spath, "copies the statement's LIMIT into the engine once (a cached field, read as the LIMIT)",
                 owner.loc(), nontrivial=False)
            continue

        def _alias_read(st):
            pls = []
            if isinstance(st, dict) and st.get("k") == "assign":
                rv = st["rv"]
                pls = [rv.get("pl")] + [x.get("pl") for x in (rv.get("op"), rv.get("o")) if isinstance(x, dict)]
            return any(pl and any(isinstance(e, dict) and e.get("n") == "limit" and e.get("adt") in cached_adts for e in pl["p"]) for pl in pls)
        alias_only = bool(cached_adts) and all(_alias_read(st) for _, st in rd)
        while (alias_only or owner.spath not in PR.pinned_fns()) and owner.spath != ENG + "execute" and PR.pinned_fns() and hops < 3:
            callers = set()
            for h in P.fns.values():
                if h.target == owner.target and any(owner.key in P.callee_keys(h, c) for c in h.calls):
                    o2 = h
                    while o2.kind == "Closure" and o2.parent_key in P.fns:
                        o2 = P.fns[o2.parent_key]
                    callers.add(o2.key)
            if len(callers) != 1:
                break
            owner = P.fns[next(iter(callers))]
            hops += 1
        if owner.spath == ENG + "execute":
            R.ok("C07.agg", "limit-reader|" + owner.spath, "the one place where LIMIT is applied", owner.loc(), nontrivial=False)
        else:
            R.violation("C07.agg", "limit-reader|" + owner.spath,
                        "%s reads the statement's LIMIT: applying the limit anywhere but on the final result (e.g. before HAVING / DISTINCT) "
                        "changes which rows are returned" % owner.path, ["%s:%d" % (f.file, rd[0][1].get("line", f.line))])
    R.floor("C07.exit", 4)
    R.assume("'first n rows of the unlimited result' as a relation between two runs is not decided; only the mechanism is")
