"""C07 — LIMIT n outputs exactly the first n rows of the unlimited result."""
import re
from .prog import short, place_fields
from . import flow as F
from . import pathrules as PR
from . import rules_exec_loops as L

ENG = "sqlgrep::execution::execution_engine::ExecutionEngine::"


def _field_switches(f, field):
    """switch blocks that test a value read from a place with the named field"""
    res = []
    for (bb, s) in PR.field_reads(f, field):
        if isinstance(s, dict) and s.get("switch"):
            res.append(bb)
            continue
        l = s["pl"]["l"]
        for sw in sorted(f.reach):
            t = f.blocks[sw]["term"]
            if t["k"] == "switch" and t["discr"]["k"] in ("copy", "move") and t["discr"]["pl"]["l"] == l and not t["discr"]["pl"]["p"]:
                res.append(sw)
    return sorted(set(res))


def _limit_switches(f):
    """switches that test output.reached_limit directly, or the bool returned by a local helper that reads reached_limit"""
    sws = _field_switches(f, "reached_limit")
    P = f.prog
    for c in f.calls:
        for k in P.callee_keys(f, c):
            g = P.fns.get(k)
            if g is None or not PR.field_reads(g, "reached_limit"):
                continue
            for sw in sorted(f.reach):
                t = f.blocks[sw]["term"]
                if t["k"] == "switch" and t["discr"].get("ty") == "bool":
                    if any(o.kind == "call" and o.call is c for o in F.origins(f, t["discr"], depth=12)):
                        sws.append(sw)
    return sorted(set(sws))


def _cut_length_problems(P, f, op, depth=2):
    """the length a result table is cut to must be the statement's `limit` field: no constant and no arithmetic may stand in for it,
    also not through a local helper that computes it"""
    out = []
    for o in F.origins(f, op, depth=12, through_calls=False):
        if o.kind == "const":
            out.append("the constant %s is used as the length" % (o.const.get("v") if o.const else "?"))
        elif o.kind == "binop":
            out.append("the length is computed with %s" % o.extra)
        elif o.kind == "call":
            keys = [k for k in P.callee_keys(f, o.call) if not P.fns[k].derived and P.fns[k].spath.startswith("sqlgrep::")]
            for k in keys:
                g = P.fns[k]
                if depth <= 0:
                    continue
                inner = _cut_length_problems(P, g, 0, depth - 1)
                fields_ok = any(oo.kind in ("arg", "place") and oo.place is not None and "limit" in place_fields(oo.place)
                                for oo in F.origins(g, 0, depth=12, through_calls=False))
                for m in inner:
                    out.append("%s can return something else than LIMIT (%s)" % (g.path, m))
                if not fields_ok:
                    out.append("%s does not return the statement's limit field" % g.path)
    return out


def run(R):
    P = R.prog
    R.rule("C07.exit", "from the reached_limit==true edge of every executor no input-consuming call is reachable (all input loops are left)")
    R.rule("C07.count", "the LIMIT counter is increased by the number of emitted rows (Vec::len of the result rows), not by a filtered count")
    R.rule("C07.pre", "a non-aggregate query tests the limit before it executes a line (LIMIT 0 emits nothing) and truncates the rows "
                      "of a line to the remaining budget (join fan-out)")
    R.rule("C07.agg", "batch aggregates: the limit is applied to the complete result table in ExecutionEngine::execute only "
                      "(no other reader of the statement's limit in the execution engines)")
    for name in (L.FILE_EXEC, L.FOLLOW_EXEC):
        f = R.need_fn(name)
        sn = "::".join(f.spath.split("::")[-2:])
        sws = _limit_switches(f)
        if not sws:
            R.violation("C07.exit", sn + "|untested", "%s does not test output.reached_limit" % f.path, [f.loc()])
            continue
        for sw in sws:
            t = f.blocks[sw]["term"]
            true_t = t["otherwise"]
            after = f.reachable_from(true_t)
            cons = [c for c in L.consuming_calls(f) if c.bb in after]
            if cons:
                R.violation("C07.exit", sn + "|continues",
                            "%s: after the limit is reached control can still reach %s: further input is consumed and further rows are emitted"
                            % (f.path, short(cons[0].name)), [f.loc(sw)])
            else:
                R.ok("C07.exit", sn, "limit edge leaves every input loop", f.loc(sw))
        # the limit test must be reached on every iteration that executed a line (not only when a row was produced)
        ex = [c for c in L.calls_reaching(f, L.ENGINE_EXEC) if PR.loop_of(f, c.bb)]
        for e in ex:
            lp = PR.loop_of(f, e.bb)
            g = PR.discr_guard(f, PR.calls_matching(f, r"Try>::branch$")[0], "Continue") if False else None
            # paths from the execute call back to the loop header that avoid every reached_limit test
            reach = f.reachable_from(e.bb, avoid=set(sws))
            hdr = lp[0]
            # only consider normal continuation (not error returns)
            if hdr in reach:
                R.violation("C07.exit", sn + "|limit-test-skipped",
                            "%s: there is a path from executing a line back to the loop header that does not test reached_limit" % f.path,
                            [e.loc()])
            else:
                R.ok("C07.exit", sn + "|tested-every-line", "reached_limit is tested on every path back to the loop header", e.loc())
    # counter
    ul = R.need_fn(ENG + "update_limit")
    writes = [(i, s) for i, s in ul.stmts() if s["k"] == "assign" and "num_output_rows" in place_fields(s["pl"])]
    names = [short(c.name) for c in ul.calls]
    if not writes:
        R.violation("C07.count", "update_limit|no-count", "update_limit no longer counts emitted rows", [ul.loc()])
    elif any(re.search(r"Iterator::(filter|filter_map|take_while|skip_while|count)$|Iterator>::count$", n) for n in names):
        R.violation("C07.count", "update_limit|filtered", "the LIMIT counter is fed from a filtered count (%s): rows that are emitted but not "
                                                          "counted make the query overshoot the limit"
                    % [n for n in names if "filter" in n or "count" in n][:2], [ul.loc()])
    elif "alloc::vec::Vec::len" in names:
        R.ok("C07.count", "update_limit", "num_output_rows += result rows' Vec::len", ul.loc())
    else:
        R.violation("C07.count", "update_limit|shape", "unrecognised LIMIT counter update (callees %s)" % names, [ul.loc()])
    # pre-test and truncation in the Select arm
    ef = R.need_fn(ENG + "execute")
    es = PR.calls_matching(ef, r"ExecutionEngine::execute_select$")
    if len(es) != 1:
        R.violation("C07.pre", "execute|shape", "ExecutionEngine::execute: expected one execute_select call", [ef.loc()])
    else:
        e = es[0]
        # every path to execute_select passes either the `None` edge of the limit or the false edge of `num_output_rows >= limit`
        cut = set()
        for sw in sorted(ef.reach):
            info = F.switch_info(ef, sw)
            if not info:
                continue
            if info[0] == "discr" and "limit" in place_fields(info[1]["pl"]):
                names = {dv: n for dv, n in info[1].get("variants", [])}
                for lab, b in info[2].items():
                    if names.get(lab) == "None" or (lab == "otherwise" and "None" not in [names.get(l) for l in info[2] if l != "otherwise"]):
                        cut.add((sw, b))
            if info[0] == "bool":
                for lab in ("0", "otherwise"):
                    pos, os_ = F.bool_edge_polarity(ef, sw, lab)
                    for o in os_:
                        if o.kind == "binop" and o.extra in ("Ge", "Lt"):
                            ops = [o.place["l"], o.place["r"]]
                            if any(oo.place is not None and isinstance(oo.place, dict) and "p" in oo.place and
                                   "num_output_rows" in place_fields(oo.place) for op in ops for oo in F.origins(ef, op, depth=4)):
                                below = (o.extra == "Ge" and not pos) or (o.extra == "Lt" and pos)
                                if below:
                                    tgt = ef.blocks[sw]["term"]["otherwise"] if lab == "otherwise" else \
                                        [b for v, b in ef.blocks[sw]["term"]["targets"] if v == "0"][0]
                                    cut.add((sw, tgt))
        pre = bool(cut) and e.bb not in ef.reachable_from(0, avoid_edges=cut)
        if pre:
            R.ok("C07.pre", "execute|pre-test", "every path to execute_select passes `limit is None` or `num_output_rows < limit`", e.loc())
        else:
            R.violation("C07.pre", "execute|no-pre-test",
                        "ExecutionEngine::execute runs execute_select without first testing num_output_rows against the limit: LIMIT 0 "
                        "(or an exhausted limit) still emits the rows of one more line", [e.loc()])
        tr = [c for c in PR.calls_matching(ef, r"^alloc::vec::Vec::(truncate|drain)$") if c.bb in ef.reachable_from(e.bb)]
        ulc = PR.calls_matching(ef, r"ExecutionEngine::update_limit$")
        if tr and ulc and any(c.bb in ef.reachable_from(t.bb) for t in tr for c in ulc):
            R.ok("C07.pre", "execute|truncate", "rows of a line are truncated to the remaining budget before they are counted", tr[0].loc())
        else:
            R.violation("C07.pre", "execute|no-truncate",
                        "ExecutionEngine::execute does not truncate the rows of one line to the remaining LIMIT budget: a line that joins "
                        "with several partners can exceed the limit", [e.loc()])
        # aggregate result arm truncates
        ar = PR.calls_matching(ef, r"ExecutionEngine::execute_aggregate_result$")
        cuts = [c for c in PR.calls_matching(ef, r"^alloc::vec::Vec::(truncate|drain)$") if ar and c.bb in ef.reachable_from(ar[0].bb)]
        if ar and cuts:
            problems = []
            for c in cuts:
                problems += _cut_length_problems(P, ef, c.args[1])
            if problems:
                R.violation("C07.agg", "execute|agg-cut-length", "the aggregate result is cut to a length that is not the statement's LIMIT: %s"
                            % problems[0], [cuts[0].loc()])
            else:
                R.ok("C07.agg", "execute|agg-truncate", "the complete aggregate table is cut to `limit` rows", ar[0].loc())
        else:
            R.violation("C07.agg", "execute|agg-untruncated", "the batch aggregate result is not cut to the limit", [ef.loc()])
    # who reads `.limit`
    for f in P.fns.values():
        if f.target != "lib" or f.derived:
            continue
        if not (f.spath.startswith("sqlgrep::execution::") or f.spath.startswith("sqlgrep::executor::")):
            continue
        rd = PR.field_reads(f, "limit")
        if not rd:
            continue
        owner = f
        while owner.kind == "Closure" and owner.parent_key in P.fns:
            owner = P.fns[owner.parent_key]
        if owner.spath == ENG + "execute":
            R.ok("C07.agg", "limit-reader|" + owner.spath, "the one place where LIMIT is applied", owner.loc(), nontrivial=False)
        else:
            R.violation("C07.agg", "limit-reader|" + owner.spath,
                        "%s reads the statement's LIMIT: applying the limit anywhere but on the final result (e.g. before HAVING / DISTINCT) "
                        "changes which rows are returned" % owner.path, ["%s:%d" % (f.file, rd[0][1].get("line", f.line))])
    R.floor("C07.exit", 4)
    R.assume("'first n rows of the unlimited result' as a relation between two runs is not decided; only the mechanism is")
