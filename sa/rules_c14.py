"""C14 — parsing is total."""
from . import rules_sites


def run(R):
    rules_sites.run_inventory(
        R, "C14.sites", "PARSE",
        "every panic-capable, wrapping or truncating construct reachable from the parsing entry points is "
        "mechanically discharged, discharged by a tabled reason (optionally with a re-proved guard), a known finding, or reported")
    rules_sites.recursion_rule(R, "C14.recursion", "PARSE")
    _eof_exits(R)
    R.assume("recursion depth of the expression parser / converter is not bounded by this analysis (stack exhaustion on deeply nested input is outside the technique)")


def run_thorough(R):
    rules_sites.run_thorough_release(R, "C14.sites", "PARSE")


def _eof_exits(R):
    """C14.eof: tokenizing terminates - a loop that consumes characters must leave when there are none left.  Every loop of the tokenizer
    whose body advances the character stream (next_char / Peekable::next) has an exit taken on the `None` answer of an advance or a
    peek made in that loop (a `while current != Some('\\n') { current = next_char() }` spins forever at the end of the text)."""
    import re
    from .prog import short
    from . import flow as F, pathrules as PR
    P = R.prog
    R.rule("C14.eof", "every loop of the tokenizer that advances the character stream leaves the loop on the `None` (end of text) answer "
                      "of a next_char / next / peek call made inside it")
    ADV = re.compile(r"TokenizerState::next_char$|Peekable<.*>.*Iterator>::next$|str::iter::Chars<'a> as core::iter::traits::iterator::Iterator>::next$|"
                     r"adapters::peekable::Peekable<I> as core::iter::traits::iterator::Iterator>::next$")
    LOOK = re.compile(r"TokenizerState::next_char$|Peekable::peek$|Iterator>::next$|Peekable::next_if\w*$")
    fam = [g for g in P.fns.values() if g.target == "lib" and g.spath.startswith("sqlgrep::parsing::tokenizer::tokenize") and not g.derived]
    n = 0
    for g in fam:
        for hdr, body in sorted(g.loops().items()):
            adv = [c for c in g.calls if c.bb in body and ADV.search(short(c.name))]
            if not adv:
                continue
            n += 1
            ok = False
            for c in g.calls:
                if c.bb not in body or not LOOK.search(short(c.name)):
                    continue
                gd = PR.discr_guard(g, c, "Some")
                if gd is not None and any(t not in body or g.blocks[t]["term"]["k"] == "return" for t in (gd[2] or [])):
                    ok = True
                # `if x.is_none() { break }` / `while x.is_some()` on the answer
                for c2 in g.calls:
                    if c2.bb in body and re.search(r"Option::(is_none|is_some)$", short(c2.name)) and c2.args and \
                            any(o.kind == "call" and o.call is c for o in F.origins(g, c2.args[0], depth=8)):
                        bg = PR.bool_guard(g, c2)
                        if bg is not None:
                            leave = bg[1] if short(c2.name).endswith("is_none") else bg[2]
                            if leave not in body:
                                ok = True
            key = "%s|loop@%d" % (g.spath.split("::")[-1], len([1 for h2 in sorted(g.loops()) if h2 < hdr]))
            if ok:
                R.ok("C14.eof", key, "leaves on the None answer of an advance / peek", g.loc(hdr), nontrivial=(n <= 2))
            else:
                R.violation("C14.eof", key, "a loop in %s consumes characters (%s) but has no exit on the end of the text (no branch on the None "
                            "answer of next_char / peek leaves it): on an input that ends inside what the loop skips, parsing never terminates"
                            % (g.path, short(adv[0].name).split("::")[-1]), [g.loc(hdr)])
    R.floor("C14.eof", 1)
