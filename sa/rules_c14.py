"""C14 — parsing is total."""
from . import rules_sites


def run(R):
    rules_sites.run_inventory(
        R, "C14.sites", "PARSE",
        "every panic-capable, wrapping or truncating construct reachable from the parsing entry points is "
        "mechanically discharged, discharged by a tabled reason (optionally with a re-proved guard), a known finding, or reported")
    rules_sites.recursion_rule(R, "C14.recursion", "PARSE")
    R.assume("recursion depth of the expression parser / converter is not bounded by this analysis (stack exhaustion on deeply nested input is outside the technique)")


def run_thorough(R):
    rules_sites.run_thorough_release(R, "C14.sites", "PARSE")
