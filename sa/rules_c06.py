"""C06 — lines that yield no row are invisible to every query.

Must-pass-through: in each per-line entry of the engine every state-touching action is
dominated by the TRUE edge of the branch on Row::any_result() of the row extracted from this
line; the admission predicate itself (any non-NULL column, NOT NULL cut) is checked on the MIR
of Row::any_result and TableDefinition::extract."""
import re
from .prog import short, place_fields
from . import flow as F
from . import pathrules as PR

ENG = "sqlgrep::execution::execution_engine::ExecutionEngine::"
PER_LINE = [ENG + "execute_select", ENG + "execute_aggregate", ENG + "execute_aggregate_update"]
EXTRACT = r"^sqlgrep::data_model::TableDefinition::extract$"
ANY_RESULT = r"^sqlgrep::data_model::Row::any_result$"
# local callees that neither read nor write query state
PURE_LOCAL = re.compile(r"^sqlgrep::data_model::(Tables::get|TableDefinition::extract|Row::any_result)$|"
                        r"^sqlgrep::execution::execution_engine::ExecutionOutput::(empty|new)$|"
                        r"::\{closure#\d+\}$|^<.* as core::clone::Clone>::clone$")
EXTRACT_CALLERS_ALLOWED = set(PER_LINE) | {"sqlgrep::table_editor::TableEditor::update_preview", "sqlgrep::table_editor::TableEditor::new"}


def rules_sites_roots(R):
    from . import rules_sites
    return rules_sites.roots(R, "EXEC")


def run(R):
    P = R.prog
    R.rule("C06.guard", "per-line entry points: every call into the engine and every write through self is dominated by the true "
                        "edge of `row.any_result()` on the row extracted from this line")
    R.rule("C06.callers", "TableDefinition::extract is called only from the guarded per-line entry points")
    R.rule("C06.admit", "admission predicate: any_result() is `columns.iter().any(is_not_null)`; in extract() a NULL in a NOT NULL column "
                        "clears the row on every path, and the NULL test follows DEFAULT substitution")
    R.rule("C06.route", "the joined file is loaded through ExecutionEngine::execute (so the same guard applies to it)")
    R.rule("C06.limit", "the LIMIT counter is fed only from emitted rows")
    from . import effects as E
    ENG_ADT = "sqlgrep::execution::execution_engine::ExecutionEngine"
    exf = R.need_fn("sqlgrep::data_model::TableDefinition::extract")
    reach = P.reachable(rules_sites_roots(R))
    inert = E.inert_fields(P, ENG_ADT, reach)

    def via_outcome(f, sw1, adm1, rej1, witness):
        """the test's outcome is first stored (a bool flag, an Option around the row, an outcome enum) and branched on later"""
        for sw2 in sorted(f.reach):
            info = F.switch_info(f, sw2)
            if not info or sw2 == sw1 or not f.dominates(sw1, sw2):
                continue
            if info[0] == "discr" and not [e for e in info[1]["pl"]["p"] if e != "*"]:
                vb = F._variant_value_blocks(f, info[1]["pl"]["l"])
                names = dict((dv, n_) for dv, n_ in info[1].get("variants", []))
            elif info[0] == "bool" and info[1].get("k") in ("copy", "move") and not info[1]["pl"]["p"]:
                fb = F._flag_value_blocks(f, info[1]["pl"]["l"])
                vb = {"1": fb[True], "0": fb[False]} if fb else None
                names = {"0": "0"}
            else:
                continue
            if not vb:
                continue
            adm_vs = [v for v, bs in vb.items() if bs and all(f.dominates(adm1, b) for b in bs)]
            rej_vs = [v for v, bs in vb.items() if bs and all(f.dominates(rej1, b) for b in bs)]
            if len(adm_vs) != 1 or len(adm_vs) + len(rej_vs) != len([v for v, bs in vb.items() if bs]):
                continue
            tg = dict(info[2])
            if info[0] == "discr":
                lab = [l_ for l_, n_ in names.items() if n_ == adm_vs[0]]
                t_adm = tg.get(lab[0], tg.get("otherwise")) if lab else None
                t_rej = [b for l_, b in tg.items() if b != t_adm]
            else:
                t_adm = tg.get("otherwise") if adm_vs[0] == "1" else tg.get("0")
                t_rej = [tg.get("0") if adm_vs[0] == "1" else tg.get("otherwise")]
            if t_adm is not None and t_rej and F.edge_target_unique(f, sw2, t_adm):
                return (sw2, t_adm, t_rej[0], witness)
        return None

    def semantic_admit(f):
        """the admission test spelled out instead of calling Row::any_result(): `columns.iter().any(is_not_null)` / `find` / `position` /
        `!all(is_null)` over the extracted row, branched on directly or through an outcome value (a bool flag or an enum such as
        `RowAdmission::{Admitted, Rejected}`) that is assigned in the two arms and tested later.
        Returns (switch, admitted target, rejected target, witness call)."""
        ex = PR.calls_matching(f, EXTRACT)
        if len(ex) != 1:
            return None
        for c in f.calls:
            m = re.search(r"(?:^core::iter::traits::iterator::Iterator::|as core::iter::traits::iterator::Iterator>::)(any|all|find|position)$", short(c.name))
            if not m or not c.args:
                continue
            tests = []
            for ck in (c.func.get("closure_args") or []):
                g_ = P.fns.get(ck)
                if g_ is None:
                    continue
                if g_.kind != "Closure":
                    tests.append(g_.spath)          # `any(Value::is_not_null)`: the predicate itself is passed
                else:
                    tests += [short(c2.name) for c2 in g_.calls]
            nn = any(t.endswith("Value::is_not_null") for t in tests)
            nl = any(t.endswith("Value::is_null") for t in tests)
            if nn == nl:
                continue
            ros = F.origins(f, c.args[0], depth=30)
            if not any(o.kind == "call" and o.call is ex[0] for o in ros):
                continue
            if any(o.kind == "call" and re.search(r"::(skip|take|filter|rev|step_by|skip_while|take_while|nth|filter_map|chain|zip)$", short(o.call.name)) for o in ros):
                continue    # not a test over *all* columns
            kind = m.group(1)
            if kind in ("any", "all"):
                g = PR.bool_guard(f, c)
                if g is None:
                    continue
                # any(is_not_null): true = admitted; all(is_null): true = rejected; (any(is_null) / all(is_not_null) mean something else)
                if (kind == "any" and nn) or (kind == "all" and nl):
                    adm1, rej1 = (g[1], g[2]) if kind == "any" else (g[2], g[1])
                else:
                    continue
                sw1 = g[0]
            else:
                if not nn:
                    continue
                g = PR.discr_guard(f, c, "Some")
                if g is None or not g[2]:
                    continue
                sw1, adm1, rej1 = g[0], g[1], g[2][0]
            if F.edge_target_unique(f, sw1, adm1) and not _is_outcome_assignment(f, adm1):
                return (sw1, adm1, rej1, c)
            vo = via_outcome(f, sw1, adm1, rej1, c)
            if vo is not None:
                return vo
        return None

    def direct_admit(f, plain_edge=False):
        """(switch, admitted target, rejected target, any_result call) when f extracts a row and branches on its any_result()"""
        ex = PR.calls_matching(f, EXTRACT)
        ar = PR.calls_matching(f, ANY_RESULT)
        if len(ex) == 1 and not ar:
            return semantic_admit(f)
        if len(ex) != 1 or len(ar) != 1:
            return None
        if not any(o.kind == "call" and o.call is ex[0] for o in F.origins(f, ar[0].args[0], depth=6)):
            return None
        g = PR.bool_guard(f, ar[0])
        if g is None:
            return None
        if F.edge_target_unique(f, g[0], g[1]) and (plain_edge or not _is_outcome_assignment(f, g[1])):
            return (g[0], g[1], g[2], ar[0])
        # `match row.any_result() { true => Some(row), false => None }` of an inlined admission helper, tested by the caller
        return via_outcome(f, g[0], g[1], g[2], ar[0])

    def is_admission_helper(h):
        """h returns Some(row) exactly on the admitted edge of its own any_result() test"""
        if not h.local_ty(0).startswith("core::option::Option<sqlgrep::data_model::Row"):
            return False
        d = direct_admit(h, plain_edge=True)
        if d is None:
            return False
        somes = [i for i, st in h.stmts() if st["k"] == "assign" and st["rv"]["k"] == "aggr" and st["rv"].get("variant") == "Some"
                 and "data_model::Row" in h.local_ty(st["pl"]["l"])]
        return bool(somes) and all(h.dominates(d[1], i) for i in somes)

    helpers = set(k for k, h in P.fns.items() if h.target == "lib" and h.kind != "Closure" and PR.calls_matching(h, EXTRACT) and is_admission_helper(h))

    def admit_edge(f):
        d = direct_admit(f)
        if d is not None:
            return d
        hc = [c for c in f.calls if any(k in helpers for k in P.callee_keys(f, c))]
        if len(hc) == 1:
            g = PR.discr_guard(f, hc[0], "Some")
            if g is not None and F.edge_target_unique(f, g[0], g[1]) and g[2]:
                return (g[0], g[1], g[2][0], hc[0])
        return None

    per_line = []
    for k in sorted(reach):
        f = P.fns[k]
        if f.kind == "Closure" or f.target != "lib" or k in helpers:
            continue
        touches = PR.calls_matching(f, EXTRACT) or [c for c in f.calls if any(k2 in helpers for k2 in P.callee_keys(f, c))]
        if not touches or f.spath.startswith("sqlgrep::table_editor") or f.spath.startswith("sqlgrep::python_wrapper"):
            continue
        per_line.append(PR.view(P, f))      # helpers that are new to the tree (an `admission()` predicate, ..) inlined
    for f in per_line:
        key = f.spath.split("::")[-1]
        d = admit_edge(f)
        if d is None:
            ex = PR.calls_matching(f, EXTRACT)
            ar = PR.calls_matching(f, ANY_RESULT)
            R.violation("C06.guard", key + "|shape", "%s extracts a row but does not branch on any_result() of that row (extract calls %d, "
                                                     "any_result calls %d): a line that yields no row is treated like one that does"
                        % (f.path, len(ex), len(ar)), [f.loc()])
            continue
        sw, t_t, f_t, witness = d
        bad = []
        for c in f.calls:
            if not (c.func.get("res_local") or c.func.get("local") or c.func.get("crate") == "sqlgrep"):
                continue
            sn = short(c.name)
            if PURE_LOCAL.search(sn) or c is witness or any(k2 in helpers for k2 in P.callee_keys(f, c)):
                continue
            if f.dominates(t_t, c.bb):
                continue
            ks = P.callee_keys(f, c)
            if ks and all(E.is_inert_fn(P, k2, inert) for k2 in ks):
                continue   # statistics / diagnostics only: writes nothing a query result depends on
            bad.append((c.loc(), "call to %s" % sn))
        for (bb, desc, line) in PR.self_writes(f):
            if f.dominates(t_t, bb):
                continue
            fld = desc.split("self.")[-1].split(".")[0]
            if fld in inert:
                continue
            bad.append(("%s:%d" % (f.file, line), desc))
        if bad:
            for loc, desc in bad:
                R.violation("C06.guard", "%s|unguarded|%s" % (key, desc),
                            "%s: %s is not dominated by the admitted edge of row.any_result(): a line that yields no row can touch query state"
                            % (f.path, desc), [loc], {"guard": witness.loc()})
        else:
            n = len([c for c in f.calls if f.dominates(t_t, c.bb)])
            R.ok("C06.guard", key, "all %d engine calls and state writes lie behind the admission guard%s"
                 % (n, " (fields that cannot reach a result: %s)" % sorted(inert) if inert else ""), witness.loc())
    R.floor("C06.guard", 1)
    # wrappers around the per-line entries: a result table may be produced for a consumed line only if that line was admitted
    R.rule("C06.output", "a function that hands its line to a per-line entry and then renders a result table does so only behind a test of "
                         "that entry's admission outcome (a line that yields no row produces no output)")
    cg = P.callgraph()
    LC = set(f.key for f in per_line) | set(helpers)
    changed = True
    while changed:
        changed = False
        for k in sorted(reach):
            w = P.fns[k]
            if k in LC or w.kind == "Closure" or w.target != "lib":
                continue
            line_params = [a for a in range(1, w.arg_count + 1) if w.local_ty(a) in ("alloc::string::String", "&str", "&alloc::string::String")]
            if not line_params:
                continue
            for c in w.calls:
                if any(k2 in LC for k2 in P.callee_keys(w, c)) and \
                        any(o.kind == "arg" and o.arg in line_params for a in c.args for o in F.origins(w, a, depth=6)):
                    LC.add(k)
                    changed = True
                    break
    RESULT = "sqlgrep::execution::aggregate_execution::AggregateExecutionEngine::execute_result"
    rp = set(k for k in reach if P.fns[k].kind != "Closure" and any(P.fns[k2].spath == RESULT for k2 in P.reachable([P.fns[k]])))
    n_wr = 0
    for k in sorted(LC):
        w = P.fns[k]
        if w in per_line or k in helpers:
            continue
        n_wr += 1
        lcalls = [c for c in w.calls if any(k2 in LC for k2 in P.callee_keys(w, c))]
        for r in w.calls:
            rk = P.callee_keys(w, r)
            if not rk or not any(k2 in rp for k2 in rk) or any(k2 in LC for k2 in rk):
                continue
            after = [pc for pc in lcalls if r.bb in w.reachable_from(pc.bb) and r.bb != pc.bb]
            if not after:
                continue
            guarded = False
            for gsw, lab, tgt in F.guards_dominating(w, r.bb):
                info = F.switch_info(w, gsw)
                if not info:
                    continue
                if info[0] == "discr" and re.search(r"(ControlFlow|result::Result)$", (info[1].get("adt") or "").split("<")[0]):
                    continue
                d = w.blocks[gsw]["term"]["discr"]
                subject = info[1]["pl"] if info[0] == "discr" else d
                if any(o.kind == "call" and o.call in after for o in F.origins(w, subject, depth=12)):
                    guarded = True
            key = "%s|%s" % (w.spath.split("::")[-1], short(r.name).split("::")[-1])
            if guarded:
                R.ok("C06.output", key, "rendered only behind the admission outcome of the per-line call", r.loc())
            else:
                R.violation("C06.output", key, "%s consumes a line through %s and then calls %s unconditionally: a line that yields no row (or "
                                               "is rejected by the table) still produces a result table"
                            % (w.path, short(after[0].name).split("::")[-1], short(r.name).split("::")[-1]), [r.loc(), after[0].loc()])
    R.note("C06.output: %d wrapper(s) around the per-line entries analysed" % n_wr)
    # who may call extract: only functions that carry the admission test themselves (or the interactive editor)
    for k, cf in sorted(P.fns.items()):
        if cf.target != "lib" or not PR.calls_matching(cf, EXTRACT):
            continue
        owner = E.owner_of(P, cf)
        kk = owner.spath
        if kk.startswith("sqlgrep::table_editor") or kk.startswith("sqlgrep::python_wrapper"):
            R.ok("C06.callers", kk, "interactive editor preview (not a query)", cf.loc(), nontrivial=False)
        elif cf.key in helpers or direct_admit(PR.view(P, cf) if cf.kind != "Closure" else cf) is not None:
            R.ok("C06.callers", kk, "carries the any_result() admission test for the row it extracts", cf.loc())
        else:
            R.violation("C06.callers", kk, "%s calls TableDefinition::extract without testing any_result() on the row: the admission guard of "
                                           "the engine's per-line entry points is bypassed" % owner.path, [cf.loc()])
    R.floor("C06.callers", 1)
    # admission predicate
    anyf = R.need_fn("sqlgrep::data_model::Row::any_result")
    any_users = [g_ for g_ in P.fns.values() if g_.target == "lib" and g_.key in reach and PR.calls_matching(g_, ANY_RESULT)]
    names = [short(c.name) for c in anyf.calls]
    if not any_users:
        # the per-line entries test admission in place (C06.guard found `columns.iter().any/find(is_not_null)` on the extracted row):
        # what Row::any_result() computes no longer decides which lines a query sees
        R.ok("C06.admit", "any_result", "not called on the execution paths: admission is tested in place by the per-line entries", anyf.loc(),
             nontrivial=False)
        names = None
    child = [short(c.name) for ch in P.children.get(anyf.key, []) for c in ch.calls]
    adapters = [n for n in (names or []) if n.endswith(("::skip", "::take", "::filter", "::rev", "::step_by", "::skip_while", "::take_while", "::nth"))]
    if names is None:
        pass
    elif any(n.endswith("::any") for n in names) and child == ["sqlgrep::model::Value::is_not_null"] and not adapters:
        R.ok("C06.admit", "any_result", "iter().any(|x| x.is_not_null()) over all columns", anyf.loc())
    elif not adapters and not child and any(short(c.name).endswith("::any") and len(c.args) > 1 and c.args[1].get("k") == "const" and
                                            re.search(r"\bValue::is_not_null\}?$", (c.args[1].get("ty") or "") + " " + str(c.args[1].get("v", ""))) or
                                            (short(c.name).endswith("::any") and any(x.endswith("Value::is_not_null") for x in (c.func.get("fn_args") or [])))
                                            for c in anyf.calls):
        R.ok("C06.admit", "any_result", "iter().any(Value::is_not_null) over all columns", anyf.loc())
    elif any(n.endswith("::all") for n in names) and child == ["sqlgrep::model::Value::is_null"] and not adapters and \
            any(st["rv"]["k"] == "unop" and st["rv"]["op"] == "Not" for _, st in anyf.stmts()):
        R.ok("C06.admit", "any_result", "!iter().all(|x| x.is_null()) over all columns", anyf.loc())
    else:
        why = _any_result_loop_problem(anyf) if not adapters else "the columns are not all visited (%s)" % adapters[0]
        if why is None:
            R.ok("C06.admit", "any_result", "explicit loop over all columns: true at the first non-NULL column, false after the loop", anyf.loc())
        else:
            R.violation("C06.admit", "any_result", "Row::any_result does not mean `some column is not NULL`: %s" % why, [anyf.loc()])
    _check_not_null_cut(R, exf)
    # a line that matches no pattern yields no value in any column (BOOLEAN columns included): shared with C01
    from . import rules_c01
    rules_c01.bool_pattern_rule(R, "C06.admit")
    # join route
    jf = R.need_fn("sqlgrep::execution::join::JoinedTableData::execute")
    if PR.calls_matching(jf, r"^sqlgrep::execution::execution_engine::ExecutionEngine::execute$"):
        R.ok("C06.route", "JoinedTableData::execute", "joined lines go through ExecutionEngine::execute", jf.loc())
    else:
        R.violation("C06.route", "JoinedTableData::execute", "the joined file is not loaded through ExecutionEngine::execute", [jf.loc()])
    # limit counter (found structurally: the usize field compared with the statement's LIMIT)
    from .rules_c07 import limit_counter
    counter, writers = limit_counter(P)
    if counter is None:
        R.note("C06.limit: no LIMIT counter field found (decided by C07.count)")
    for w in writers:
        fed_ok = any(short(c.name) == "alloc::vec::Vec::len" and "sqlgrep::data_model::Row" in " ".join(c.func.get("res_targs") or c.targs)
                     for c in w.calls)
        if fed_ok or w.spath.endswith("::new"):
            R.ok("C06.limit", w.spath, "the LIMIT counter is increased by the number of emitted rows", w.loc(), nontrivial=False)
        else:
            R.violation("C06.limit", w.spath, "%s writes the LIMIT counter from something else than the emitted rows (e.g. per line): lines that "
                                              "yield no row would use up the limit" % w.path, [w.loc()])
    # a line that yields no row must not stop the reading either: the input loops end only at end of input / limit / interrupt, whatever
    # a line contains (the line-source rules of C12, re-decided here because invisibility of a line includes "the lines after it are read")
    from . import rules_c12
    from .rules_c16 import RemapRules
    rules_c12.run(RemapRules(R, "C12.", "C06.input-"))
    R.assume("extraction is a pure function of (definition, line): decided separately by C01.pure")


def line_memo_rule(R, rid):
    """no per-line entry of ExecutionEngine keeps a memo of earlier lines: a field of the engine that the entry itself assigns and also
    reads makes what happens to a line depend on the lines before it (a row suppressed because "the previous line looked the same")"""
    from . import effects as E
    P = R.prog
    ENG_ADT = "sqlgrep::execution::execution_engine::ExecutionEngine"
    R.rule(rid, "the per-line entries of ExecutionEngine (execute_select, execute_aggregate, execute_aggregate_update) assign no field of "
                "the engine that they also read (statistics that cannot reach a result excepted): a line is evaluated on its own")
    reach = P.reachable(rules_sites_roots(R))
    inert = E.inert_fields(P, ENG_ADT, reach)
    n = 0
    for nm in ("execute_select", "execute_aggregate", "execute_aggregate_update"):
        f0 = P.fn(ENG_ADT + "::" + nm)
        if f0 is None:
            continue
        f = PR.view(P, f0)
        n += 1
        written = {}
        for i, st in f.stmts():
            if st["k"] == "assign" and st["pl"]["l"] == 1 and place_fields(st["pl"]):
                written.setdefault(place_fields(st["pl"])[0], "%s:%d" % (f.file, st["line"]))
        for c in f.calls:
            if re.search(r"^core::mem::(replace|take|swap)$|^core::option::Option::(replace|insert|take|get_or_insert_with|get_or_insert)$", short(c.name)) and c.args:
                sp = F.source_place(f, c.args[0])
                if sp and sp["l"] == 1 and place_fields(sp):
                    written.setdefault(place_fields(sp)[0], c.loc())
        memo = [(fld, loc) for fld, loc in sorted(written.items()) if fld not in inert and
                [1 for (bb, st) in PR.field_reads(f, fld) if not (isinstance(st, dict) and st.get("k") == "assign" and st["pl"]["l"] == 1 and
                                                                  place_fields(st["pl"])[:1] == [fld])]]
        if memo:
            for fld, loc in memo[:2]:
                R.violation(rid, "%s|memo|%s" % (nm, fld), "ExecutionEngine::%s assigns self.%s and reads it: a memo of earlier lines decides what "
                            "happens to this line (e.g. a row is skipped because the previous line looked the same, although expressions can "
                            "also read `input`)" % (nm, fld), [loc])
        else:
            R.ok(rid, nm, "assigns no engine field that it reads (%s)" % (sorted(written) or "no field assigned"), f.loc(), nontrivial=False)
    if n == 0:
        from .core import AnchorMissing
        raise AnchorMissing("no per-line entry of ExecutionEngine found")


def _is_outcome_assignment(f, bb):
    """the block only records the outcome of the test in a flag / enum local and falls through (the real branch comes later)"""
    b = f.blocks[bb]
    if b["term"]["k"] != "goto":
        return False
    sts = [st for st in b["stmts"] if st["k"] == "assign"]
    return bool(sts) and all(not st["pl"]["p"] and st["rv"]["k"] in ("aggr", "use") for st in sts) and \
        any(st["rv"]["k"] == "aggr" or (st["rv"]["k"] == "use" and st["rv"]["op"].get("k") == "const") for st in sts)


def _any_result_loop_problem(f):
    """None if f is `for c in &self.columns { if c is not NULL { return true } } false` in any spelling; else a description.
    Decided by enumerating the paths of the loop body with the knowledge each branch gives about the element."""
    nx = [c for c in f.calls if short(c.name).endswith("as core::iter::traits::iterator::Iterator>::next")]
    if len(nx) != 1:
        return "no single loop over the columns (%d iterator advances)" % len(nx)
    g = PR.discr_guard(f, nx[0], "Some")
    lp = PR.loop_of(f, nx[0].bb)
    if g is None or lp is None:
        return "the column iteration is not a loop"
    header, body = lp
    bool_locals = set(l for l, d in enumerate(f.locals) if d["ty"] == "bool")
    nulltest = {}
    for c in f.calls:
        if short(c.name) in ("sqlgrep::model::Value::is_null", "sqlgrep::model::Value::is_not_null") and c.dest is not None:
            nulltest[c.dest["l"]] = short(c.name).endswith("is_null")
    problems = []

    def walk(b, isnull, env, seen, in_loop):
        if (b, isnull, tuple(sorted(env.items()))) in seen:
            return
        seen.add((b, isnull, tuple(sorted(env.items()))))
        env = dict(env)
        ret = None
        for st in f.blocks[b]["stmts"]:
            if st["k"] != "assign" or st["pl"]["p"]:
                continue
            l = st["pl"]["l"]
            rv = st["rv"]
            if l in bool_locals or l == 0:
                if rv["k"] == "use" and rv["op"]["k"] == "const" and rv["op"].get("v") in ("true", "false"):
                    env[l] = rv["op"]["v"] == "true"
                elif rv["k"] == "use" and rv["op"]["k"] in ("copy", "move") and not rv["op"]["pl"]["p"] and rv["op"]["pl"]["l"] in env:
                    env[l] = env[rv["op"]["pl"]["l"]]
                elif rv["k"] == "unop" and rv["op"] == "Not" and rv["o"]["k"] in ("copy", "move") and rv["o"]["pl"]["l"] in env:
                    env[l] = not env[rv["o"]["pl"]["l"]]
                else:
                    env.pop(l, None)
        t = f.blocks[b]["term"]
        if t["k"] == "call" and t.get("dest") is not None and not t["dest"]["p"]:
            dl = t["dest"]["l"]
            env.pop(dl, None)
            if dl in nulltest and isnull is not None:
                env[dl] = (isnull == nulltest[dl])
        if b in f.exits() or t["k"] == "return":
            val = env.get(0)
            if in_loop:
                if val is not True or isnull is not False:
                    problems.append("returns %s from inside the loop for an element that is %s" %
                                    (val, {True: "NULL", False: "not NULL", None: "not tested"}[isnull]))
            else:
                if val is not False:
                    problems.append("returns %s after all columns were NULL" % val)
            return
        succs = f.succs(b)
        if t["k"] == "switch":
            info = F.switch_info(f, b)
            d = t["discr"]
            if info and info[0] == "discr" and (info[1].get("adt") or "").endswith("model::Value") and in_loop:
                names_ = {dv: n for dv, n in info[1].get("variants", [])}
                for lab, tgt in info[2].items():
                    if lab == "otherwise":
                        listed = set(names_.get(l2) for l2 in info[2] if l2 != "otherwise")
                        walk(tgt, False if "Null" in listed else None, env, seen, in_loop)
                    else:
                        walk(tgt, names_.get(lab) == "Null", env, seen, in_loop)
                return
            if d["k"] in ("copy", "move") and not d["pl"]["p"] and d["pl"]["l"] in env and d.get("ty") == "bool":
                val = env[d["pl"]["l"]]
                zero = [bb for v, bb in t["targets"] if v == "0"]
                # a null test result also tells which way the element is
                succs = [t["otherwise"]] if val else zero
            elif d["k"] in ("copy", "move") and d["pl"]["l"] in nulltest and isnull is None:
                zero = [bb for v, bb in t["targets"] if v == "0"]
                is_null_fn = nulltest[d["pl"]["l"]]
                for tgt in zero:
                    walk(tgt, (not is_null_fn) if True else None, env, seen, in_loop)   # result false
                walk(t["otherwise"], is_null_fn, env, seen, in_loop)                       # result true
                return
        for y in succs:
            if y == header and in_loop:
                if isnull is not True:
                    problems.append("continues with the next column although this one is %s" % ("not NULL" if isnull is False else "not tested"))
                continue
            walk(y, isnull, env, seen, in_loop)

    walk(g[1], None, {}, set(), True)
    for nt in g[2]:
        walk(nt, None, {}, set(), False)
    return problems[0] if problems else None


def _check_not_null_cut(R, exf):
    reads = PR.field_reads(exf, "nullable")
    sws = []
    for (bb, s) in reads:
        # the switch that tests the value read
        if isinstance(s, dict) and s.get("switch"):
            sws.append(bb)
            continue
        l = s["pl"]["l"]
        for sw in sorted(exf.reach):
            t = exf.blocks[sw]["term"]
            if t["k"] == "switch" and t["discr"]["k"] in ("copy", "move") and t["discr"]["pl"]["l"] == l:
                sws.append(sw)
    if not sws:
        R.violation("C06.admit", "extract|nullable-unread", "TableDefinition::extract does not branch on column.options.nullable: NOT NULL is ignored",
                    [exf.loc()])
        return
    clears = [c.bb for c in PR.calls_matching(exf, r"^alloc::vec::Vec::clear$")]
    pushes = PR.calls_matching(exf, r"^alloc::vec::Vec::push$")
    isnull = PR.calls_matching(exf, r"^sqlgrep::model::Value::(is_null|is_not_null)$")
    # blocks that return an empty row built from a fresh vector nothing was pushed into
    push_recv = set()
    for pc in pushes:
        for o in F.origins(exf, pc.args[0], depth=6, through_calls=False):
            if o.kind == "call":
                push_recv.add(id(o.call))
    empty_rows = []
    row_sites = [(c.args[0], c.bb) for c in PR.calls_matching(exf, r"^sqlgrep::data_model::Row::new$")]
    for i, st in exf.stmts():
        if st["k"] == "assign" and st["rv"]["k"] == "aggr" and (st["rv"].get("adt") or "").endswith("data_model::Row") and st["rv"]["ops"]:
            row_sites.append((st["rv"]["ops"][0], i))
    for rop, rb in row_sites:
        os_ = F.origins(exf, rop, depth=8, through_calls=False)
        if os_ and all(o.kind == "call" and re.search(r"^alloc::vec::Vec::new$", short(o.call.name)) and id(o.call) not in push_recv for o in os_):
            empty_rows.append(rb)
    ok_all = True
    # path facts (any order / spelling of the two tests, named flags, early exits): a pass of the column loop goes on to the next
    # column only with `value is not NULL` or `nullable`, and the row is cut only with `value is NULL` and `not nullable`
    fa = PR.facts(exf, tag="notnull") if pushes else None
    lp0 = PR.loop_of(exf, pushes[0].bb) if pushes else None
    if fa is not None and fa.ok and lp0 is not None and fa.backedge_worlds(lp0[0]):
        def nullness(w):
            out = set()
            for key, val in w:
                a = fa.atoms.get(key, {})
                c = a.get("call")
                if c is not None and isinstance(val, bool) and re.search(r"Value::(is_null|is_not_null)$", short(c.name)):
                    out.add(val if short(c.name).endswith("is_null") else (not val))
            return out

        def nullable(w):
            out = set()
            for key, val in w:
                a = fa.atoms.get(key, {})
                if a.get("kind") == "place" and a.get("call") is None and (a.get("fields") or [None])[-1] == "nullable" and isinstance(val, bool):
                    out.add(val)
            return out

        fproblems = []
        for w in fa.backedge_worlds(lp0[0]):
            if False in nullness(w) or True in nullable(w):
                continue
            fproblems.append(("extract|cut-escapes",
                              "extract(): the column loop goes on to the next column on a path where the value was not shown to be non-NULL and the "
                              "column not shown to be nullable (%s): a line can be admitted with a NULL in a NOT NULL column"
                              % (", ".join(sorted(fa.describe(x) for x in w))[:200] or "no test at all"), exf.loc(lp0[0])))
            break
        for cb in clears + empty_rows:
            ws = fa.worlds_at(cb) or []
            if cb not in lp0[1] and not ws:
                continue
            badw = [w for w in ws if not (True in nullness(w) and False in nullable(w))]
            if badw:
                fproblems.append(("extract|cut-unconditional", "the NOT NULL cut in extract() is reached without `value is NULL` and `column "
                                  "is NOT NULL` both having been established (%s): admissible lines would be dropped"
                                  % (", ".join(sorted(fa.describe(x) for x in badw[0]))[:200] or "no test"), exf.loc(cb)))
        if not fproblems:
            sws = []
        else:
            # the same obligation by edge dominance with constant flags (`valid = false; ..; if !valid { clear }` cuts after the loop):
            # either proof suffices; only when both fail are the path-fact findings reported
            dom_ok = bool(sws)
            for sw in sws:
                t_ = exf.blocks[sw]["term"]
                zero_ = [b_ for v_, b_ in t_["targets"] if v_ == "0"]
                if not zero_:
                    continue
                behind = any((PR.bool_guard(exf, c_) or (None, None, None))[1] is not None and
                             exf.dominates(PR.bool_guard(exf, c_)[1 if short(c_.name).endswith("is_null") else 2], sw) for c_ in isnull)
                good_, _ = PR.all_paths_hit_flags(exf, zero_[0], clears + empty_rows)
                if not behind or not good_:
                    dom_ok = False
            if dom_ok:
                R.note("C06.admit: NOT NULL cut decided by edge dominance with constant flags (the path-fact form did not apply)")
            else:
                ok_all = False
                for k_, m_, l_ in fproblems:
                    R.violation("C06.admit", k_, m_, [l_])
                sws = []
    for sw in sws:
        t = exf.blocks[sw]["term"]
        zero = [b for v, b in t["targets"] if v == "0"]
        if not zero:
            continue
        not_nullable_edge = zero[0]
        # the nullable test must sit behind an is_null test of the value
        behind_null = any((PR.bool_guard(exf, c) or (None, None, None))[1] is not None and
                          exf.dominates(PR.bool_guard(exf, c)[1 if short(c.name).endswith("is_null") else 2], sw) for c in isnull)
        if not behind_null:
            ok_all = False
            R.violation("C06.admit", "extract|cut-unconditional", "the NOT NULL cut in extract() is not conditioned on the value being NULL",
                        [exf.loc(sw)])
            continue
        good, bad = PR.all_paths_hit_flags(exf, not_nullable_edge, clears + empty_rows)
        if not good:
            ok_all = False
            R.violation("C06.admit", "extract|cut-escapes",
                        "extract(): after a NULL in a NOT NULL column there is a path to the return that neither clears the row nor returns an "
                        "empty one (the line would be admitted)", [exf.loc(sw)], {"offending_exit_block": "bb%d" % bad})
            continue
        # after the clear no further push
        for cb in clears:
            after = exf.reachable_from(cb)
            late = [p for p in pushes if p.bb in after and p.bb != cb]
            if late:
                ok_all = False
                R.violation("C06.admit", "extract|push-after-clear", "extract(): a value is pushed after the NOT NULL cut cleared the row",
                            [late[0].loc()])
    # the NULL test is applied to the very value that goes into the row (after DEFAULT substitution and trimming)
    pushed_src = set()
    for pc in pushes:
        for o in F.origins(exf, pc.args[1], depth=8, through_calls=False):
            if o.kind == "call":
                pushed_src.add(id(o.call))
    for c in isnull:
        src = [o for o in F.origins(exf, c.args[0], depth=8, through_calls=False) if o.kind == "call"]
        if not any(id(o.call) in pushed_src for o in src):
            ok_all = False
            R.violation("C06.admit", "extract|null-test-source", "the NULL test in extract() is not applied to the value that is put into the row",
                        [c.loc()])
    # every row extract() returns is the vector filled by the tested loop (or an empty one): no path builds a row around the test
    rows = [(c.args[0], c.loc()) for c in PR.calls_matching(exf, r"^sqlgrep::data_model::Row::new$")]
    for i, st in exf.stmts():
        if st["k"] == "assign" and st["rv"]["k"] == "aggr" and (st["rv"].get("adt") or "").endswith("data_model::Row") and st["rv"]["ops"]:
            rows.append((st["rv"]["ops"][0], "%s:%d" % (exf.file, st["line"])))
    for rop, rloc in rows:
        os_ = F.origins(exf, rop, depth=8, through_calls=False)
        fresh = [o for o in os_ if o.kind == "call" and re.search(r"^alloc::vec::Vec::(new|with_capacity)$", short(o.call.name))]
        other = [o for o in os_ if o not in fresh]
        if other or not fresh:
            ok_all = False
            what = short(other[0].call.name) if other and other[0].kind == "call" else (other[0].kind if other else "nothing")
            R.violation("C06.admit", "extract|row-around-test", "extract() returns a row built from %s, not the vector filled under the NOT NULL "
                                                                "test: a line can be admitted with a NULL in a NOT NULL column" % what, [rloc])
    if not rows:
        ok_all = False
        R.violation("C06.admit", "extract|no-row", "extract() no longer builds its result with Row::new", [exf.loc()])
    if ok_all:
        R.ok("C06.admit", "extract|not-null-cut", "NULL in a NOT NULL column clears the row on every path; test applied to the extracted (defaulted) value",
             exf.loc(sws[0]) if sws else exf.loc())
