"""C06 — lines that yield no row are invisible to every query.

Must-pass-through: in each per-line entry of the engine every state-touching action is
dominated by the TRUE edge of the branch on Row::any_result() of the row extracted from this
line; the admission predicate itself (any non-NULL column, NOT NULL cut) is checked on the MIR
of Row::any_result and TableDefinition::extract."""
import re
from .prog import short, place_fields
from . import flow as F
from . import pathrules as PR

ENG = "sqlgrep::execution::execution_engine::ExecutionEngine::"
PER_LINE = [ENG + "execute_select", ENG + "execute_aggregate", ENG + "execute_aggregate_update"]
EXTRACT = r"^sqlgrep::data_model::TableDefinition::extract$"
ANY_RESULT = r"^sqlgrep::data_model::Row::any_result$"
# local callees that neither read nor write query state
PURE_LOCAL = re.compile(r"^sqlgrep::data_model::(Tables::get|TableDefinition::extract|Row::any_result)$|"
                        r"^sqlgrep::execution::execution_engine::ExecutionOutput::(empty|new)$|"
                        r"::\{closure#\d+\}$|^<.* as core::clone::Clone>::clone$")
EXTRACT_CALLERS_ALLOWED = set(PER_LINE) | {"sqlgrep::table_editor::TableEditor::update_preview", "sqlgrep::table_editor::TableEditor::new"}


def run(R):
    P = R.prog
    R.rule("C06.guard", "per-line entry points: every call into the engine and every write through self is dominated by the true "
                        "edge of `row.any_result()` on the row extracted from this line")
    R.rule("C06.callers", "TableDefinition::extract is called only from the guarded per-line entry points")
    R.rule("C06.admit", "admission predicate: any_result() is `columns.iter().any(is_not_null)`; in extract() a NULL in a NOT NULL column "
                        "clears the row on every path, and the NULL test follows DEFAULT substitution")
    R.rule("C06.route", "the joined file is loaded through ExecutionEngine::execute (so the same guard applies to it)")
    R.rule("C06.limit", "the LIMIT counter is fed only from emitted rows")
    for name in PER_LINE:
        f = R.need_fn(name)
        ex = PR.calls_matching(f, EXTRACT)
        ar = PR.calls_matching(f, ANY_RESULT)
        key = f.spath.split("::")[-1]
        if len(ex) != 1 or len(ar) != 1:
            R.violation("C06.guard", key + "|shape", "%s must extract the row once and test any_result() once (found %d / %d)"
                        % (f.path, len(ex), len(ar)), [f.loc()])
            continue
        if not any(o.kind == "call" and o.call is ex[0] for o in F.origins(f, ar[0].args[0], depth=6)):
            R.violation("C06.guard", key + "|other-row", "any_result() in %s is not applied to the row extracted from this line" % f.path,
                        [ar[0].loc()])
            continue
        g = PR.bool_guard(f, ar[0])
        if g is None:
            R.violation("C06.guard", key + "|no-branch", "result of any_result() is not branched on in %s" % f.path, [ar[0].loc()])
            continue
        sw, t_t, f_t = g
        if not F.edge_target_unique(f, sw, t_t):
            R.violation("C06.guard", key + "|merge", "true edge of the any_result() branch merges with other control flow", [ar[0].loc()])
            continue
        bad = []
        for c in f.calls:
            if not (c.func.get("res_local") or c.func.get("local") or c.func.get("crate") == "sqlgrep"):
                continue
            sn = short(c.name)
            if PURE_LOCAL.search(sn):
                continue
            if not f.dominates(t_t, c.bb):
                bad.append((c.loc(), "call to %s" % sn))
        for (bb, desc, line) in PR.self_writes(f):
            if not f.dominates(t_t, bb):
                bad.append(("%s:%d" % (f.file, line), desc))
        if bad:
            for loc, desc in bad:
                R.violation("C06.guard", "%s|unguarded|%s" % (key, desc),
                            "%s: %s is not dominated by the true edge of row.any_result(): a line that yields no row can touch query state"
                            % (f.path, desc), [loc], {"guard": ar[0].loc()})
        else:
            n = len([c for c in f.calls if f.dominates(t_t, c.bb)])
            R.ok("C06.guard", key, "all %d engine calls and self-writes lie behind the guard" % n, ar[0].loc())
    R.floor("C06.guard", 3)
    # who may call extract
    cg = P.callgraph()
    exf = R.need_fn("sqlgrep::data_model::TableDefinition::extract")
    for ck, callees in sorted(cg.items()):
        if exf.key in callees:
            cf = P.fns[ck]
            owner = cf
            while owner.kind == "Closure" and owner.parent_key in P.fns:
                owner = P.fns[owner.parent_key]
            k = owner.spath
            if k in EXTRACT_CALLERS_ALLOWED or k.startswith("sqlgrep::table_editor") or k.startswith("sqlgrep::python_wrapper"):
                R.ok("C06.callers", k, "guarded per-line entry point / interactive editor", cf.loc())
            else:
                R.violation("C06.callers", k, "%s calls TableDefinition::extract directly, bypassing the any_result() admission guard of the "
                                              "engine's per-line entry points" % owner.path, [cf.loc()])
    R.floor("C06.callers", 3)
    # admission predicate
    anyf = R.need_fn("sqlgrep::data_model::Row::any_result")
    names = [short(c.name) for c in anyf.calls]
    child = [short(c.name) for ch in P.children.get(anyf.key, []) for c in ch.calls]
    if any(n.endswith("::any") for n in names) and child == ["sqlgrep::model::Value::is_not_null"] and \
            not any(n.endswith(("::skip", "::take", "::filter", "::rev", "::step_by")) for n in names):
        R.ok("C06.admit", "any_result", "iter().any(|x| x.is_not_null()) over all columns", anyf.loc())
    else:
        R.violation("C06.admit", "any_result", "Row::any_result is no longer `columns.iter().any(|x| x.is_not_null())` (callees: %s / %s)"
                    % (names, child), [anyf.loc()])
    _check_not_null_cut(R, exf)
    # join route
    jf = R.need_fn("sqlgrep::execution::join::JoinedTableData::execute")
    if PR.calls_matching(jf, r"^sqlgrep::execution::execution_engine::ExecutionEngine::execute$"):
        R.ok("C06.route", "JoinedTableData::execute", "joined lines go through ExecutionEngine::execute", jf.loc())
    else:
        R.violation("C06.route", "JoinedTableData::execute", "the joined file is not loaded through ExecutionEngine::execute", [jf.loc()])
    # limit counter
    for f in P.fns.values():
        if f.target != "lib" or f.derived:
            continue
        for i, s in f.stmts():
            if s["k"] == "assign" and "num_output_rows" in place_fields(s["pl"]):
                owner = f.spath
                if owner.endswith("ExecutionEngine::update_limit") or owner.endswith("ExecutionEngine::new"):
                    R.ok("C06.limit", owner, "writer of num_output_rows", "%s:%d" % (f.file, s["line"]), nontrivial=False)
                else:
                    R.violation("C06.limit", owner, "num_output_rows is written outside update_limit", ["%s:%d" % (f.file, s["line"])])
    R.assume("extraction is a pure function of (definition, line): decided separately by C01.pure")


def _check_not_null_cut(R, exf):
    reads = PR.field_reads(exf, "nullable")
    sws = []
    for (bb, s) in reads:
        # the switch that tests the value read
        if isinstance(s, dict) and s.get("switch"):
            sws.append(bb)
            continue
        l = s["pl"]["l"]
        for sw in sorted(exf.reach):
            t = exf.blocks[sw]["term"]
            if t["k"] == "switch" and t["discr"]["k"] in ("copy", "move") and t["discr"]["pl"]["l"] == l:
                sws.append(sw)
    if not sws:
        R.violation("C06.admit", "extract|nullable-unread", "TableDefinition::extract does not branch on column.options.nullable: NOT NULL is ignored",
                    [exf.loc()])
        return
    clears = [c.bb for c in PR.calls_matching(exf, r"^alloc::vec::Vec::clear$")]
    pushes = PR.calls_matching(exf, r"^alloc::vec::Vec::push$")
    isnull = PR.calls_matching(exf, r"^sqlgrep::model::Value::(is_null|is_not_null)$")
    ok_all = True
    for sw in sws:
        t = exf.blocks[sw]["term"]
        zero = [b for v, b in t["targets"] if v == "0"]
        if not zero:
            continue
        not_nullable_edge = zero[0]
        # the nullable test must sit behind an is_null test of the value
        behind_null = any((PR.bool_guard(exf, c) or (None, None, None))[1] is not None and
                          exf.dominates(PR.bool_guard(exf, c)[1 if short(c.name).endswith("is_null") else 2], sw) for c in isnull)
        if not behind_null:
            ok_all = False
            R.violation("C06.admit", "extract|cut-unconditional", "the NOT NULL cut in extract() is not conditioned on the value being NULL",
                        [exf.loc(sw)])
            continue
        good, bad = PR.all_paths_hit_flags(exf, not_nullable_edge, clears)
        if not good:
            ok_all = False
            R.violation("C06.admit", "extract|cut-escapes",
                        "extract(): after a NULL in a NOT NULL column there is a path to the return that does not clear the row "
                        "(the line would be admitted)", [exf.loc(sw)], {"offending_exit_block": "bb%d" % bad})
            continue
        # after the clear no further push
        for cb in clears:
            after = exf.reachable_from(cb)
            late = [p for p in pushes if p.bb in after and p.bb != cb]
            if late:
                ok_all = False
                R.violation("C06.admit", "extract|push-after-clear", "extract(): a value is pushed after the NOT NULL cut cleared the row",
                            [late[0].loc()])
    # NULL test after DEFAULT substitution: is_null is applied to the value returned by ColumnParsing::extract (which applies DEFAULT)
    for c in isnull:
        src = PR.origin_has_call(exf, c.args[0], r"^sqlgrep::data_model::ColumnParsing::extract$")
        if src is None:
            ok_all = False
            R.violation("C06.admit", "extract|null-test-source", "the NULL test in extract() is not applied to the column's extracted value",
                        [c.loc()])
    # every row extract() returns is the vector filled by the tested loop (or an empty one): no path builds a row around the test
    rows = [(c.args[0], c.loc()) for c in PR.calls_matching(exf, r"^sqlgrep::data_model::Row::new$")]
    for i, st in exf.stmts():
        if st["k"] == "assign" and st["rv"]["k"] == "aggr" and (st["rv"].get("adt") or "").endswith("data_model::Row") and st["rv"]["ops"]:
            rows.append((st["rv"]["ops"][0], "%s:%d" % (exf.file, st["line"])))
    for rop, rloc in rows:
        os_ = F.origins(exf, rop, depth=8, through_calls=False)
        fresh = [o for o in os_ if o.kind == "call" and re.search(r"^alloc::vec::Vec::(new|with_capacity)$", short(o.call.name))]
        other = [o for o in os_ if o not in fresh]
        if other or not fresh:
            ok_all = False
            what = short(other[0].call.name) if other and other[0].kind == "call" else (other[0].kind if other else "nothing")
            R.violation("C06.admit", "extract|row-around-test", "extract() returns a row built from %s, not the vector filled under the NOT NULL "
                                                                "test: a line can be admitted with a NULL in a NOT NULL column" % what, [rloc])
    if not rows:
        ok_all = False
        R.violation("C06.admit", "extract|no-row", "extract() no longer builds its result with Row::new", [exf.loc()])
    if ok_all:
        R.ok("C06.admit", "extract|not-null-cut", "NULL in a NOT NULL column clears the row on every path; test applied to the extracted (defaulted) value",
             exf.loc(sws[0]))
