"""P-ARM: arm tables of `match` on an enum (switchInt on a discriminant)."""
from .prog import short
from . import flow as F


def enum_switches(fn, adt_suffix, on_self=False):
    res = []
    for sw in sorted(fn.reach):
        info = F.switch_info(fn, sw)
        if not info or info[0] != "discr":
            continue
        if not (info[1].get("adt") or "").endswith(adt_suffix):
            continue
        res.append(sw)
    return res


def arms(fn, sw):
    """{variant name: (target block, region blocks)}, has_wildcard, wildcard_variants"""
    kind, rv, targets = F.switch_info(fn, sw)
    names = {dv: n for dv, n in rv.get("variants", [])}
    out = {}
    listed = []
    for lab, b in targets.items():
        if lab == "otherwise":
            continue
        vn = names.get(lab)
        listed.append(vn)
        out[vn] = (b, region(fn, sw, b))
    rest = [n for n in names.values() if n not in listed]
    other = targets["otherwise"]
    wildcard = fn.blocks[other]["term"]["k"] != "unreachable"
    if wildcard and len(rest) == 1:
        out[rest[0]] = (other, region(fn, sw, other))
        return out, False, []
    return out, wildcard and bool(rest), rest if wildcard else []


def region(fn, sw, tgt):
    if not F.edge_target_unique(fn, sw, tgt):
        # shared target (or-patterns): blocks dominated by tgt still form the arm body
        pass
    return set(b for b in fn.reach if fn.dominates(tgt, b))


def region_calls(fn, reg):
    return [c for c in fn.calls if c.bb in reg]


def region_call_names(fn, reg):
    return [short(c.name) for c in fn.calls if c.bb in reg]


def region_stmts(fn, reg):
    return [(i, s) for i, s in fn.stmts() if i in reg]
