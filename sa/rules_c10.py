"""C10 — follow mode delivers every completed line exactly once, in order.

The schedule quantifier is not enumerated.  What is decided is the mechanism every schedule
relies on: the carry-over buffer(s) of FollowFileIterator::next.  A small abstract interpreter
runs over every acyclic path of one loop iteration with a symbolic content domain
(sequences over C_f = content of carry field f at iteration start, N_i = bytes appended by the
i-th read of this iteration) and checks content conservation:

  * retry path   : what the next iteration would deliver = everything pending + everything read, once, in order
  * deliver path : delivered = pending + read (minus exactly one trailing newline, proven present), carries empty
  * end of iteration by None only on a read error

so that refactorings of the buffering (second buffer, clear+append, take/replace) are judged by what
they do to the bytes, not by their shape."""
import re
from .prog import short, place_fields
from . import flow as F
from . import pathrules as PR
from . import rules_exec_loops as L

NEXT = "<sqlgrep::helpers::FollowFileIterator as core::iter::traits::iterator::Iterator>::next"
READ = re.compile(r"^std::io::BufRead::(read_until|read_line)$")
STRINGY = re.compile(r"^(&(mut )?)*(alloc::string::String|alloc::vec::Vec<u8>|str|\[u8\])$")
ALIAS_CALLS = re.compile(r"^<.* as core::ops::deref::Deref(Mut)?>::deref(_mut)?$|^alloc::string::String::(as_str|as_bytes|as_mut_str)$|"
                         r"^alloc::vec::Vec::(as_slice|as_mut_slice)$|^core::str::<impl str>::as_bytes$|"
                         r"^<.* as core::convert::AsRef<.*>>::as_ref$|^<.* as core::borrow::Borrow<.*>>::borrow$")
COPY_CALLS = re.compile(r"^<.* as core::clone::Clone>::clone$|^alloc::str::<impl alloc::borrow::ToOwned for str>::to_owned$|"
                        r"^alloc::slice::<impl \[T\]>::to_vec$|^<.* as alloc::string::ToString>::to_string$|"
                        r"^alloc::string::String::(from_utf8_lossy|from_utf8|from_utf8_unchecked|into_bytes)$|"
                        r"^alloc::borrow::Cow::into_owned$|^<.* as core::convert::(From|Into)<.*>>::(from|into)$|"
                        r"^core::result::Result::(unwrap|unwrap_or_default|expect)$|^alloc::slice::<impl alloc::borrow::ToOwned for \[T\]>::to_owned$|"
                        r"^core::str::converts::from_utf8$|^<.* as alloc::borrow::ToOwned>::to_owned$|"
                        r"^alloc::string::FromUtf8Error::(as_bytes|into_bytes)$")
APPEND_CALLS = re.compile(r"^alloc::string::String::push_str$|^alloc::vec::Vec::(extend_from_slice|append)$|"
                          r"^<alloc::(string::String|vec::Vec<.*>) as core::iter::traits::collect::Extend<.*>>::extend$|"
                          r"^<alloc::string::String as core::ops::arith::AddAssign<&str>>::add_assign$")
CLEAR_CALLS = re.compile(r"^alloc::(string::String|vec::Vec)::clear$")
NEW_CALLS = re.compile(r"^alloc::(string::String|vec::Vec)::(new|with_capacity)$|^<alloc::(string::String|vec::Vec<.*>) as core::default::Default>::default$")
POP_CALLS = re.compile(r"^alloc::(string::String|vec::Vec)::pop$")
ENDS_WITH = re.compile(r"^core::str::<impl str>::ends_with$|^core::slice::<impl \[T\]>::ends_with$|^core::slice::<impl \[T\]>::last$")
TOP = ("TOP",)


class Violation(Exception):
    def __init__(self, key, msg, bb):
        self.key, self.msg, self.bb = key, msg, bb


class State:
    def __init__(self):
        self.store = {}      # storage key -> list of atoms | TOP
        self.alias = {}      # local -> storage key
        self.nl = {}         # tuple(content) -> bool (known "ends with newline")
        self.boolinfo = {}   # local -> ("nl", content tuple, positive)
        self.reads = 0
        self.popped = {}     # storage key -> count
        self.read_results = {}  # local -> read index
        self.empty_reads = set()
        self.selfs = set()      # locals that alias `self` (after inlining a helper method the callee's self is a fresh local)
        self.lastres = {}       # local holding the Option<&u8> returned by slice::last -> content tuple
        self.splitres = {}      # local holding the result of split_last (Option / its (&u8, &[u8]) payload) -> (content list, level)
        self.lastbyte = {}      # local holding the last byte of a buffer (by value) -> content tuple
        self.consts = {}        # bool local -> constant it was last assigned on this path

    def clone(self):
        s = State()
        s.store = {k: (v if v is TOP else list(v)) for k, v in self.store.items()}
        s.alias = dict(self.alias)
        s.nl = dict(self.nl)
        s.boolinfo = dict(self.boolinfo)
        s.reads = self.reads
        s.popped = dict(self.popped)
        s.read_results = dict(self.read_results)
        s.read_refs = dict(getattr(self, "read_refs", {}))
        s.empty_reads = set(self.empty_reads)
        s.selfs = set(self.selfs)
        s.lastres = dict(self.lastres)
        s.splitres = dict(self.splitres)
        s.lastbyte = dict(self.lastbyte)
        s.consts = dict(self.consts)
        return s


def _skey(fn, pl, st):
    """storage key of a place: ('self', field) for fields of self, ('l', n) for locals (through aliases)"""
    l = pl["l"]
    flds = place_fields(pl)
    if (l == 1 or l in st.selfs) and flds:
        return ("self", flds[0])
    if l in st.alias and not flds:
        return st.alias[l]
    if not flds:
        return ("l", l)
    if flds == ["0"] and any(isinstance(e, dict) and e.get("d") in ("Ok", "Err", "Some") for e in pl["p"]):
        # the payload of a wrapper around the content: `match String::from_utf8(bytes) { Ok(text) => .., Err(e) => e.as_bytes() .. }`
        return st.alias.get(l, ("l", l))
    return None


def run(R):
    P = R.prog
    f = PR.view(P, R.need_fn(NEXT), keep=r"^std::|^core::|^alloc::")
    R.rule("C10.conserve", "abstract interpretation of one iteration of FollowFileIterator::next over all acyclic paths: on retry the carry "
                           "buffers keep pending + newly read bytes once and in order; on delivery the value is pending + read with exactly "
                           "one (proven) trailing newline removed and the carries are left empty; None only on a read error")
    R.rule("C10.bytes", "the accumulating read on a growing file is byte-level (read_until), not the UTF-8 validating read_line that loses the "
                        "bytes of an append ending inside a multi-byte character")
    R.rule("C10.seek", "--head seeks to Start(0), otherwise End(0), on the reader that is handed to the iterator")
    R.rule("C10.feed", "FollowFileExecutor::execute passes each delivered line, moved and unmodified, to ExecutionEngine::execute once")
    try:
        res = _interpret(R, f)
        for key, how, loc in res:
            R.ok("C10.conserve", key, how, loc)
    except Violation as v:
        R.violation("C10.conserve", v.key, "FollowFileIterator::next: " + v.msg, [f.loc(v.bb)])
    # every iteration polls the file: the read is not skipped on the strength of the iterator's own bookkeeping
    R.rule("C10.poll", "every iteration of the follow loop attempts a read: no path from the loop header back to it (or to a delivery) bypasses "
                       "the read call (a read gated on tracked positions / metadata can withhold completed lines)")
    rds = [c for c in f.calls if READ.search(short(c.name))]
    if rds:
        lp0 = PR.loop_of(f, rds[0].bb)
        if lp0:
            hdr0 = lp0[0]
            # paths from the header that return to the header or leave the function without passing a read
            starts = f.succs(hdr0) if hdr0 not in [c.bb for c in rds] else []
            bypass = False
            if hdr0 not in [c.bb for c in rds]:
                reach0 = set()
                for s0 in f.succs(hdr0):
                    reach0 |= f.reachable_from(s0, avoid={c.bb for c in rds})
                if hdr0 in reach0 or any(e in reach0 for e in f.exits()):
                    bypass = True
            if bypass:
                R.violation("C10.poll", "next|read-bypassed",
                            "FollowFileIterator::next can complete an iteration without calling the read: whether new data is looked at depends on "
                            "the iterator's own bookkeeping, so a completed line can be withheld", [rds[0].loc()])
            else:
                R.ok("C10.poll", "next", "the read call lies on every path through the loop", rds[0].loc())
    # byte-level read
    reads = [c for c in f.calls if READ.search(short(c.name))]
    for c in reads:
        if short(c.name).endswith("read_line"):
            R.violation("C10.bytes", "next|read_line",
                        "the carry-over read uses BufRead::read_line: when an append ends inside a multi-byte character it returns Err after "
                        "consuming the bytes, which ends the follow (or loses the bytes)", [c.loc()])
        else:
            R.ok("C10.bytes", "next|read_until", "byte-level accumulating read", c.loc())
    if not reads:
        other = sorted(set(short(c.name).split("::")[-1] for c in f.calls if re.search(r"^std::io::(BufRead|Read)::", short(c.name))))
        R.violation("C10.bytes", "next|unmodelled-read-api", "FollowFileIterator::next reads through %s, which the content model does not cover "
                                                             "(only read_until / read_line are modelled): delivery of every completed line exactly "
                                                             "once cannot be established for this implementation" % (other or "no std::io read call"),
                    [f.loc()])
    _check_seek(R)
    _check_feed(R)
    R.assume("BufReader::read_until appends what it got and returns Ok(n) at EOF (std); the writer/reader interleavings themselves are not enumerated")


def _interpret(R, f):
    loops = f.loops()
    reads = [c for c in f.calls if READ.search(short(c.name))]
    if not reads:
        raise Violation("next|unmodelled-read-api", "no read_until / read_line call: the buffer handling of this implementation (e.g. fill_buf/consume "
                        "slices) is outside the content model, so conservation of the appended bytes cannot be established", 0)
    lp = PR.loop_of(f, reads[0].bb)
    if lp is None:
        raise Violation("next|no-loop", "the read is not inside a retry loop", reads[0].bb)
    header, body = lp
    # carry fields: String / Vec<u8> fields of self
    adt = R.prog.adts.get("sqlgrep::helpers::FollowFileIterator")
    carries = []
    if adt:
        for fl in adt["variants"][0]["fields"]:
            if STRINGY.search(fl["ty"]):
                carries.append(fl["name"])
            else:
                # a private newtype around the buffer (`struct PendingLine(Vec<u8>)`): its methods are inlined, the bytes live in field 0
                a2 = R.prog.adts.get(fl["ty"])
                if a2 and len(a2["variants"]) == 1 and len(a2["variants"][0]["fields"]) == 1 and STRINGY.search(a2["variants"][0]["fields"][0]["ty"]):
                    carries.append(fl["name"])
    if not carries:
        raise Violation("next|no-carry", "FollowFileIterator has no String/Vec<u8> carry-over field: a partial line cannot survive a retry", header)
    init = State()
    for c in carries:
        init.store[("self", c)] = [("C", c)]
    # borrows taken once before the loop (`let Self { reader, line } = self;`, `let buf = &mut self.line;`) name the same storage inside it
    for b in sorted(x for x in f.reach if x != header and x not in body and f.dominates(x, header)):
        for s_ in f.blocks[b]["stmts"]:
            if s_["k"] == "assign" and not s_["pl"]["p"] and (s_["rv"]["k"] in ("ref", "copy_for_deref", "rawptr") or
                                                              (s_["rv"]["k"] == "use" and s_["rv"]["op"].get("k") in ("copy", "move") and
                                                               f.local_ty(s_["pl"]["l"]).startswith("&"))):
                _stmt(f, init, s_, b)
    outcomes = []   # (kind, state, value, bb)
    _walk(f, header, init, set(), outcomes, header, body, depth=0)
    delivers = [o for o in outcomes if o[0] == "some"]
    retries = [o for o in outcomes if o[0] == "retry"]
    nones = [o for o in outcomes if o[0] == "none"]
    if not delivers:
        raise Violation("next|never-delivers", "no path delivers a line", header)
    if not retries:
        raise Violation("next|no-retry", "no path retries after a partial read", header)
    # delivery template
    D = None
    for kind, st, val, bb in delivers:
        if val is TOP or val is None:
            raise Violation("next|deliver-unknown", "the delivered value is not derived from the carry buffers by content-preserving operations", bb)
        content = [a for a in val if a[0] in ("C", "N")]
        marks = [a for a in val if a[0] == "-nl"]
        ns = [a for a in content if a[0] == "N"]
        if [a[1] for a in ns] != [i for i in range(1, st.reads + 1) if i not in st.empty_reads]:
            raise Violation("next|deliver-missing-read", "a delivered line does not contain every chunk read in this iteration exactly once, in order "
                                                         "(delivered: %s)" % _fmt(val), bb)
        cs = [a for a in content if a[0] == "C"]
        if len(set(cs)) != len(cs):
            raise Violation("next|deliver-duplicate", "pending content is delivered twice (%s)" % _fmt(val), bb)
        if content and content[-1][0] != "N":
            raise Violation("next|deliver-order", "pending content follows the newly read bytes in the delivered line (%s)" % _fmt(val), bb)
        if cs and content.index(cs[0]) != 0:
            raise Violation("next|deliver-order", "the delivered line does not start with the pending content (%s)" % _fmt(val), bb)
        if len(marks) != 1:
            raise Violation("next|newline-count", "%d trailing bytes are removed from a delivered line (exactly the newline must be)" % len(marks), bb)
        # newline proven on a suffix ending with the last atom
        proven = any(ok and len(k) > 0 and tuple(content[-len(k):]) == k for k, ok in st.nl.items())
        if not proven:
            raise Violation("next|deliver-unterminated", "a value is delivered (and its last byte removed) without a dominating test that it ends "
                                                         "with '\\n': an unterminated tail can be delivered", bb)
        tmpl = tuple(content)
        if D is None:
            D = tmpl
        elif D != tmpl:
            raise Violation("next|deliver-inconsistent", "different paths deliver differently composed lines (%s vs %s)" % (_fmt(D), _fmt(tmpl)), bb)
    live = [a[1] for a in D if a[0] == "C"]
    if not live:
        raise Violation("next|pending-dropped", "the delivered line never contains the pending partial line: content read before a retry is lost "
                                                "(delivered: %s)" % _fmt(D), delivers[0][3])

    def next_delivery(st):
        out = []
        for a in D:
            if a[0] == "C":
                v = st.store.get(("self", a[1]), [])
                if v is TOP:
                    return TOP
                out.extend(x for x in v if x[0] in ("C", "N"))
        return out

    for kind, st, val, bb in retries:
        nd = next_delivery(st)
        want = [a for a in D if a[0] == "C"] + [("N", i) for i in range(1, st.reads + 1) if i not in st.empty_reads]
        if nd is TOP:
            raise Violation("next|retry-unknown", "on the retry path a carry buffer is modified by an operation the analysis cannot follow", bb)
        if nd != want:
            raise Violation("next|retry-loses-content",
                            "after a partial read the carry buffers hold %s but must hold %s: the partial line is %s"
                            % (_fmt(nd), _fmt(want), "truncated/overwritten" if len(nd) < len(want) else "duplicated or reordered"), bb)
        if st.reads and any(ok for k, ok in st.nl.items() if ok and k and k[-1] == ("N", st.reads)):
            raise Violation("next|retry-complete-line", "a complete (newline-terminated) line is not delivered but retried", bb)
    for kind, st, val, bb in delivers:
        nd = next_delivery(st)
        if nd is TOP or nd:
            raise Violation("next|deliver-leftover", "after a delivery the carry buffers still hold %s: it would be delivered again / merged into "
                                                     "the next line" % _fmt(nd), bb)
    for kind, st, val, bb in nones:
        if val != "read-error":
            raise Violation("next|ends-silently", "the iterator returns None on a path that is not a read error: the follow ends", bb)
    return [("next|deliver", "delivered = %s minus one proven newline; carries empty afterwards (%d paths)" % (_fmt(D), len(delivers)), f.loc(delivers[0][3])),
            ("next|retry", "retry keeps %s (%d paths)" % (_fmt([a for a in D if a[0] == 'C'] + [('N', 1)]), len(retries)), f.loc(retries[0][3])),
            ("next|none", "None only on read error (%d paths)" % len(nones), f.loc(header))]


def _fmt(v):
    if v is TOP:
        return "<unknown>"
    return "[" + " ++ ".join("%s%s" % ("pending(%s)" % a[1] if a[0] == "C" else ("read#%s" % a[1] if a[0] == "N" else a[0]), "") for a in v) + "]"


def _val_of(f, st, op):
    """abstract content of an operand (by value or by reference)"""
    if op["k"] == "const":
        return []
    pl = op["pl"]
    k = _skey(f, pl, st)
    if k is None:
        return TOP
    return st.store.get(k, TOP if k[0] == "self" else None)


def _walk(f, bb, st, onpath, outcomes, header, body, depth):
    if depth > 400:
        raise Violation("next|too-complex", "path enumeration exceeded its bound", bb)
    first = True
    while True:
        if bb == header and not first:
            outcomes.append(("retry", st, None, bb))
            return
        if bb in onpath and bb != header:
            # inner loop: not modelled
            raise Violation("next|inner-loop", "nested loop inside the iteration is not modelled by the analysis", bb)
        first = False
        onpath = onpath | {bb}
        b = f.blocks[bb]
        for s in b["stmts"]:
            _stmt(f, st, s, bb)
        t = b["term"]
        k = t["k"]
        if k == "return":
            # returned value is _0
            v = st.store.get(("l", 0))
            kind = st.store.get(("ret",))
            outcomes.append((kind[0] if kind else "unknown", st, kind[1] if kind else None, bb))
            return
        if k == "goto" or k == "drop" or k == "assert":
            bb = t["target"]
            continue
        if k == "call":
            _call(f, st, t, bb)
            if t["target"] is None:
                return
            bb = t["target"]
            continue
        if k == "switch":
            d = t["discr"]
            dl = d["pl"]["l"] if d["k"] in ("copy", "move") else None
            targets = [(v, b2) for v, b2 in t["targets"]] + [("otherwise", t["otherwise"])]
            info = st.boolinfo.get(dl)
            # `Ok(0)` arm of the read result: this read appended nothing
            zero_read = None
            if d["k"] in ("copy", "move") and d["pl"]["l"] in st.read_results and d["pl"]["p"]:
                zero_read = st.read_results[d["pl"]["l"]]
            last_key = None
            last_mode = None
            if d["k"] in ("copy", "move") and d["pl"]["l"] in st.lastres and d["pl"]["p"] and d.get("ty") == "u8":
                last_key, last_mode = st.lastres[d["pl"]["l"]], "byte"
            elif d["k"] in ("copy", "move") and d.get("ty") == "u8" and not d["pl"]["p"] and d["pl"]["l"] in st.lastbyte:
                last_key, last_mode = st.lastbyte[d["pl"]["l"]], "byte"
            elif d["k"] in ("copy", "move") and d.get("ty") == "u8" and d["pl"]["l"] in st.splitres and \
                    [e["f"] for e in d["pl"]["p"] if isinstance(e, dict) and "f" in e] == [0, 0][st.splitres[d["pl"]["l"]][1]:]:
                last_key, last_mode = tuple(a for a in st.splitres[d["pl"]["l"]][0] if a[0] in ("C", "N")), "byte"
            elif info and info[0] == "discr" and info[1] in st.splitres and st.splitres[info[1]][1] == 0:
                st.lastres[info[1]] = tuple(a for a in st.splitres[info[1]][0] if a[0] in ("C", "N"))
                last_key, last_mode = st.lastres[info[1]], "discr"
            elif info and info[0] == "discr" and info[1] in st.lastres:
                last_key, last_mode = st.lastres[info[1]], "discr"
            known = st.consts.get(dl) if (dl is not None and not d["pl"]["p"] and d.get("ty") == "bool") else None
            for (v, b2) in targets:
                if f.blocks[b2]["term"]["k"] == "unreachable" and not f.blocks[b2]["stmts"]:
                    continue
                if known is not None and ((v == "0") == known):
                    continue   # the flag is a known constant on this path: only the matching edge is feasible
                s2 = st.clone()
                if last_mode == "byte":
                    truth = (v == "10")
                    if last_key in s2.nl and s2.nl[last_key] != truth:
                        continue
                    s2.nl[last_key] = truth
                elif last_mode == "discr":
                    names_ = info[2] if isinstance(info[2], dict) else {}
                    is_none = (names_.get(v) == "None") or (v == "0" and not names_)
                    if v == "otherwise":
                        listed = [names_.get(x) for x, _ in t["targets"]]
                        is_none = "Some" in listed and "None" not in listed
                    if is_none:
                        if last_key in s2.nl and s2.nl[last_key] is True:
                            continue
                        s2.nl[last_key] = False
                if info and info[0] == "nl":
                    truth = (v != "0") if info[2] else (v == "0")
                    key = info[1]
                    if key in s2.nl and s2.nl[key] != truth:
                        continue  # infeasible: contradicts a dominating test of the same content
                    s2.nl[key] = truth
                if zero_read is not None and v == "0":
                    s2.empty_reads.add(zero_read)
                    for kk, vv in list(s2.store.items()):
                        if isinstance(vv, list):
                            s2.store[kk] = [a for a in vv if a != ("N", zero_read)]
                if info and info[0] == "readres":
                    s2.store[("readvariant", info[1])] = [v]
                if info and info[0] == "readerr":
                    is_err_edge = (v != "0") if info[2] else (v == "0")
                    s2.store[("readvariant", info[1])] = ["1" if is_err_edge else "0"]
                if info and info[0] == "discr":
                    s2.store[("variant", info[1])] = [(v, info[2])]
                _walk(f, b2, s2, onpath, outcomes, header, body, depth + 1)
            return
        if k == "unreachable":
            return
        raise Violation("next|terminator", "unmodelled terminator %s" % k, bb)


def _stmt(f, st, s, bb):
    if s["k"] != "assign":
        return
    pl, rv = s["pl"], s["rv"]
    k = rv["k"]
    dst_local = pl["l"] if not pl["p"] else None
    if k in ("ref", "copy_for_deref", "rawptr") and dst_local is not None and not place_fields(rv["pl"]) and \
            (rv["pl"]["l"] == 1 or rv["pl"]["l"] in st.selfs):
        st.selfs.add(dst_local)
        return
    if k in ("ref", "copy_for_deref") and dst_local is not None and not rv["pl"]["p"] and rv["pl"]["l"] in st.read_results:
        st.read_refs = dict(getattr(st, "read_refs", {}))
        st.read_refs[dst_local] = st.read_results[rv["pl"]["l"]]      # `&read_result` handed to is_err / is_ok
        return
    if k in ("ref", "copy_for_deref") and dst_local is not None and not rv["pl"]["p"] and rv["pl"]["l"] in st.lastres:
        st.lastres[dst_local] = st.lastres[rv["pl"]["l"]]      # `&line.last()` handed to a comparison
        return
    if k in ("ref", "copy_for_deref", "rawptr"):
        key = _skey(f, rv["pl"], st)
        if dst_local is not None and key is not None:
            st.alias[dst_local] = key
        return
    if k == "use" and rv["op"].get("k") in ("copy", "move") and rv["op"]["pl"]["l"] in st.splitres and dst_local is not None:
        v_, lvl = st.splitres[rv["op"]["pl"]["l"]]
        path = [e["f"] for e in rv["op"]["pl"]["p"] if isinstance(e, dict) and "f" in e]
        rest = [0, None][lvl:]          # fields still to go to reach the tuple
        if lvl == 0 and path == [0]:
            st.splitres[dst_local] = (v_, 1)
            return
        tail = path[1:] if lvl == 0 and path[:1] == [0] else (path if lvl == 1 else None)
        if tail == [0]:
            if rv["op"].get("ty") == "u8":
                st.lastbyte[dst_local] = tuple(a for a in v_ if a[0] in ("C", "N"))
            else:
                st.splitres[dst_local] = (v_, 2)       # the &u8 itself
            return
        if tail == [1]:
            st.store[("l", dst_local)] = list(v_) + [("-nl",)]     # the buffer without its last byte
            st.alias.pop(dst_local, None)
            return
        if not path:
            st.splitres[dst_local] = (v_, lvl)
            return
    if k == "use" and rv["op"].get("k") in ("copy", "move") and rv["op"]["pl"]["l"] in st.splitres and st.splitres[rv["op"]["pl"]["l"]][1] == 2 \
            and dst_local is not None and rv["op"].get("ty") == "u8":
        st.lastbyte[dst_local] = tuple(a for a in st.splitres[rv["op"]["pl"]["l"]][0] if a[0] in ("C", "N"))
        return
    if k == "use" or (k == "cast" and rv["ck"].startswith("PointerCoercion")):
        op = rv["op"]
        if op["k"] in ("copy", "move") and dst_local is not None and not op["pl"]["p"] and (op["pl"]["l"] == 1 or op["pl"]["l"] in st.selfs) \
                and "FollowFileIterator" in op.get("ty", ""):
            st.selfs.add(dst_local)
            return
        if op["k"] in ("copy", "move") and dst_local is not None and op["pl"]["l"] in st.lastres and \
                all(isinstance(e, dict) for e in op["pl"]["p"]):
            st.lastres[dst_local] = st.lastres[op["pl"]["l"]]
            return
        if dst_local is not None:
            if op["k"] == "const" and op.get("v") in ("true", "false"):
                st.consts[dst_local] = op["v"] == "true"
            elif op["k"] in ("copy", "move") and not op["pl"]["p"] and op["pl"]["l"] in st.consts:
                st.consts[dst_local] = st.consts[op["pl"]["l"]]
            else:
                st.consts.pop(dst_local, None)
        if op["k"] in ("copy", "move"):
            src = _skey(f, op["pl"], st)
            if dst_local is not None:
                if op.get("ty", "").startswith("&") and src is not None:
                    st.alias[dst_local] = src
                    return
                if src is not None and src in st.store:
                    st.store[("l", dst_local)] = st.store[src] if st.store[src] is TOP else list(st.store[src])
                    if op["k"] == "move" and src[0] == "l":
                        pass
                    return
                if op["pl"]["l"] in st.boolinfo and not op["pl"]["p"]:
                    st.boolinfo[dst_local] = st.boolinfo[op["pl"]["l"]]
                    return
            else:
                dk = _skey(f, pl, st)
                if dk is not None and STRINGY.search(op.get("ty", "")):
                    v = _val_of(f, st, op)
                    st.store[dk] = TOP if v is TOP or v is None else list(v)
                    return
        elif op["k"] == "const":
            dk = _skey(f, pl, st)
            if dk is not None and dk in st.store:
                st.store[dk] = []
        return
    if k == "unop" and rv["op"] == "Not" and dst_local is not None and rv["o"]["k"] in ("copy", "move") and \
            not rv["o"]["pl"]["p"] and rv["o"]["pl"]["l"] in st.consts:
        st.consts[dst_local] = not st.consts[rv["o"]["pl"]["l"]]
        return
    if k == "unop" and rv["op"] == "Not":
        o = rv["o"]
        if o["k"] in ("copy", "move") and o["pl"]["l"] in st.boolinfo and dst_local is not None:
            i = st.boolinfo[o["pl"]["l"]]
            st.boolinfo[dst_local] = (i[0], i[1], not i[2])
        return
    if k == "discr":
        src = rv["pl"]
        if dst_local is not None and not src["p"]:
            if src["l"] in st.read_results:
                st.boolinfo[dst_local] = ("readres", st.read_results[src["l"]], True)
            else:
                st.boolinfo[dst_local] = ("discr", src["l"], {dv: n for dv, n in rv.get("variants", [])})
        return
    if k == "aggr" and rv.get("ak") == "adt" and dst_local == 0:
        # the return value
        var = rv.get("variant")
        if var == "None":
            # read error?
            is_err = any(v and v[0] != "0" and False for v in [])
            err = False
            for key_, val in st.store.items():
                if key_[0] == "readvariant":
                    # the read result's discriminant: 1 = Err (Result), otherwise via label
                    if val and val[0] in ("1",):
                        err = True
            st.store[("ret",)] = ("none", "read-error" if err else "no-error")
        elif var == "Some":
            v = _val_of(f, st, rv["ops"][0]) if rv["ops"] else TOP
            st.store[("ret",)] = ("some", v)
        return
    if k == "aggr" and dst_local is not None:
        # e.g. Option<String> temporaries: treat Some(x) wrapper transparent
        if rv.get("variant") == "Some" and rv["ops"]:
            v = _val_of(f, st, rv["ops"][0])
            if v is not None:
                st.store[("l", dst_local)] = v
        return


def _is_some_newline(f, op, depth=4):
    """the operand is (a reference to) the promoted constant `Some(&b'\n')`"""
    if depth == 0 or op["k"] not in ("copy", "move"):
        return False
    for i, s_ in f.stmts():
        if s_["k"] != "assign" or s_["pl"]["l"] != op["pl"]["l"] or s_["pl"]["p"]:
            continue
        rv = s_["rv"]
        if rv["k"] in ("ref", "copy_for_deref"):
            return _is_some_newline(f, {"k": "copy", "pl": {"l": rv["pl"]["l"], "p": []}}, depth - 1)
        if rv["k"] == "use" and rv["op"]["k"] == "const" and "promoted" in rv["op"] and rv["op"]["promoted"] < len(f.promoted):
            body = f.promoted[rv["op"]["promoted"]]
            some = [ps for pb in body["blocks"] for ps in pb["stmts"] if ps["k"] == "assign" and ps["rv"]["k"] == "aggr" and ps["rv"].get("variant") == "Some"]
            tens = [ps for pb in body["blocks"] for ps in pb["stmts"] if ps["k"] == "assign" and ps["rv"]["k"] == "use" and
                    ps["rv"]["op"]["k"] == "const" and ps["rv"]["op"].get("ty") == "u8" and ps["rv"]["op"].get("int") == 10]
            consts = [ps for pb in body["blocks"] for ps in pb["stmts"] if ps["k"] == "assign" and ps["rv"]["k"] == "use" and ps["rv"]["op"]["k"] == "const"]
            return len(some) == 1 and len(tens) == 1 and len(consts) == 1
        if rv["k"] == "use" and rv["op"]["k"] in ("copy", "move"):
            return _is_some_newline(f, rv["op"], depth - 1)
    return False


def _is_len_minus_one(f, st, op, key):
    """the operand is `buf.len() - 1` for the buffer stored under `key`"""
    if op.get("k") not in ("copy", "move"):
        return False
    for o in F.origins(f, op, depth=8, through_calls=False):
        if o.kind == "binop" and o.extra in ("Sub", "SubWithOverflow", "SubUnchecked"):
            l_, r_ = o.place["l"], o.place["r"]
            if r_.get("k") == "const" and r_.get("int") == 1 and l_.get("k") in ("copy", "move"):
                for o2 in F.origins(f, l_, depth=6, through_calls=False):
                    if o2.kind == "call" and re.search(r"^alloc::(vec::Vec|string::String)::len$|slice::<impl \[T\]>::len$", short(o2.call.name)) and \
                            o2.call.args and o2.call.args[0].get("k") in ("copy", "move") and _skey(f, o2.call.args[0]["pl"], st) == key:
                        return True
                    # the length read earlier into a local on this path
        if o.kind == "call" and re.search(r"usize>::(saturating_sub|wrapping_sub|checked_sub)$", short(o.call.name)):
            pass
    return False


def _call(f, st, t, bb):
    fn = t["func"]
    name = short(fn.get("res_path") or fn.get("path") or "?")
    args = t["args"]
    dest = t["dest"]
    dl = dest["l"] if not dest["p"] else None

    def akey(i):
        if i >= len(args) or args[i]["k"] == "const":
            return None
        return _skey(f, args[i]["pl"], st)

    if READ.search(name):
        buf = akey(2) if name.endswith("read_until") else akey(1)
        if buf is None:
            raise Violation("next|read-target", "the read does not append to a tracked buffer", bb)
        st.reads += 1
        cur = st.store.get(buf, [])
        st.store[buf] = TOP if cur is TOP else list(cur) + [("N", st.reads)]
        if dl is not None:
            st.read_results[dl] = st.reads
        return
    if ALIAS_CALLS.search(name):
        k = akey(0)
        if dl is not None and k is not None:
            st.alias[dl] = k
        return
    if name in ("core::result::Result::is_err", "core::result::Result::is_ok") and dl is not None and args and args[0]["k"] in ("copy", "move"):
        rr = getattr(st, "read_refs", {}).get(args[0]["pl"]["l"])
        if rr is not None and not args[0]["pl"]["p"]:
            st.boolinfo[dl] = ("readerr", rr, name.endswith("is_err"))
        return
    if name in ("<core::option::Option<T> as core::cmp::PartialEq>::eq", "<core::option::Option<T> as core::cmp::PartialEq>::ne") and \
            len(args) == 2 and dl is not None:
        # `line.last() == Some(&b'\n')`: the same newline test as ends_with
        sides = [a for a in args if a["k"] in ("copy", "move")]
        lasts = [a for a in sides if not a["pl"]["p"] and a["pl"]["l"] in st.lastres]
        others = [a for a in sides if a not in lasts]
        if len(lasts) == 1 and len(others) == 1 and _is_some_newline(f, others[0]):
            st.boolinfo[dl] = ("nl", st.lastres[lasts[0]["pl"]["l"]], name.endswith("::eq"))
        return
    if name == "core::slice::<impl [T]>::split_last":
        # Option<(&u8, &[u8])>: the last byte and the buffer without it
        k = akey(0)
        if k is not None and dl is not None:
            v = st.store.get(k)
            if v is not None and v is not TOP:
                st.splitres[dl] = (list(v), 0)
        return
    if name == "core::slice::<impl [T]>::last":
        k = akey(0)
        if k is not None and dl is not None:
            v = st.store.get(k)
            if v is not None and v is not TOP:
                st.lastres[dl] = tuple(a for a in v if a[0] in ("C", "N"))
        return
    if ENDS_WITH.search(name):
        k = akey(0)
        if k is not None and dl is not None:
            v = st.store.get(k)
            if v is not None and v is not TOP:
                content = tuple(a for a in v if a[0] in ("C", "N"))
                needle = args[1] if len(args) > 1 else None
                is_nl = needle is None or (needle["k"] == "const" and (needle.get("int") == 10 or "\\n" in needle.get("v", ""))) or \
                    (needle["k"] != "const")
                if is_nl:
                    st.boolinfo[dl] = ("nl", content, True)
        return
    if CLEAR_CALLS.search(name):
        k = akey(0)
        if k is not None:
            st.store[k] = []
        return
    if name.endswith("::truncate"):
        k = akey(0)
        if k is not None:
            if len(args) > 1 and args[1].get("int") == 0:
                st.store[k] = []
            elif len(args) > 1 and _is_len_minus_one(f, st, args[1], k):
                # truncate(len - 1) removes exactly the last byte: the same obligation as pop()
                v = st.store.get(k, [])
                if v is not TOP:
                    content = tuple(a for a in v if a[0] in ("C", "N"))
                    proven = any(ok and len(kk) > 0 and content[-len(kk):] == kk for kk, ok in st.nl.items())
                    if not proven:
                        raise Violation("next|pop-unproven", "a byte is removed from the buffer without a dominating test that it is the newline", bb)
                    st.store[k] = list(v) + [("-nl",)]
            else:
                st.store[k] = TOP
        return
    if NEW_CALLS.search(name):
        if dl is not None:
            st.store[("l", dl)] = []
        elif dest["l"] == 1:
            k = _skey(f, dest, st)
            if k:
                st.store[k] = []
        return
    if name == "core::mem::take":
        k = akey(0)
        if k is not None:
            v = st.store.get(k, TOP)
            if dl is not None:
                st.store[("l", dl)] = v
            else:
                dk = _skey(f, dest, st)
                if dk:
                    st.store[dk] = v
            st.store[k] = []
        return
    if name == "core::mem::replace" or name == "core::mem::swap":
        k = akey(0)
        if k is not None:
            old = st.store.get(k, TOP)
            if name.endswith("replace"):
                nv = _val_of(f, st, args[1])
                st.store[k] = TOP if nv is None else nv
                if dl is not None:
                    st.store[("l", dl)] = old
            else:
                k2 = akey(1)
                if k2 is not None:
                    st.store[k], st.store[k2] = st.store.get(k2, TOP), old
        return
    if COPY_CALLS.search(name):
        v = _val_of(f, st, args[0]) if args else None
        if v is not None:
            if dl is not None:
                st.store[("l", dl)] = v if v is TOP else list(v)
            else:
                dk = _skey(f, dest, st)
                if dk:
                    st.store[dk] = v if v is TOP else list(v)
        return
    if APPEND_CALLS.search(name):
        k = akey(0)
        if k is not None:
            a = st.store.get(k, [])
            b = _val_of(f, st, args[1]) if len(args) > 1 else TOP
            st.store[k] = TOP if (a is TOP or b is TOP or b is None) else list(a) + list(b)
            if name.endswith("Vec::append"):
                k2 = akey(1)
                if k2 is not None:
                    st.store[k2] = []
        return
    if POP_CALLS.search(name):
        k = akey(0)
        if k is not None:
            v = st.store.get(k, [])
            if v is not TOP:
                content = tuple(a for a in v if a[0] in ("C", "N"))
                proven = any(ok and len(kk) > 0 and content[-len(kk):] == kk for kk, ok in st.nl.items())
                if not proven:
                    raise Violation("next|pop-unproven", "a byte is removed from the buffer without a dominating test that it is the newline", bb)
                st.store[k] = list(v) + [("-nl",)]
        return
    if name.endswith("::sleep") or name.startswith("core::time::Duration::") or name.startswith("std::thread::"):
        return
    # unknown call: any tracked buffer passed by &mut becomes unknown; by value returns unknown
    for i, a in enumerate(args):
        if a["k"] in ("copy", "move") and a.get("ty", "").startswith("&mut"):
            k = akey(i)
            if k is not None and k in st.store:
                st.store[k] = TOP
    if fn.get("res_local") or fn.get("local"):
        # a local helper taking &mut self: every carry becomes unknown
        for i, a in enumerate(args):
            if a["k"] in ("copy", "move") and a["pl"]["l"] == 1:
                for kk in list(st.store):
                    if kk[0] == "self":
                        st.store[kk] = TOP


def _check_seek(R):
    f = PR.view(R.prog, R.need_fn("sqlgrep::executor::FollowFileExecutor::new"), keep=L.EXEC_KEEP)
    seeks = PR.calls_matching(f, r"as std::io::Seek>::seek$")
    fa = PR.facts(f)
    if not seeks:
        R.violation("C10.seek", "new|shape", "FollowFileExecutor::new does not position the reader (no seek)", [f.loc()])
        return
    # every SeekFrom value that can reach a seek: which variant/offset, and under which value of the bool `head` parameter it is built
    head_args = [a_ for a_ in range(1, f.arg_count + 1) if f.local_ty(a_) == "bool"]
    built_pos = {}
    for i, st_ in f.stmts():
        if st_["k"] == "assign" and st_["rv"]["k"] == "aggr" and (st_["rv"].get("adt") or "").endswith("SeekFrom"):
            ops = st_["rv"]["ops"]
            kind = (st_["rv"].get("variant"), ops[0].get("int") if ops and ops[0]["k"] == "const" else None)
            hv = None
            for flds, root, val in fa.place_facts(i):
                if root in head_args and not flds:
                    hv = val
            built_pos.setdefault(hv, set()).add(kind)
    if built_pos.get(True) == {("Start", 0)} and built_pos.get(False) == {("End", 0)} and set(built_pos) == {True, False}:
        R.ok("C10.seek", "new", "head -> SeekFrom::Start(0), otherwise SeekFrom::End(0)", seeks[0].loc())
    else:
        R.violation("C10.seek", "new|arms", "FollowFileExecutor::new seeks %s for --head and %s otherwise%s (expected Start(0) / End(0))"
                    % (sorted(built_pos.get(True, [])), sorted(built_pos.get(False, [])),
                       "" if None not in built_pos else ", and %s independently of --head" % sorted(built_pos[None])), [seeks[0].loc()])
    recv = set()
    for c in seeks:
        a = c.args[0]
        for _ in range(4):
            if a["k"] not in ("copy", "move"):
                break
            defs = [s_ for i, s_ in f.stmts() if s_["k"] == "assign" and s_["pl"]["l"] == a["pl"]["l"] and not s_["pl"]["p"]
                    and s_["rv"]["k"] in ("ref", "use")]
            if not defs:
                recv.add(a["pl"]["l"])
                break
            rv = defs[0]["rv"]
            if rv["k"] == "ref":
                recv.add(rv["pl"]["l"])
                break
            a = rv["op"]
    built = [s for i, s in f.stmts() if s["k"] == "assign" and s["rv"]["k"] == "aggr" and s["rv"].get("variant") == "FollowFileExecutor"]
    if len(recv) == 1 and built:
        R.ok("C10.seek", "new|same-reader", "both seeks act on the one reader local", f.loc())
    else:
        R.violation("C10.seek", "new|reader", "the seeks do not act on one reader (%s)" % sorted(recv), [f.loc()])


def _check_feed(R):
    f = L.exec_view(R, L.FOLLOW_EXEC)
    lps = [l for l in L.input_loops(f) if re.search(L.FOLLOW_NEXT, short(l.next.name)) and l.ok]
    ex = PR.calls_matching(f, L.ENGINE_EXEC)
    if len(lps) != 1 or len(ex) != 1:
        R.violation("C10.feed", "execute|shape", "FollowFileExecutor::execute: expected one follow loop with one execute call", [f.loc()])
        return
    lp, e = lps[0], ex[0]
    os_ = F.origins(f, e.args[1], depth=10)
    if not any(o.kind == "call" and o.call is lp.next for o in os_):
        R.violation("C10.feed", "execute|other-line", "the line executed is not the item delivered by the follow iterator", [e.loc()])
        return
    mods = [o for o in os_ if o.kind == "call" and o.call is not lp.next and not F.TRANSPARENT.search(short(o.call.name))]
    if mods:
        R.violation("C10.feed", "execute|modified", "the delivered line is transformed by %s before execution" % short(mods[0].call.name), [e.loc()])
        return
    reach = f.reachable_from(lp.some, avoid={e.bb})
    if lp.header in reach:
        R.violation("C10.feed", "execute|skipped", "a delivered line can return to the loop header without being executed", [e.loc()])
        return
    ad = [c for c in f.calls if L.ADAPTERS.search(short(c.name))]
    if ad:
        R.violation("C10.feed", "execute|adapter", "iterator adapter %s on the follow iterator" % short(ad[0].name), [ad[0].loc()])
        return
    R.ok("C10.feed", "execute", "each delivered item is executed once, moved unmodified", e.loc())
