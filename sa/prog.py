"""Program model over the driver's facts: functions, CFGs (unwind edges removed),
dominators, call graph with closure attribution and class-hierarchy resolution of
trait calls on generic parameters, reachability from root sets."""
import json, os, re
from collections import defaultdict, deque


class Call:
    __slots__ = ("fn", "bb", "term", "func", "args", "dest", "target")

    def __init__(self, fn, bb, term):
        self.fn = fn
        self.bb = bb
        self.term = term
        self.func = term["func"]
        self.args = term["args"]
        self.dest = term.get("dest")
        self.target = term.get("target")

    @property
    def name(self):
        """resolved callee path if resolution succeeded, else the declared path"""
        f = self.func
        return f.get("res_path") or f.get("path") or "<indirect>"

    @property
    def decl(self):
        return self.func.get("path") or "<indirect>"

    @property
    def targs(self):
        return self.func.get("targs") or []

    @property
    def line(self):
        return self.term["span"]["line"]

    @property
    def file(self):
        return self.term["span"]["file"]

    @property
    def exp(self):
        return self.term["span"].get("exp", False)

    @property
    def macros(self):
        return self.term["span"].get("macros", [])

    def loc(self):
        return "%s:%d" % (self.file, self.line)

    def __repr__(self):
        return "Call(%s @%s bb%d)" % (self.name, self.loc(), self.bb)


def short(path):
    """strip turbofish generic argument lists: a::B::<T>::c -> a::B::c"""
    s = path
    out = []
    i = 0
    n = len(s)
    while i < n:
        if s.startswith("::<", i) and not s.startswith("::<impl ", i):
            j = i + 2
            d = 0
            while j < n:
                if s[j] == "<":
                    d += 1
                elif s[j] == ">" and s[j - 1] != "-":
                    d -= 1
                    if d == 0:
                        break
                j += 1
            i = j + 1
            continue
        out.append(s[i])
        i += 1
    return "".join(out)


class Fn:
    def __init__(self, raw, target, prog):
        self.raw = raw
        self.prog = prog
        self.target = target  # lib / bin
        self.key = ("bin/" if target == "bin" else "") + raw["key"]
        self.path = raw["path"]
        self.spath = short(self.path)
        self.kind = raw["kind"]
        self.file = raw["span"]["file"]
        self.line = raw["span"]["line"]
        self.line_hi = raw["body_span"]["line_hi"]
        self.parent_key = ("bin/" if target == "bin" else "") + raw["parent"]
        self.derived = raw["derived"]
        self.impl_trait = raw["impl_trait"]
        self.impl_self = raw["impl_self"]
        self.vis = raw["vis"]
        body = raw["body"]
        self.body = body
        self.blocks = body["blocks"]
        self.locals = body["locals"]
        self.arg_count = body["arg_count"]
        self.promoted = raw.get("promoted", [])
        self._build_cfg()

    # -- CFG ---------------------------------------------------------------
    def _build_cfg(self):
        n = len(self.blocks)
        self.succ = [[] for _ in range(n)]
        self.pred = [[] for _ in range(n)]
        for i, b in enumerate(self.blocks):
            if b["cleanup"]:
                continue
            t = b["term"]
            k = t["k"]
            edges = []
            if k == "goto":
                edges.append((t["target"], "goto"))
            elif k == "switch":
                for val, bb in t["targets"]:
                    edges.append((bb, "sw:" + val))
                edges.append((t["otherwise"], "sw:otherwise"))
            elif k in ("drop", "assert"):
                edges.append((t["target"], k))
            elif k == "call":
                if t["target"] is not None:
                    edges.append((t["target"], "call"))
            for (tb, lab) in edges:
                # `otherwise -> unreachable` of an exhaustive match is not a control-flow edge
                if k == "switch" and self.blocks[tb]["term"]["k"] == "unreachable" and not self.blocks[tb]["stmts"]:
                    continue
                self.succ[i].append((tb, lab))
                self.pred[tb].append((i, lab))
        # reachable (normal) blocks
        seen = {0}
        dq = deque([0])
        while dq:
            x = dq.popleft()
            for (y, _) in self.succ[x]:
                if y not in seen:
                    seen.add(y)
                    dq.append(y)
        self.reach = seen
        self._dom = None
        self._pdom = None
        self.calls = [Call(self, i, b["term"]) for i, b in enumerate(self.blocks)
                      if i in seen and b["term"]["k"] == "call"]

    def succs(self, b):
        return [y for (y, _) in self.succ[b]]

    def preds(self, b):
        return [y for (y, _) in self.pred[b] if y in self.reach]

    def exits(self):
        return [i for i in self.reach if self.blocks[i]["term"]["k"] == "return"]

    # dominators on the normal CFG (iterative)
    def dom(self):
        if self._dom is None:
            self._dom = _dominators(sorted(self.reach), 0, self.succs, self.preds)
        return self._dom

    def dominates(self, a, b):
        """block a dominates block b"""
        idom = self.dom()
        x = b
        while x is not None:
            if x == a:
                return True
            if x == 0:
                return False
            x = idom.get(x)
        return False

    def reachable_from(self, start, avoid=(), avoid_edges=()):
        """blocks reachable from start (inclusive) without passing through avoid blocks / edges"""
        avoid = set(avoid)
        avoid_edges = set(avoid_edges)
        seen = set()
        dq = deque([start] if start not in avoid else [])
        while dq:
            x = dq.popleft()
            if x in seen:
                continue
            seen.add(x)
            for (y, _) in self.succ[x]:
                if y in avoid or (x, y) in avoid_edges:
                    continue
                if y not in seen:
                    dq.append(y)
        return seen

    def back_edges(self):
        res = []
        for x in self.reach:
            for (y, _) in self.succ[x]:
                if self.dominates(y, x):
                    res.append((x, y))
        return res

    def loops(self):
        """natural loops: header -> set(blocks)"""
        loops = {}
        for (x, h) in self.back_edges():
            body = loops.setdefault(h, {h})
            st = [x]
            while st:
                n = st.pop()
                if n in body:
                    continue
                body.add(n)
                st.extend(self.preds(n))
        return loops

    # -- statements ---------------------------------------------------------
    def stmts(self):
        for i in sorted(self.reach):
            for s in self.blocks[i]["stmts"]:
                yield i, s

    def local_ty(self, l):
        return self.locals[l]["ty"]

    def local_name(self, l):
        return self.locals[l]["name"]

    def defs_of(self, local):
        """all (bb, kind, payload) definitions of a bare local: assign statements and call dests"""
        res = []
        for i in sorted(self.reach):
            b = self.blocks[i]
            for s in b["stmts"]:
                if s["k"] == "assign" and s["pl"]["l"] == local and not s["pl"]["p"]:
                    res.append((i, "assign", s))
            t = b["term"]
            if t["k"] == "call" and t["dest"]["l"] == local and not t["dest"]["p"]:
                res.append((i, "call", t))
        return res

    def loc(self, bb=None):
        if bb is None:
            return "%s:%d" % (self.file, self.line)
        return "%s:%d" % (self.file, self.blocks[bb]["term"]["span"]["line"])

    def __repr__(self):
        return "Fn(%s)" % self.path


def _dominators(nodes, entry, succs, preds):
    # Cooper-Harvey-Kennedy
    order = []
    seen = set()

    def dfs(start):
        st = [(start, iter(succs(start)))]
        seen.add(start)
        while st:
            n, it = st[-1]
            adv = False
            for m in it:
                if m not in seen:
                    seen.add(m)
                    st.append((m, iter(succs(m))))
                    adv = True
                    break
            if not adv:
                order.append(n)
                st.pop()

    dfs(entry)
    rpo = list(reversed(order))
    idx = {n: i for i, n in enumerate(rpo)}
    idom = {entry: entry}
    changed = True
    while changed:
        changed = False
        for n in rpo[1:]:
            ps = [p for p in preds(n) if p in idom]
            if not ps:
                continue
            new = ps[0]
            for p in ps[1:]:
                a, b = p, new
                while a != b:
                    while idx[a] > idx[b]:
                        a = idom[a]
                    while idx[b] > idx[a]:
                        b = idom[b]
                new = a
            if idom.get(n) != new:
                idom[n] = new
                changed = True
    idom[entry] = None
    return idom


def _load_pinned():
    try:
        with open(os.path.join(os.path.dirname(os.path.dirname(os.path.abspath(__file__))), "tables", "pinned_fns.json")) as fh:
            d = json.load(fh)
        return set(d.get("fns", [])), d.get("sigs", {})
    except Exception:
        return set(), {}


def _sig(raw):
    b = raw["body"]
    return [b["locals"][i]["ty"] for i in range(1, b["arg_count"] + 1)] + [b["locals"][0]["ty"]]


def normalise_renames(facts):
    """A function of the pinned tree that was only renamed keeps its pinned name for the rules: when a pinned name is gone, and exactly one
    function that is new to the tree sits in the same impl / module with the same signature (and it is the only pinned name it matches),
    every path that mentions the new name is rewritten to the pinned one.  Returns {pinned short path: new short path}.
    The rules still analyse the function's current body - only the label is the old one."""
    pinned, sigs = _load_pinned()
    if not pinned:
        return {}
    now = {}
    for d in facts:
        for raw in d["fns"]:
            if raw["kind"] != "Closure":
                now.setdefault(short(raw["path"]), []).append(raw)
    missing = [m for m in sigs if m not in now]
    fresh = [(sp, rs[0]) for sp, rs in now.items() if sp not in pinned and len(rs) == 1]
    if not missing or not fresh:
        return {}
    cand = {}
    for m in missing:
        par = m.rsplit("::", 1)[0]
        cs = [sp for sp, raw in fresh if sp.rsplit("::", 1)[0] == par and _sig(raw) == sigs[m]]
        if len(cs) == 1:
            cand[m] = cs[0]
    ren = {m: n for m, n in cand.items() if list(cand.values()).count(n) == 1}
    # second tier - a *moved* function: the pinned name is gone and exactly one new function anywhere in the same target carries the
    # same (last-segment) name, e.g. `ColumnParsing::extract_using_regex` turned into `ParsingInput::extract_using_regex`
    for m in missing:
        if m in ren:
            continue
        last = m.rsplit("::", 1)[1]
        cs = [sp for sp, raw in fresh if sp.rsplit("::", 1)[1] == last and sp not in ren.values() and "::" in sp]
        if len(cs) == 1 and [m2 for m2 in missing if m2.rsplit("::", 1)[1] == last] == [m]:
            ren[m] = cs[0]
    # third tier - renamed and its result type reshaped (a tuple result turned into a named struct): the only pinned name missing from an
    # impl / module and the only new function there that takes the same arguments
    for m in missing:
        if m in ren:
            continue
        par = m.rsplit("::", 1)[0]
        if [m2 for m2 in missing if m2.rsplit("::", 1)[0] == par and m2 not in ren] != [m]:
            continue
        args_of = lambda sg: list(sg)[:-1]
        cs = [sp for sp, raw in fresh if sp.rsplit("::", 1)[0] == par and sp not in ren.values() and args_of(_sig(raw)) == args_of(sigs[m])]
        if len(cs) == 1 and len([sp for sp, raw in fresh if sp.rsplit("::", 1)[0] == par and sp not in ren.values()]) <= 2:
            ren[m] = cs[0]
    # fourth tier - a free function turned into a method (or back) inside the same module: the pinned name is gone and exactly one new
    # function of that module takes the same multiset of argument types and returns the same type
    for m in missing:
        if m in ren:
            continue
        mod = "::".join(m.split("::")[:3])
        key_ = lambda sg: (sorted(re.sub(r"'\w+ ", "", t) for t in list(sg)[:-1]), re.sub(r"'\w+ ", "", list(sg)[-1]))
        cs = [sp for sp, raw in fresh if sp.startswith(mod + "::") and sp not in ren.values() and key_(_sig(raw)) == key_(sigs[m])]
        if len(cs) == 1 and len(list(sigs[m])) >= 4:
            ren[m] = cs[0]
    if not ren:
        return {}
    by_new = {n: m for m, n in ren.items()}

    def fix(path):
        sp = short(path)
        for n, m in by_new.items():
            if (sp == n or sp.startswith(n + "::")) and n.rsplit("::", 1)[0] != m.rsplit("::", 1)[0]:
                # moved: generic arguments of the old path are not reconstructed, the short path is authoritative for the rules
                return m + sp[len(n):]
            if sp == n or sp.startswith(n + "::"):
                nn, mn = n.rsplit("::", 1)[1], m.rsplit("::", 1)[1]
                # the last occurrence of `::<new name>` that is followed by the end, generics or a nested item
                idx = -1
                for mm in re.finditer(r"::%s(?=$|::)" % re.escape(nn), path):
                    idx = mm.start()
                    if short(path[:mm.end()]) == n:
                        break
                if idx >= 0:
                    return path[:idx] + "::" + mn + path[idx + 2 + len(nn):]
        return path

    def walk(x):
        if isinstance(x, dict):
            for k, v in x.items():
                if k in ("path", "res_path") and isinstance(v, str):
                    x[k] = fix(v)
                elif isinstance(v, (dict, list)):
                    walk(v)
        elif isinstance(x, list):
            for v in x:
                if isinstance(v, (dict, list)):
                    walk(v)

    for d in facts:
        walk(d["fns"])
    return ren


def normalise_field_renames(facts):
    """A field of a pinned struct that was only renamed keeps its pinned name for the rules: when a pinned field name is gone from the
    struct and exactly one new field of the struct has the type the old one had, every place / aggregate / struct record that
    mentions the new name is rewritten.  Returns {(struct, pinned name): new name}."""
    try:
        with open(os.path.join(os.path.dirname(os.path.dirname(os.path.abspath(__file__))), "tables", "pinned_fns.json")) as fh:
            pinned = json.load(fh).get("fields", {})
    except Exception:
        return {}
    ren = {}
    for d in facts:
        pre = "bin/" if d["_target"] == "bin" else ""
        for a in d["adts"]:
            pf = pinned.get(pre + a["key"])
            if not pf or len(a["variants"]) != 1:
                continue
            now = [(f["name"], f["ty"]) for f in a["variants"][0]["fields"]]
            now_names = set(n for n, _ in now)
            old_names = set(n for n, _ in pf)
            missing = [(n, t) for n, t in pf if n not in now_names]
            fresh = [(n, t) for n, t in now if n not in old_names]
            for n_old, t_old in missing:
                cs = [n for n, t in fresh if t == t_old]
                if len(cs) == 1 and len([1 for n2, t2 in missing if t2 == t_old]) == 1:
                    ren[(pre + a["key"], n_old)] = cs[0]
    if not ren:
        return {}
    by_new = {}
    for (adt, n_old), n_new in ren.items():
        by_new[(adt.replace("bin/", ""), n_new)] = n_old

    def walk(x, pre):
        if isinstance(x, dict):
            adt = x.get("adt")
            if adt and isinstance(x.get("n"), str) and (adt, x["n"]) in by_new:
                x["n"] = by_new[(adt, x["n"])]
            if adt and isinstance(x.get("fields"), list) and x.get("k") == "aggr":
                x["fields"] = [by_new.get((adt, f_), f_) if isinstance(f_, str) else f_ for f_ in x["fields"]]
            for v in x.values():
                if isinstance(v, (dict, list)):
                    walk(v, pre)
        elif isinstance(x, list):
            for v in x:
                if isinstance(v, (dict, list)):
                    walk(v, pre)

    for d in facts:
        walk(d["fns"], "")
        for a in d["adts"]:
            for v in a["variants"]:
                for f in v["fields"]:
                    if (a["key"], f["name"]) in by_new:
                        f["name"] = by_new[(a["key"], f["name"])]
    return ren


def _normalise_cached_fields(P):
    """A new field of a pinned struct that only caches a field of the (immutable) statement - written nowhere but in the constructions of
    the struct, and there with a value whose every source is the statement field `m` (or None) - is read by the rules as `m`: every place
    that mentions it is renamed.  `row_limit: Option<usize> = statement.limit` looked up once in `new` is still the statement's LIMIT.
    Returns {(struct, new field): m}.  Nothing applies on the pinned tree (no new fields)."""
    from . import flow as F
    try:
        with open(os.path.join(os.path.dirname(os.path.dirname(os.path.abspath(__file__))), "tables", "pinned_fns.json")) as fh:
            pinned = json.load(fh).get("fields", {})
    except Exception:
        return {}
    out = {}
    for akey, a in P.adts.items():
        pf = pinned.get(akey)
        if not pf or len(a["variants"]) != 1 or akey.startswith("bin/"):
            continue
        old = set(n for n, _ in pf)
        for fld in a["variants"][0]["fields"]:
            n = fld["name"]
            if n in old or not re.match(r"^(core::option::Option<)?(usize|bool|u64|i64)>?$", fld["ty"]):
                continue
            srcs, ok, built = set(), True, 0
            for f in P.fns.values():
                if f.target != "lib":
                    continue
                for i, st in f.stmts():
                    if st["k"] != "assign":
                        continue
                    # any other write of the field
                    if any(isinstance(e, dict) and e.get("n") == n and e.get("adt") == a["key"] for e in st["pl"]["p"]):
                        ok = False
                    rv = st["rv"]
                    if rv["k"] == "ref" and rv.get("bk") in ("mut", "Mut") and \
                            any(isinstance(e, dict) and e.get("n") == n and e.get("adt") == a["key"] for e in rv["pl"]["p"]):
                        ok = False
                    if rv["k"] == "aggr" and rv.get("adt") == a["key"] and n in (rv.get("fields") or []):
                        built += 1
                        op = rv["ops"][rv["fields"].index(n)]
                        for o in F.origins(f, op, depth=14):
                            if o.kind in ("place", "arg") and o.place is not None and place_fields(o.place) and \
                                    (o.place["p"][-1].get("adt") or "").startswith("sqlgrep::model::"):
                                srcs.add((place_fields(o.place)[-1], o.place["p"][-1].get("ty")))
                            elif o.kind == "aggr" or (o.kind == "call" and F.TRANSPARENT.search(short(o.call.name))):
                                continue
                            elif o.kind == "const" and fld["ty"].startswith("core::option::Option"):
                                continue
                            else:
                                ok = False
            if ok and built and len(srcs) == 1 and list(srcs)[0][1] == fld["ty"]:
                out[(a["key"], n)] = list(srcs)[0][0]
    if not out:
        return {}

    def walk(x):
        if isinstance(x, dict):
            adt = x.get("adt")
            if adt and isinstance(x.get("n"), str) and (adt, x["n"]) in out:
                x["n"] = out[(adt, x["n"])]
            for v in x.values():
                if isinstance(v, (dict, list)):
                    walk(v)
        elif isinstance(x, list):
            for v in x:
                if isinstance(v, (dict, list)):
                    walk(v)
    for f in P.fns.values():
        walk(f.raw.get("blocks") or f.raw)
        f.__dict__.pop("_stmts_cache", None)
    return out


class Prog:
    def __init__(self, facts):
        self.renames = normalise_renames(facts)
        self.field_renames = normalise_field_renames(facts)
        self.fns = {}
        self.adts = {}
        self.impls = []
        self.statics = []
        self.targets = []
        for d in sorted(facts, key=lambda d: d["_target"] != "lib"):
            tgt = d["_target"]
            self.targets.append({"target": tgt, "crate": d["crate"], "bodies": d["n_bodies"]})
            for raw in d["fns"]:
                f = Fn(raw, tgt, self)
                self.fns[f.key] = f
            for a in d["adts"]:
                a["_target"] = tgt
                self.adts[("bin/" if tgt == "bin" else "") + a["key"]] = a
            for im in d["impls"]:
                im["_target"] = tgt
                self.impls.append(im)
            for s in d["statics"]:
                s["_target"] = tgt
                self.statics.append(s)
        self.by_path = defaultdict(list)
        self.by_spath = defaultdict(list)
        for f in self.fns.values():
            self.by_path[f.path].append(f)
            self.by_spath[f.spath].append(f)
        self.children = defaultdict(list)  # closures / nested fns by parent fn key
        for f in self.fns.values():
            if f.parent_key in self.fns:
                self.children[f.parent_key].append(f)
        self._trait_impl_methods = defaultdict(list)  # (trait path, method) -> [fn keys]
        for im in self.impls:
            if im["trait"]:
                for m in im["methods"]:
                    k = ("bin/" if im["_target"] == "bin" else "") + m["key"]
                    self._trait_impl_methods[(im["trait"], m["name"])].append(k)
        self._cg = None
        self._fnptr = None
        self.cached_fields = _normalise_cached_fields(self)

    # ------------------------------------------------------------------
    def fnptr_targets(self):
        """address-taken analysis for fn-pointer calls: (target, fn-pointer type) -> set of local fn keys coerced to that type anywhere in the
        crate, plus `unresolved`: the pointer types into which something is coerced that is not a local function (a non-local fn item,
        an `unsafe fn` re-typing, a transmute)"""
        if self._fnptr is not None:
            return self._fnptr
        targets = defaultdict(set)
        unresolved = set()
        clos = {}
        for f in self.fns.values():
            if f.kind == "Closure":
                sp = f.raw.get("span") or {}
                clos[(f.target, sp.get("file"), sp.get("line"), sp.get("col"))] = f.key
        for f in self.fns.values():
            for _, s in f.stmts():
                if s["k"] != "assign" or s["rv"]["k"] != "cast":
                    continue
                rv = s["rv"]
                ck = rv.get("ck", "")
                to = rv.get("to", "")
                is_fnptr_ty = bool(re.match(r"^(for<[^>]*> )?(unsafe )?(extern \"[^\"]*\" )?fn\(", to))
                if "ClosureFnPointer" in ck:
                    m = re.match(r"^\{closure@([^:]+):(\d+):(\d+)", rv.get("from", ""))
                    k = clos.get((f.target, m.group(1), int(m.group(2)), int(m.group(3)))) if m else None
                    if k:
                        targets[(f.target, to)].add(k)
                    else:
                        unresolved.add((f.target, to))
                elif "ReifyFnPointer" in ck:
                    fn_ = rv["op"].get("fn") or {}
                    k = fn_.get("res_key") or fn_.get("key")
                    cand = ("bin/" + k) if (k and f.target == "bin" and ("bin/" + k) in self.fns) else k
                    if cand in self.fns:
                        targets[(f.target, to)].add(cand)
                    else:
                        unresolved.add((f.target, to))
                elif is_fnptr_ty:
                    unresolved.add((f.target, to))
        self._fnptr = (targets, unresolved)
        return self._fnptr

    def fnptr_callees(self, fn, call):
        """local targets of an indirect call, or None when the pointer type cannot be resolved to a closed set of local functions"""
        ty = call.func.get("ty", "")
        targets, unresolved = self.fnptr_targets()
        if (fn.target, ty) in unresolved or not targets.get((fn.target, ty)):
            return None
        return sorted(targets[(fn.target, ty)])

    def fn(self, spath, target=None):
        """unique function by short path (generic args stripped); None if absent"""
        c = [f for f in self.by_spath.get(spath, []) if target is None or f.target == target]
        if not c:
            c = [f for f in self.by_path.get(spath, []) if target is None or f.target == target]
        if len(c) == 1:
            return c[0]
        if len(c) > 1:
            lib = [f for f in c if f.target == "lib"]
            if len(lib) == 1:
                return lib[0]
            return c[0]
        return None

    def callee_keys(self, fn, call):
        """local callee function keys for a call (resolved, or CHA for unresolved trait calls)"""
        f = call.func
        if f.get("key") is None:
            if f.get("indirect"):
                return self.fnptr_callees(fn, call) or []
            return []
        pre = "bin/" if fn.target == "bin" else ""
        res = []
        rk = f.get("res_key")
        if rk is not None and f.get("res_kind") in ("item", "closure_once_shim", "reify_shim", "fn_ptr_shim"):
            k = (pre + rk) if f.get("res_local") else rk
            if k in self.fns:
                res.append(k)
            elif f.get("trait") and not f.get("res_local") and rk == f.get("key"):
                pass
            if res:
                return res
        if f.get("res_kind") in ("unresolved", None) or (rk == f.get("key") and f.get("trait")):
            tr = f.get("trait")
            if tr:
                for k in self._trait_impl_methods.get((tr, f.get("trait_method")), []):
                    if k in self.fns:
                        res.append(k)
                # default method body of a local trait
                k = (pre + f["key"]) if f.get("local") else f["key"]
                if k in self.fns and k not in res:
                    res.append(k)
        else:
            k = (pre + f["key"]) if f.get("local") else f["key"]
            if k in self.fns:
                res.append(k)
        return res

    def callgraph(self):
        if self._cg is not None:
            return self._cg
        cg = defaultdict(set)
        for f in self.fns.values():
            for c in f.calls:
                for k in self.callee_keys(f, c):
                    cg[f.key].add(k)
                # fn items / closures passed as generic args or operands
                for ck in c.func.get("closure_args", []):
                    for cand in (ck, "bin/" + ck):
                        if cand in self.fns and (cand.startswith("bin/") == (f.target == "bin") or not cand.startswith("bin/")):
                            cg[f.key].add(cand)
            # closures constructed here (assumed called)
            for ch in self.children.get(f.key, []):
                cg[f.key].add(ch.key)
            # fn items mentioned as constants (e.g. map(Value::Int), map(BufReader::new))
            for _, s in f.stmts():
                for op in _operands_of_stmt(s):
                    fn_ = op.get("fn")
                    if fn_ and fn_.get("key"):
                        k = fn_.get("res_key") or fn_["key"]
                        for cand in (k, "bin/" + k):
                            if cand in self.fns:
                                cg[f.key].add(cand)
            for c in f.calls:
                for op in c.args:
                    fn_ = op.get("fn")
                    if fn_ and fn_.get("key"):
                        k = fn_.get("res_key") or fn_["key"]
                        for cand in (k, "bin/" + k):
                            if cand in self.fns:
                                cg[f.key].add(cand)
        self._cg = cg
        return cg

    def reachable(self, roots):
        """roots: iterable of Fn; returns dict key -> parent key (BFS tree)"""
        cg = self.callgraph()
        par = {}
        dq = deque()
        for r in roots:
            if r.key not in par:
                par[r.key] = None
                dq.append(r.key)
        while dq:
            x = dq.popleft()
            for y in sorted(cg.get(x, ())):
                if y not in par:
                    par[y] = x
                    dq.append(y)
        return par

    def chain(self, par, key):
        out = []
        while key is not None:
            out.append(self.fns[key].path)
            key = par.get(key)
        return list(reversed(out))


def _operands_of_stmt(s):
    if s["k"] != "assign":
        return
    rv = s["rv"]
    k = rv["k"]
    if k in ("use", "cast", "repeat"):
        yield rv["op"]
    elif k == "binop":
        yield rv["l"]
        yield rv["r"]
    elif k == "unop":
        yield rv["o"]
    elif k == "aggr":
        for o in rv["ops"]:
            yield o


def operands_of_stmt(s):
    return _operands_of_stmt(s)


def place_root(pl):
    return pl["l"]


def place_fields(pl):
    """list of field names along a place projection"""
    return [e["n"] for e in pl["p"] if isinstance(e, dict) and "n" in e]


def place_str(fn, pl):
    s = fn.local_name(pl["l"]) or "_%d" % pl["l"]
    for e in pl["p"]:
        if e == "*":
            s = "(*%s)" % s
        elif isinstance(e, dict) and "n" in e:
            s += "." + e["n"]
        elif isinstance(e, dict) and "d" in e:
            s += " as " + e["d"]
        elif isinstance(e, dict) and "i" in e:
            s += "[_%d]" % e["i"]
        else:
            s += "[..]"
    return s


INT_RANGES = {
    "i8": (-2**7, 2**7 - 1), "i16": (-2**15, 2**15 - 1), "i32": (-2**31, 2**31 - 1),
    "i64": (-2**63, 2**63 - 1), "i128": (-2**127, 2**127 - 1), "isize": (-2**63, 2**63 - 1),
    "u8": (0, 2**8 - 1), "u16": (0, 2**16 - 1), "u32": (0, 2**32 - 1), "u64": (0, 2**64 - 1),
    "u128": (0, 2**128 - 1), "usize": (0, 2**64 - 1), "bool": (0, 1), "char": (0, 0x10FFFF),
}
