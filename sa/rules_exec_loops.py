"""Path rules on the input loops of the executors (shared by C07, C12, C19)."""
import re
from .prog import short, place_fields
from . import flow as F
from . import pathrules as PR

FILE_EXEC = "sqlgrep::executor::FileExecutor::execute"
FOLLOW_EXEC = "sqlgrep::executor::FollowFileExecutor::execute"
JOIN_EXEC = "sqlgrep::execution::join::JoinedTableData::execute"
ENGINE_EXEC = r"^sqlgrep::execution::execution_engine::ExecutionEngine::execute$"
PRINT = r"^sqlgrep::executor::OutputPrinter::print$"
LINES_NEXT = r"^<std::io::Lines<B> as core::iter::traits::iterator::Iterator>::next$"
READERS_NEXT = r"^<alloc::vec::(into_iter::IntoIter<T, A>|drain::Drain<'_, T, A>) as core::iter::traits::iterator::Iterator>::next$"
FOLLOW_NEXT = r"^<sqlgrep::helpers::FollowFileIterator as core::iter::traits::iterator::Iterator>::next$"
ENUM_NEXT = r"^<core::iter::adapters::enumerate::Enumerate<I> as core::iter::traits::iterator::Iterator>::next$"
ANY_INPUT_NEXT = "|".join([LINES_NEXT, READERS_NEXT, FOLLOW_NEXT, ENUM_NEXT])
ATOMIC_LOAD = r"^core::sync::atomic::Atomic(Bool)?::load$"
ADAPTERS = re.compile(r"^core::iter::traits::iterator::Iterator::(skip|take|filter|rev|step_by|chain|skip_while|take_while|filter_map|"
                      r"peekable|fuse|zip|flat_map|flatten|scan|cycle|map_while|inspect|last|nth|find|position)$|"
                      r"^std::io::(Read::(chain|take|bytes)|BufRead::(split|skip_until|read_until|fill_buf|consume))$|"
                      r"^itertools::")


class Loop:
    """one input loop: the `next` call, its Some edge, the natural loop"""

    def __init__(self, fn, nxt):
        self.fn = fn
        self.next = nxt
        g = PR.discr_guard(fn, nxt, "Some")
        self.ok = g is not None
        if g:
            self.sw, self.some, self.none = g[0], g[1], g[2]
        lp = PR.loop_of(fn, nxt.bb)
        self.header, self.body = lp if lp else (None, set())


def input_loops(fn):
    """loops advancing an input iterator: the known iterator types, or any adapter (Map, Enumerate, ...) whose type contains io::Lines"""
    res = []
    for c in fn.calls:
        sn = short(c.name)
        if re.search(ANY_INPUT_NEXT, sn):
            res.append(Loop(fn, c))
        elif sn.endswith("as core::iter::traits::iterator::Iterator>::next") and \
                any("std::io::Lines<" in t or "FollowFileIterator" in t for t in (c.func.get("res_targs") or c.targs)):
            res.append(Loop(fn, c))
    return res


def is_line_loop(loop):
    sn = short(loop.next.name)
    if re.search(LINES_NEXT + "|" + FOLLOW_NEXT, sn):
        return True
    return any("std::io::Lines<" in t or "FollowFileIterator" in t for t in (loop.next.func.get("res_targs") or loop.next.targs)) and \
        not re.search(READERS_NEXT, sn)


def running_load(fn, loop):
    """the AtomicBool::load on the `running` flag inside the loop"""
    res = []
    for c in PR.calls_matching(fn, ATOMIC_LOAD):
        if c.bb in loop.body:
            res.append(c)
    return res


def consuming_calls(fn):
    return [l.next for l in input_loops(fn)]


def calls_reaching(fn, pattern, depth=2):
    """calls in fn whose callee matches `pattern`, or is a local function that (within `depth` levels) contains such a call:
    extracting the body of a loop into a helper must not hide the call from the path rules"""
    rx = re.compile(pattern)
    P = fn.prog
    memo = {}

    def contains(key, d):
        if (key, d) in memo:
            return memo[(key, d)]
        g = P.fns.get(key)
        res = False
        if g is not None:
            for c in g.calls:
                if rx.search(short(c.name)):
                    res = True
                    break
                if d > 0:
                    for k2 in P.callee_keys(g, c):
                        if contains(k2, d - 1):
                            res = True
                            break
                if res:
                    break
        memo[(key, d)] = res
        return res

    out = []
    for c in fn.calls:
        if rx.search(short(c.name)):
            out.append(c)
        elif depth > 0 and any(contains(k, depth - 1) for k in P.callee_keys(fn, c)):
            out.append(c)
    return out


EXEC_KEEP = (r"^sqlgrep::execution::|^sqlgrep::executor::OutputPrinter::|^sqlgrep::helpers::FollowFileIterator|^sqlgrep::data_model::|"
             r"^sqlgrep::model::|^sqlgrep::executor::(ConsolePrinter|CapturedPrinter)|^sqlgrep::executor::ExecutionStatistics::")


def exec_view(R, name):
    """the executor function with its own local helpers (process_line, is_running, print_result_row, ...) inlined; calls into the
    engine, the printer and the follow iterator stay calls"""
    return PR.view(R.prog, R.need_fn(name), keep=EXEC_KEEP)
