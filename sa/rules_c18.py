"""C18 — output is deterministic and independent of hash seeds.

Effect analysis: every call to a nondeterminism source in the lib and bin targets
is enumerated from resolved callees (hasher type read from the resolved generic
arguments).  Each must be (a) a hash-order loop whose body is mechanically
order-insensitive, or (b) listed in tables/nondet_allow.json with a reason and a
who-may-call constraint; anything else is a violation naming the site."""
import json, os, re
from .core import VERIF, EngineError
from .prog import short
from . import pathrules as PR
from . import flow as F

HASH_TY = re.compile(r"std::collections::hash::(map::HashMap|set::HashSet)<")
ITER_ENTRY = re.compile(
    r"^std::collections::hash::(map::HashMap|set::HashSet)::(iter|iter_mut|keys|values|values_mut|into_keys|"
    r"into_values|drain|retain|extract_if|union|intersection|difference|symmetric_difference)$")
INTO_ITER = re.compile(
    r"^<(&'a |&'a mut |&|&mut )?std::collections::hash::(map::HashMap|set::HashSet)<.*> as core::iter::traits::collect::IntoIterator>::into_iter$")
HASH_ITER_NEXT = re.compile(
    r"^<std::collections::hash::(map|set)::(Iter|IterMut|Keys|Values|ValuesMut|IntoIter|IntoKeys|IntoValues|Drain)<.*> as "
    r"core::iter::traits::iterator::Iterator>::next$")
CONSUMER_TRAITS = ("core::iter::traits::collect::Extend", "core::iter::traits::collect::FromIterator",
                   "core::iter::traits::iterator::Iterator", "core::iter::traits::collect::IntoIterator",
                   "itertools::Itertools")
OTHER_SOURCES = [
    (re.compile(r"^chrono::offset::local::Local::now$|^chrono::offset::utc::Utc::now$"), "clock"),
    (re.compile(r"^std::time::(Instant|SystemTime)::now$"), "clock"),
    (re.compile(r"^std::thread::(functions::|scoped::|builder::)?(spawn|scope|spawn_scoped|Builder::spawn|Builder::spawn_scoped)|"
                r"^std::thread::(Builder|Scope)::|^std::sync::mpsc::(channel|sync_channel)$|^rayon::|^crossbeam"), "thread"),
    (re.compile(r"^std::hash::random::RandomState::new$|^<std::hash::random::RandomState as core::default::Default>::default$"), "random-hasher"),
    (re.compile(r"^std::env::(var|vars|var_os|args|args_os|current_dir|temp_dir)"), "environment"),
    (re.compile(r"^std::fs::read_dir$"), "directory-order"),
    (re.compile(r"^std::process::id$"), "pid"),
    (re.compile(r"^rand::|^fastrand::|^getrandom::"), "random"),
    (re.compile(r"core::fmt::Pointer"), "address"),
]
# order-sensitive accumulators: inside a hash-order loop these make iteration order observable
ORDER_SENSITIVE = re.compile(
    r"^alloc::vec::Vec::(push|insert|extend_from_slice|append)$|^alloc::string::String::(push|push_str|insert|insert_str)$|"
    r"^<alloc::vec::Vec<.*> as core::iter::traits::collect::Extend|^std::io::(stdio::_print|Write::write)|"
    r"^core::fmt::Write::write|^alloc::collections::vec_deque::VecDeque::push")


def _hasher_random(call):
    ts = call.func.get("res_targs") or call.targs
    return any(t == "std::hash::random::RandomState" for t in ts)


def _container_sig(call):
    ts = [t for t in (call.func.get("res_targs") or call.targs)
          if t not in ("std::hash::random::RandomState", "alloc::alloc::Global")]
    return ",".join(ts)


def run(R):
    P = R.prog
    with open(os.path.join(VERIF, "tables", "nondet_allow.json")) as fh:
        table = json.load(fh)
    allow = {}
    for e in table["allow"]:
        allow[(e["fn"], e["source"], e.get("container", ""))] = e
    excluded_mods = table["excluded_modules"]
    R.rule("C18.sources", "every nondeterminism source (hash-order iteration with a randomly seeded hasher, clock, thread, "
                          "environment, address) is order-insensitive by loop shape or listed with a who-may-call constraint")
    R.rule("C18.consumer", "no randomly seeded hash container is handed to an iterator-consuming std API")
    R.rule("C18.callers", "functions whose result carries hash order are called only from the listed non-output callers")
    R.rule("C18.indirect", "every fn-pointer call resolves, by address-taken analysis over the coercions to that pointer type, to a closed set of functions of this crate (assumption of the call graph)")
    R.rule("C18.fieldtypes", "container types of the fields whose traversal is output order (reported)")

    R.rule("C18.process-state", "no process-wide mutable state (a static holding a Mutex / RwLock / RefCell / Cell / atomic, or a thread-local) "
                                "in the library: a result must not depend on what the process executed before (caches across queries, counters)")
    mut_statics = [st for st in P.statics if st.get("_target") == "lib" and
                   re.search(r"(sync::(poison::)?(mutex::)?Mutex|RwLock|RefCell|cell::Cell<|cell::OnceCell|sync::atomic::Atomic|OnceLock|LazyLock<.*(Mutex|RwLock|Atomic))", st["ty"])]
    def write_only(st):
        """every use of the static in the library is an atomic read-modify-write / store whose result is dropped: a statistics counter
        nothing ever reads back (uses are found by the static's type: `&T` address constants)"""
        if "atomic::Atomic" not in st["ty"]:
            return False
        uses = 0
        for g in P.fns.values():
            if g.target != "lib":
                continue
            addr = set()
            for i, s_ in g.stmts():
                if s_["k"] == "assign" and s_["rv"]["k"] == "use" and s_["rv"]["op"].get("k") == "const" and \
                        s_["rv"]["op"].get("ty") == "&" + st["ty"] and "alloc" in str(s_["rv"]["op"].get("v")) and not s_["pl"]["p"]:
                    addr.add(s_["pl"]["l"])
            for _ in range(3):
                for i, s_ in g.stmts():
                    if s_["k"] == "assign" and not s_["pl"]["p"] and s_["rv"]["k"] in ("ref", "copy_for_deref", "use"):
                        src = s_["rv"]["pl"]["l"] if s_["rv"]["k"] != "use" else (s_["rv"]["op"]["pl"]["l"] if s_["rv"]["op"].get("k") in ("copy", "move") else None)
                        if src in addr:
                            addr.add(s_["pl"]["l"])
            if not addr:
                continue
            for c in g.calls:
                if not any(a.get("k") in ("copy", "move") and a["pl"]["l"] in addr for a in c.args):
                    continue
                uses += 1
                if not re.search(r"^core::sync::atomic::Atomic(\w*)::(fetch_add|fetch_sub|fetch_or|fetch_and|fetch_max|fetch_min|store)$", short(c.name)):
                    return False
                d = c.dest["l"] if c.dest is not None and not c.dest["p"] else None
                if d is not None:
                    read = any(o.get("k") in ("copy", "move") and o["pl"]["l"] == d for i, s_ in g.stmts() for o in _stmt_ops(s_)) or \
                        any(a.get("k") in ("copy", "move") and a["pl"]["l"] == d for c2 in g.calls for a in c2.args) or \
                        any(g.blocks[b]["term"]["k"] == "switch" and g.blocks[b]["term"]["discr"].get("k") in ("copy", "move") and
                            g.blocks[b]["term"]["discr"]["pl"]["l"] == d for b in g.reach)
                    if read:
                        return False
        return uses > 0

    for st in list(mut_statics):
        if write_only(st):
            mut_statics.remove(st)
            R.ok("C18.process-state", "static|" + st["key"].split("::")[-1], "only ever incremented / stored, the result dropped: a counter that "
                 "nothing reads back cannot reach a query result", "%s:%d" % (st["span"]["file"], st["span"]["line"]), nontrivial=False)
    for st in mut_statics:
        R.violation("C18.process-state", "static|" + st["key"].split("::")[-1] if "LAZY" not in st["key"] else "static|" + st["key"].split("::")[-4],
                    "process-wide mutable state `%s`: %s - what one query (or an earlier query of the same process) stored can change what a "
                    "later query returns, so the output is no longer a function of query + input" % (st["key"], st["ty"][:120]),
                    ["%s:%d" % (st["span"]["file"], st["span"]["line"])])
    tls = [(g, s_) for g in P.fns.values() if g.target == "lib" for i_, s_ in g.stmts() if s_["rv"]["k"] == "tls"]
    for g, s_ in tls:
        R.violation("C18.process-state", "tls|" + g.spath, "%s uses a thread-local: state that survives from one query to the next" % g.path,
                    ["%s:%d" % (g.file, s_["line"])])
    if not mut_statics and not tls:
        R.ok("C18.process-state", "lib", "%d statics in the library, none with interior mutability; no thread-locals"
             % len([st for st in P.statics if st.get("_target") == "lib"]), "src/lib.rs")
    used = set()
    seen_count = {}
    cg = P.callgraph()
    callers = {}
    for a, bs in cg.items():
        for b in bs:
            callers.setdefault(b, set()).add(a)

    def excluded(f):
        return any(f.spath.startswith(m) or (f.impl_self or "").startswith(m) for m in excluded_mods)

    from . import rules_sites
    root_fns = rules_sites.roots(R, "EXEC") + rules_sites.roots(R, "PARSE")
    mainf = P.fn("sqlgrep::main", "bin")
    if mainf is None:
        raise EngineError("bin target has no main")
    root_fns.append(mainf)
    live = P.reachable(root_fns)
    n_fn = 0
    n_dead = 0
    for f in sorted(P.fns.values(), key=lambda f: f.key):
        if f.key not in live:
            n_dead += 1
            continue
        n_fn += 1
        for c in f.calls:
            name = c.name
            sname = short(name)
            kind = None
            if (ITER_ENTRY.match(sname) or INTO_ITER.match(name)) and _hasher_random(c):
                kind = "hash-order"
                src = sname.split("::")[-1] if ITER_ENTRY.match(sname) else "into_iter"
            else:
                for rx, k in OTHER_SOURCES:
                    if rx.search(sname):
                        kind = k
                        src = sname
                        break
            if c.func.get("indirect"):
                tg = P.fnptr_callees(f, c)
                if tg is None:
                    R.violation("C18.indirect", "%s|indirect-call" % f.spath,
                                "call through a `%s` whose possible targets are not a closed set of functions of this crate (nothing of that "
                                "pointer type is created from a local fn item or closure, or a non-local function / transmute is coerced to it): "
                                "the call graph assumption does not hold" % c.func.get("ty", "?"), [c.loc()])
                else:
                    R.ok("C18.indirect", "%s|indirect-call" % f.spath, "call through `%s` resolved by address-taken analysis to %s"
                         % (c.func.get("ty"), ", ".join(P.fns[k].spath for k in tg)), c.loc())
                continue
            if kind is None:
                # consumer of a hash container by value/ref through an iterator-consuming trait
                tr = c.func.get("trait")
                if tr in CONSUMER_TRAITS and not name.startswith("<std::collections::hash::") and \
                        not sname.startswith("std::collections::hash::"):
                    for a in c.args:
                        ty = a.get("ty", "")
                        if HASH_TY.search(ty) and "BuildHasherDefault" not in ty and not ty.startswith("std::collections::hash::map::Iter"):
                            if re.match(r"^(&(mut )?)?std::collections::hash::(map::HashMap|set::HashSet)<", ty):
                                key = "%s|%s|%s" % (f.spath, sname, ty)
                                e = allow.get((f.spath, sname, ty))
                                if e:
                                    used.add((f.spath, sname, ty))
                                    R.ok("C18.consumer", key, "table: " + e["reason"], c.loc())
                                elif excluded(f):
                                    R.ok("C18.consumer", key, "excluded module", c.loc(), nontrivial=False)
                                else:
                                    R.violation("C18.consumer", key,
                                                "randomly seeded hash container consumed in iteration order by %s" % sname,
                                                [c.loc()], {"function": f.path, "argument_type": ty})
                continue
            cont = _container_sig(c) if kind == "hash-order" else ""
            key = "%s|%s|%s" % (f.spath, src, cont)
            if excluded(f):
                R.ok("C18.sources", key, "excluded module (interactive table editor: no query output)", c.loc(),
                     nontrivial=False)
                continue
            e = allow.get((f.spath, src, cont))
            if e is None:
                # a `loop-keyed` row is a structural claim about the loop body (re-proved below): it holds wherever the loop lives,
                # e.g. after the loop was moved into a helper function
                moved = [e2 for e2 in table["allow"] if e2["source"] == src and e2.get("container", "") == cont and e2.get("mode") == "loop-keyed"]
                if moved:
                    e = moved[0]
            if e is None:
                R.violation("C18.sources", key,
                            "%s source `%s` in %s is neither order-insensitive by shape nor listed"
                            % (kind, name, f.path), [c.loc()],
                            {"function": f.path, "callee": name, "container": cont,
                             "rule": "every nondeterminism source must be tabled (tables/nondet_allow.json) or proven order-insensitive"})
                continue
            used.add((f.spath, src, cont))
            seen_count[(f.spath, src, cont)] = seen_count.get((f.spath, src, cont), 0) + 1
            if seen_count[(f.spath, src, cont)] > e.get("count", 1):
                R.violation("C18.sources", key + "|extra",
                            "additional %s source `%s` in %s beyond the %d listed" % (kind, name, f.path, e.get("count", 1)),
                            [c.loc()], {"function": f.path})
                continue
            if e["mode"] == "loop-keyed":
                bad = _loop_body_check(f, c, e.get("loop_callees_allowed", []))
                if bad:
                    for (b, why) in bad:
                        R.violation("C18.sources", key + "|loop-body|" + why,
                                    "hash-order loop in %s has an order-sensitive effect: %s" % (f.path, why),
                                    [b], {"function": f.path, "source": c.loc()})
                else:
                    R.ok("C18.sources", key, "loop body order-insensitive (no sequence accumulator, listed callees only)",
                         c.loc(), sample={"reason": e["reason"]})
            else:
                R.ok("C18.sources", key, "table: " + e["reason"], c.loc())
            if "callers_allowed" in e:
                # who may call the function that leaks the order
                fk = f.key
                for ck in sorted(callers.get(fk, ())):
                    cf = PR.pinned_owner(P, P.fns[ck])
                    k2 = "%s<-%s" % (f.spath, cf.spath)
                    if cf.spath in e["callers_allowed"] or excluded(cf):
                        R.ok("C18.callers", k2, "listed caller", cf.loc())
                    else:
                        R.violation("C18.callers", k2,
                                    "%s (result carries hash order / clock) is called from %s, which is not a listed non-output caller"
                                    % (f.path, cf.path), [cf.loc()], {"allowed": e["callers_allowed"]})
    # hash-iterator `next` outside any tabled site (iterator obtained some other way)
    for f in P.fns.values():
        if f.key not in live:
            continue
        for c in f.calls:
            if HASH_ITER_NEXT.match(c.name):
                # must have an entry site in the same function
                has_entry = any((ITER_ENTRY.match(short(c2.name)) or INTO_ITER.match(c2.name)) for c2 in f.calls)
                if not has_entry and not excluded(f):
                    e = [k for k in allow if k[0] == f.spath and k[1] == "next"]
                    key = "%s|next|%s" % (f.spath, ",".join(c.targs))
                    if e:
                        used.add(e[0])
                        R.ok("C18.sources", key, "table: " + allow[e[0]]["reason"], c.loc())
                    else:
                        R.violation("C18.sources", key, "hash iterator advanced in %s without a tabled source" % f.path,
                                    [c.loc()])
    stale = [k for k in allow if k not in used]
    for k in stale:
        R.note("allow-table row no longer matches a site (harmless): %s" % (k,))
    # report the field types that carry output order
    for (adt, field) in table["order_fields"]:
        a = P.adts.get(adt)
        if not a:
            R.note("order field %s.%s: ADT not found" % (adt, field))
            continue
        for v in a["variants"]:
            for fl in v["fields"]:
                if fl["name"] == field:
                    ordered = not re.match(r"^std::collections::hash::", fl["ty"])
                    if ordered:
                        R.ok("C18.fieldtypes", "%s.%s" % (adt, field), "ordered container: " + fl["ty"][:60])
                    else:
                        R.violation("C18.fieldtypes", "%s.%s" % (adt, field),
                                    "field whose traversal order is output order is a hashed container: %s" % fl["ty"],
                                    [a["span"]["file"] + ":%d" % a["span"]["line"]])
    R.assume("dependencies (regex, serde_json with preserve_order, chrono, fnv) are deterministic functions of their inputs")
    R.assume("closures are called only by the function that builds them or its callees; checked: no dyn/fn-pointer calls")
    R.note("functions scanned: %d reachable from main / the execution and parsing entry points; %d unreachable bodies skipped" % (n_fn, n_dead))
    R.floor("C18.sources", table["floor_sources"])


def _stmt_ops(s_):
    if s_["k"] != "assign":
        return []
    rv = s_["rv"]
    k = rv["k"]
    if k in ("use", "cast", "repeat"):
        return [rv["op"]]
    if k == "binop":
        return [rv["l"], rv["r"]]
    if k == "unop":
        return [rv["o"]]
    if k == "aggr":
        return [o for o in rv["ops"] if isinstance(o, dict)]
    return []


def _may_fail(P, g, depth=2, _seen=None):
    """the function can produce an Err / None of its own: it builds one, or passes one on with `?`"""
    _seen = _seen or set()
    if g.key in _seen:
        return False
    _seen = _seen | {g.key}
    for i, st in g.stmts():
        if st["k"] == "assign" and st["rv"]["k"] == "aggr" and st["rv"].get("variant") == "Err" and (st["rv"].get("adt") or "").endswith("result::Result"):
            return True
    for c in g.calls:
        if short(c.name).endswith("::from_residual"):
            return True
        if re.search(r"Option::(ok_or|ok_or_else)$|Result::(map_err|and_then)$", short(c.name)):
            # `.ok_or(InternalError)` after an insert is a defensive conversion of a lookup that cannot miss
            if len(c.args) > 1 and "InternalError" in json.dumps([o_ for o_ in [c.args[1]]]) + "".join(
                    json.dumps(st_["rv"]) for i_, st_ in g.stmts() if st_["k"] == "assign" and c.args[1].get("k") in ("copy", "move")
                    and st_["pl"]["l"] == c.args[1]["pl"]["l"]):
                continue
            return True
    for ch in P.children.get(g.key, []):
        if _may_fail(P, ch, depth, _seen):
            return True
    return False


def _loop_body_check(f, entry_call, callees_allowed):
    """the iterator created by entry_call is advanced by a `next` in a loop header; every call in
    that loop body must not be an order-sensitive accumulator, and local callees must be listed"""
    bad = []
    loops = f.loops()
    nexts = [c for c in f.calls if HASH_ITER_NEXT.match(c.name)]
    if not nexts:
        return [(entry_call.loc(), "iterator is not consumed by a loop in this function")]
    found = False
    for nx in nexts:
        # the loop whose body contains the next call: innermost loop containing nx.bb
        cands = [(h, body) for h, body in loops.items() if nx.bb in body]
        if not cands:
            bad.append((nx.loc(), "hash iterator advanced outside a loop"))
            continue
        h, body = min(cands, key=lambda x: len(x[1]))
        found = True
        for c in f.calls:
            if c.bb in body:
                n = c.name
                if ORDER_SENSITIVE.search(n):
                    bad.append((c.loc(), "call to %s" % short(n)))
                k = c.func.get("res_key") if c.func.get("res_local") else None
                if c.func.get("res_local") or c.func.get("local"):
                    sp = short(c.name)
                    if c.func.get("res_impl_derived"):
                        continue  # derived Clone/PartialEq/... on a local type: pure
                    if sp not in callees_allowed:
                        # a read-only accessor (`&self` in, a reference / copy of a part out; it calls nothing but indexing / deref and
                        # writes nothing through its arguments) has no effect an iteration order could be observed through
                        P_ = f.prog
                        tg = [P_.fns.get(k2) for k2 in P_.callee_keys(f, c)]
                        pure = bool(tg) and all(
                            g_ is not None and not g_.loops() and
                            all(re.search(r"Index<.*>>::index$|Deref>::deref$|::as_slice$|::as_str$|::len$|::is_empty$|Clone>::clone$", short(x.name)) for x in g_.calls) and
                            not any(st_["k"] == "assign" and "*" in st_["pl"]["p"] for _, st_ in g_.stmts()) and
                            not any(g_.local_ty(a_).startswith("&mut") for a_ in range(1, g_.arg_count + 1))
                            for g_ in tg)
                        if pure:
                            continue
                        bad.append((c.loc(), "unlisted local callee %s" % sp))
        # an error exit out of the loop (`?` on a call that can really fail) is order-sensitive: with two failing elements the error that
        # is reported is the one the hash order visits first.  A `?` on a local callee that constructs no Err and propagates none
        # (it returns ExecutionResult only to fit a signature) is not an exit.
        P_ = f.prog
        for c in f.calls:
            if c.bb not in body or not short(c.name).endswith("Try>::branch") or not c.args:
                continue
            srcs = [o.call for o in F.origins(f, c.args[0], depth=6, through_calls=False) if o.kind == "call"]
            for sc in srcs:
                keys_ = P_.callee_keys(f, sc)
                if not keys_:
                    continue      # non-local fallible calls are listed / judged by ORDER_SENSITIVE above
                for k_ in keys_:
                    gk = P_.fns[k_]
                    # a callee that takes a closure fails exactly when that closure does: judged at the call site's closure only
                    clos_params = [i_ for i_ in range(1, gk.arg_count + 1) if re.fullmatch(r"[A-Z]\w{0,3}", gk.local_ty(i_)) or gk.local_ty(i_).startswith("{closure") or gk.local_ty(i_).startswith("impl ")]
                    if clos_params:
                        passed = [P_.fns.get(ck) for ck in (sc.func.get("closure_args") or [])]
                        if passed and all(pf is not None and not _may_fail(P_, pf) for pf in passed):
                            continue
                    if _may_fail(P_, gk):
                        bad.append((sc.loc(), "error exit: %s can return Err, so which element's error ends the loop depends on the hash order"
                                    % short(sc.name).split("::")[-1]))
    if not found:
        bad.append((entry_call.loc(), "no loop found"))
    return bad
