"""C03 — SELECT/WHERE: one output row per qualifying row, evaluated on that row alone."""
import re
from .prog import short, place_fields
from . import flow as F
from . import pathrules as PR
from . import arms as A
from . import rules_sites
from .rules_c17 import count_range

EVAL = "sqlgrep::execution::expression_execution::ExpressionExecutionEngine::evaluate"
SEL = "sqlgrep::execution::select_execution::SelectExecutionEngine::execute"
V = "sqlgrep::model::Value"
CMP_DIRECT = {"Equal": r"PartialEq(<[^>]*>)?( for &A)?>?::eq$", "NotEqual": r"PartialEq(<[^>]*>)?( for &A)?>?::ne$",
              "GreaterThan": r"PartialOrd(<[^>]*>)?( for &A)?>?::gt$", "GreaterThanOrEqual": r"PartialOrd(<[^>]*>)?( for &A)?>?::ge$",
              "LessThan": r"PartialOrd(<[^>]*>)?( for &A)?>?::lt$", "LessThanOrEqual": r"PartialOrd(<[^>]*>)?( for &A)?>?::le$"}
# spelling through one Ordering: (method, constant) accepted per operator
CMP_ORDERING = {"Equal": {("eq", "Equal"), ("is_eq", None)}, "NotEqual": {("ne", "Equal"), ("is_ne", None)},
                "GreaterThan": {("eq", "Greater"), ("is_gt", None)}, "GreaterThanOrEqual": {("ne", "Less"), ("is_ge", None)},
                "LessThan": {("eq", "Less"), ("is_lt", None)}, "LessThanOrEqual": {("ne", "Greater"), ("is_le", None)}}
INT_OPS = {"Add": "checked_add", "Subtract": "checked_sub", "Multiply": "checked_mul", "Divide": "checked_div"}
FLOAT_OPS = {"Add": "Add", "Subtract": "Sub", "Multiply": "Mul", "Divide": "Div"}


def _operand_side(f, op):
    """which sub-expression field (left/right/operand) an operand's value was evaluated from"""
    sides = set()
    for o in F.origins(f, op, depth=48):
        if o.kind == "call" and short(o.call.name) == EVAL and len(o.call.args) > 1:
            for o2 in F.origins(f, o.call.args[1], depth=8, through_calls=True):
                if o2.place is not None and isinstance(o2.place, dict) and "p" in o2.place:
                    for fld in place_fields(o2.place):
                        if fld in ("left", "right", "operand"):
                            sides.add(fld)
    return sides


def _descendants(P, f):
    out = []
    st = list(P.children.get(f.key, []))
    while st:
        ch = st.pop()
        out.append(ch)
        st.extend(P.children.get(ch.key, []))
    return out


def _index_chain(P, g, op, depth=6, _seen=None):
    """(callee name | binop:<op>, constant second operand) of every computation on the provenance of an index operand; a closure parameter is
    followed to the receiver of the combinator call (and_then / map / ...) that the closure is passed to"""
    _seen = _seen if _seen is not None else set()
    out = []
    for o in F.origins(g, op, depth=12):
        if o.kind == "call":
            c = o.call
            if id(c) in _seen:
                continue
            _seen.add(id(c))
            const = None
            if len(c.args) > 1 and c.args[1]["k"] == "const":
                const = c.args[1].get("int")
            out.append((short(c.name), const))
            if not F.TRANSPARENT.search(short(c.name)) and depth > 0:
                for a in c.args[:1]:
                    out += _index_chain(P, g, a, depth - 1, _seen)
        elif o.kind == "binop":
            out.append(("binop:" + o.extra, None))
        elif o.kind == "arg" and g.kind == "Closure" and o.arg >= 2 and depth > 0:
            owner = g
            hosts = []
            while owner.kind == "Closure" and owner.parent_key in P.fns:
                owner = P.fns[owner.parent_key]
            for h in [owner] + _descendants(P, owner):
                for c in h.calls:
                    raw_key = g.key[4:] if g.key.startswith("bin/") else g.key
                    if raw_key in (c.func.get("closure_args") or []) and id(c) not in _seen:
                        _seen.add(id(c))
                        out.append((short(c.name), None))
                        if c.args:
                            out += _index_chain(P, h, c.args[0], depth - 1, _seen)
    return out


EVAL_KEEP = (r"^sqlgrep::model::|^sqlgrep::data_model::|ColumnProvider|^sqlgrep::execution::(column_providers|helpers)::|"
             r"^sqlgrep::execution::expression_execution::unique_values$")


def _case_select_form(f, reg, nx, evs):
    """`let mut sel = else_clause; for (c, r) in clauses { if eval(c).bool() { sel = r; break } } eval(sel)`: the same choice, made before the
    one evaluation.  Decided from the definitions of `sel`: the ELSE definition precedes the loop, the THEN definition sits on the true edge
    of the condition and leaves the loop, and the evaluation follows the loop."""
    lp = PR.loop_of(f, nx.bb)
    bools = [c for c in f.calls if c.bb in reg and short(c.name) == V + "::bool"]
    if lp is None or len(bools) != 1:
        return False
    cond_ev = [c for c in evs if any(o.kind == "call" and o.call is c for o in F.origins(f, bools[0].args[0], depth=12))]
    val_ev = [c for c in evs if c not in cond_ev]
    g3 = PR.bool_guard(f, bools[0])
    gn = PR.discr_guard(f, nx, "Some")
    if len(cond_ev) != 1 or cond_ev[0].bb not in lp[1] or len(val_ev) != 1 or g3 is None or gn is None or val_ev[0].bb in lp[1]:
        return False
    e = val_ev[0]
    # the local that holds the chosen tree
    root = e.args[1] if len(e.args) > 1 else None
    seen = 0
    while root is not None and root.get("k") in ("copy", "move") and seen < 6:
        seen += 1
        l = root["pl"]["l"]
        defs = [(b, st) for (b, st) in F._assign_defs(f).get(l, []) if not st["pl"]["p"]]
        if len(defs) == 1 and defs[0][1]["rv"]["k"] == "use":
            root = defs[0][1]["rv"]["op"]
            continue
        if len(defs) == 1 and defs[0][1]["rv"]["k"] in ("ref", "copy_for_deref") and defs[0][1]["rv"]["pl"]["p"] == ["*"]:
            root = {"k": "copy", "pl": {"l": defs[0][1]["rv"]["pl"]["l"], "p": []}}
            continue
        break
    if root is None or root.get("k") not in ("copy", "move"):
        return False
    defs = [(b, st) for (b, st) in F._assign_defs(f).get(root["pl"]["l"], []) if not st["pl"]["p"]]
    if len(defs) != 2:
        return False
    kinds = {}
    for b, st in defs:
        rv = st["rv"]
        src = rv.get("op") or rv.get("pl")
        os_ = F.origins(f, src, depth=10) if src is not None else []
        if any(o.kind == "call" and o.call is nx for o in os_):
            kinds["then"] = b
        elif any(o.kind == "arg" for o in os_):
            kinds["else"] = b
    if set(kinds) != {"then", "else"}:
        return False
    bt, be = kinds["then"], kinds["else"]
    return PR.dominated_by_edge(f, bt, g3[0], g3[1]) and bt in lp[1] | f.reachable_from(g3[1]) and lp[0] not in f.reachable_from(bt) and \
        be not in lp[1] and f.dominates(be, lp[0]) and e.bb in f.reachable_from(bt) and \
        any(e.bb in f.reachable_from(nt) for nt in gn[2])


def run(R):
    # a row is evaluated on that row alone: the per-line entries keep no memo of earlier lines
    from . import rules_c06 as _c06
    _c06.line_memo_rule(R, "C03.memo")
    P = R.prog
    R.rule("C03.sites", "no unchecked arithmetic, narrowing cast or panicking call on evaluated data (site inventory rooted at evaluate)")
    rules_sites.ROOTS["EVAL"] = [EVAL]
    rules_sites.run_inventory(R, "C03.sites", "EVAL", R.rules["C03.sites"]["desc"])
    R.rule("C03.exhaustive", "evaluate matches every ExpressionTree variant explicitly (no wildcard arm swallowing a node kind)")
    R.rule("C03.cmp", "CompareOperator -> comparison primitive table: =, !=, >, >=, <, <= map to the like-named comparison of (left, right)")
    R.rule("C03.null", "comparisons are guarded by NULL tests of both operands (false on NULL); IN / NOT IN test NULL before comparing")
    R.rule("C03.arith", "ArithmeticOperator -> checked integer primitive / float operator table in the arithmetic closures")
    R.rule("C03.bool", "AND / OR evaluate the right operand only behind the left operand's truth value (two-valued short circuit)")
    R.rule("C03.project", "`*` expands through ColumnProvider::keys (definition order); one value is pushed per projection; one row per call")
    # evaluate with its small local helpers inlined (e.g. a `compare_values(op, l, r)` extracted from the Compare arm)
    f = PR.view(P, R.need_fn(EVAL), keep=EVAL_KEEP)
    # ---- exhaustive top-level match
    top = [sw for sw in A.enum_switches(f, "model::ExpressionTree") if f.dominates(sw, sw)]
    if not top:
        R.violation("C03.exhaustive", "evaluate|no-match", "evaluate does not match on the expression node", [f.loc()])
        return
    sw0 = top[0]
    arms_, wild, rest = A.arms(f, sw0)
    if wild:
        R.violation("C03.exhaustive", "evaluate|wildcard", "evaluate has a wildcard arm covering %s" % rest, [f.loc(sw0)])
    else:
        R.ok("C03.exhaustive", "evaluate", "%d explicit arms" % len(arms_), f.loc(sw0))
    # ---- Compare arm
    if "Compare" not in arms_:
        R.violation("C03.cmp", "evaluate|no-compare-arm", "no Compare arm", [f.loc()])
    else:
        creg = arms_["Compare"][1]
        csw = [sw for sw in A.enum_switches(f, "model::CompareOperator") if sw in creg]
        if not csw:
            R.violation("C03.cmp", "compare|no-operator-match", "the Compare arm does not dispatch on the operator", [f.loc(arms_["Compare"][0])])
        else:
            oarms, owild, orest = A.arms(f, csw[0])
            if owild:
                R.violation("C03.cmp", "compare|wildcard", "wildcard over comparison operators %s" % orest, [f.loc(csw[0])])
            ordering_calls = [c for c in f.calls if c.bb in creg and re.search(r"(^|::)(Ord::cmp|PartialOrd::partial_cmp)$|as core::cmp::Ord>::cmp$", short(c.name))
                              and (c.targs[:1] == [V] or (c.func.get("res_targs") or [None])[0] == V)]
            for op, rx in CMP_DIRECT.items():
                if op not in oarms:
                    R.violation("C03.cmp", "compare|" + op, "no arm for %s" % op, [f.loc(csw[0])])
                    continue
                reg = oarms[op][1]
                cs = [c for c in f.calls if c.bb in reg]
                direct = [c for c in cs if re.search(rx, short(c.name)) and (c.targs[:1] == [V] or V in "".join(c.func.get("res_targs") or c.targs))]
                if direct:
                    c = direct[0]
                    ls, rs = _operand_side(f, c.args[0]), _operand_side(f, c.args[1])
                    if ls == {"left"} and rs == {"right"}:
                        R.ok("C03.cmp", "compare|" + op, "%s(left, right)" % short(c.name).split("::")[-1], c.loc())
                    else:
                        R.violation("C03.cmp", "compare|%s|operands" % op, "%s compares (%s, %s) instead of (left, right)"
                                    % (op, sorted(ls), sorted(rs)), [c.loc()])
                    continue
                # spelling through an Ordering computed once
                found = set()
                for c in cs:
                    sn = short(c.name)
                    m = re.search(r"Ordering::(is_eq|is_ne|is_lt|is_le|is_gt|is_ge)$", sn)
                    if m:
                        found.add((m.group(1), None))
                    m = re.search(r"PartialEq>?::(eq|ne)$", sn)
                    if m and (c.func.get("res_targs") or c.targs)[:1] == ["core::cmp::Ordering"]:
                        const = None
                        for a in c.args:
                            for o in F.origins(f, a, depth=4, through_calls=False):
                                if o.kind == "const":
                                    mm = re.search(r"(Less|Equal|Greater)", o.const.get("v", ""))
                                    if mm:
                                        const = mm.group(1)
                                    elif "promoted" in o.const and o.const["promoted"] < len(f.promoted):
                                        for pb in f.promoted[o.const["promoted"]]["blocks"]:
                                            for ps in pb["stmts"]:
                                                if ps["k"] == "assign" and ps["rv"]["k"] == "aggr" and (ps["rv"].get("adt") or "").endswith("cmp::Ordering"):
                                                    const = ps["rv"].get("variant")
                        # constants may be promoted: look at aggregates in the region
                        if const is None:
                            for i, s in f.stmts():
                                if i in reg and s["rv"]["k"] == "aggr" and (s["rv"].get("adt") or "").endswith("cmp::Ordering"):
                                    const = s["rv"].get("variant")
                        found.add((m.group(1), const))
                # the ordering discriminant may also be matched directly (ordering == Ordering::X lowers to a discriminant compare)
                for i, s in f.stmts():
                    if i in reg and s["rv"]["k"] == "binop" and s["rv"]["op"] in ("Eq", "Ne"):
                        for side in (s["rv"]["l"], s["rv"]["r"]):
                            if side["k"] == "const" and "int" in side:
                                found.add(({"Eq": "eq", "Ne": "ne"}[s["rv"]["op"]], {-1: "Less", 0: "Equal", 1: "Greater"}.get(side["int"])))
                if ordering_calls and found & CMP_ORDERING[op]:
                    oc = ordering_calls[0]
                    ls, rs = _operand_side(f, oc.args[0]), _operand_side(f, oc.args[1])
                    if ls == {"left"} and rs == {"right"}:
                        R.ok("C03.cmp", "compare|" + op, "via cmp(left, right): %s" % sorted(found & CMP_ORDERING[op]), oc.loc())
                    else:
                        R.violation("C03.cmp", "compare|%s|operands" % op, "cmp compares (%s, %s) instead of (left, right)" % (sorted(ls), sorted(rs)),
                                    [oc.loc()])
                else:
                    R.violation("C03.cmp", "compare|" + op,
                                "operator %s is not evaluated by the like-named comparison of the two operands (calls in its arm: %s%s)"
                                % (op, [short(c.name).split("::")[-1] for c in cs][:5], ", ordering tests %s" % sorted(found) if found else ""),
                                [f.loc(oarms[op][0])])
            # NULL guards of the Compare arm
            isn = [c for c in f.calls if c.bb in creg and short(c.name) == V + "::is_null"]
            guards = []
            for c in isn:
                g = PR.bool_guard(f, c)
                if g and f.dominates(g[2], csw[0]):
                    guards.append(_operand_side(f, c.args[0]))
            sides = set().union(*guards) if guards else set()
            if {"left", "right"} <= sides:
                R.ok("C03.null", "compare", "operator dispatch dominated by !left.is_null() && !right.is_null()", f.loc(csw[0]))
            else:
                R.violation("C03.null", "compare", "the comparison is not guarded by NULL tests of both operands (guarded: %s): a comparison with "
                                                   "NULL could be true" % sorted(sides), [f.loc(csw[0])])
    # ---- In arm
    if "In" in arms_:
        ireg = arms_["In"][1]
        eqs = [c for c in f.calls if c.bb in ireg and re.search(r"PartialEq>?::(eq|ne)$", short(c.name)) and c.targs[:1] == [V]]
        isn = [c for c in f.calls if c.bb in ireg and short(c.name) == V + "::is_null"]
        ok = bool(eqs)
        for e in eqs:
            doms = 0
            for c in isn:
                g = PR.bool_guard(f, c)
                if g and f.dominates(g[2], e.bb):
                    doms += 1
            if doms < 2:
                ok = False
        # a comparison of values inside a closure made in this arm (`values.iter().any(|v| v == &operand)`) has no NULL test in front of it
        hidden = []
        for i_, st_ in f.stmts():
            if i_ in ireg and st_["k"] == "assign" and st_["rv"]["k"] == "aggr" and st_["rv"].get("ak") == "closure":
                ch = P.fns.get(st_["rv"].get("closure")) or next((g for g in P.children.get(getattr(f, "key", None), []) if g.key.endswith(str(st_["rv"].get("closure")))), None)
                if ch is None:
                    continue
                for c in ch.calls:
                    if re.search(r"PartialEq(<.*>)?>?::(eq|ne)$", short(c.name)) and any(V in t for t in (c.func.get("res_targs") or c.targs or [])[:1]) and \
                            not [x for x in ch.calls if short(x.name) == V + "::is_null"]:
                        hidden.append(c)
        if hidden:
            ok = False
        if ok:
            R.ok("C03.null", "in", "the element comparison is dominated by NULL tests of the operand and of the element", eqs[0].loc())
        else:
            R.violation("C03.null", "in", "IN / NOT IN compare without testing both the operand and the list element for NULL: `NULL NOT IN (..)` "
                                          "would be true", [f.loc(arms_["In"][0])])
    else:
        R.violation("C03.null", "in|no-arm", "no In arm", [f.loc()])
    # ---- arithmetic closures
    if "Arithmetic" in arms_:
        areg = arms_["Arithmetic"][1]
        # closures constructed in the Arithmetic arm
        clos = []
        for i, s in f.stmts():
            if i in areg and s["k"] == "assign" and s["rv"]["k"] == "aggr" and s["rv"].get("ak") == "closure":
                ck = s["rv"]["closure"]
                g = P.fns.get(ck)
                if g:
                    clos.append(g)
        # ... and what those closures (or the arm itself) hand the operator to: a helper such as `checked_int_arithmetic(op, x, y)`
        seen_k = set(g.key for g in clos)
        frontier = list(clos)
        arm_calls = [c for c in f.calls if c.bb in areg]
        for c in arm_calls:
            for k2 in P.callee_keys(f, c):
                g2 = P.fns[k2]
                if g2.file == f.file and g2.key != f.key and k2 not in seen_k and not g2.derived:
                    seen_k.add(k2)
                    clos.append(g2)
                    frontier.append(g2)
        for _ in range(2):
            nxt = []
            for g in frontier:
                for c in g.calls:
                    for k2 in P.callee_keys(g, c):
                        g2 = P.fns[k2]
                        if g2.file == f.file and g2.key != f.key and k2 not in seen_k and not g2.derived:
                            seen_k.add(k2)
                            clos.append(g2)
                            nxt.append(g2)
                for g2 in P.children.get(g.key, []):
                    if g2.key not in seen_k:
                        seen_k.add(g2.key)
                        clos.append(g2)
                        nxt.append(g2)
            frontier = nxt
        int_ok = float_ok = False
        for g in clos:
            sws = A.enum_switches(g, "model::ArithmeticOperator")
            if not sws:
                continue
            garms, gw, grest = A.arms(g, sws[0])
            sig = [l["ty"] for l in g.locals[1:g.arg_count + 1]]
            if "i64" in sig and len(garms) >= 4 and set(INT_OPS) <= set(garms):
                good = all(any(short(c.name).endswith("<impl i64>::" + INT_OPS[vn]) for c in g.calls if c.bb in garms[vn][1]) for vn in INT_OPS if vn in garms)
                raw = [s for i, s in g.stmts() if s["rv"]["k"] == "binop" and s["rv"]["op"].split("With")[0] in ("Add", "Sub", "Mul", "Div", "Rem")
                       and s["rv"].get("lty") == "i64"]
                # (an operator added later has its own arm; `raw` covers it too: no unchecked integer operator anywhere in the closure)
                if good and not raw:
                    int_ok = True
                    R.ok("C03.arith", "int", "Add/Subtract/Multiply/Divide -> checked_add/sub/mul/div", g.loc())
                else:
                    R.violation("C03.arith", "int", "the INT arithmetic closure does not map each operator to its checked primitive "
                                                    "(raw integer operators: %d)" % len(raw), [g.loc()])
                    int_ok = True
            if "f64" in sig and len(garms) >= 4 and set(FLOAT_OPS) <= set(garms):
                good = True
                for vn, opn in FLOAT_OPS.items():
                    ops = [s["rv"]["op"] for i, s in g.stmts() if i in garms.get(vn, (None, set()))[1] and s["rv"]["k"] == "binop" and s["rv"].get("lty") == "f64"]
                    if ops != [opn]:
                        good = False
                if good:
                    float_ok = True
                    R.ok("C03.arith", "float", "Add/Subtract/Multiply/Divide -> + - * /", g.loc())
                else:
                    R.violation("C03.arith", "float", "the REAL arithmetic closure does not map each operator to the like-named float operator",
                                [g.loc()])
                    float_ok = True
        if not int_ok:
            R.violation("C03.arith", "int|missing", "no INT arithmetic closure dispatching on ArithmeticOperator found", [f.loc(arms_["Arithmetic"][0])])
        if not float_ok:
            R.violation("C03.arith", "float|missing", "no REAL arithmetic closure dispatching on ArithmeticOperator found", [f.loc(arms_["Arithmetic"][0])])
    # ---- boolean short circuit
    if "BooleanOperation" in arms_:
        breg = arms_["BooleanOperation"][1]
        bsw = [sw for sw in A.enum_switches(f, "model::BooleanOperator") if sw in breg]
        if bsw:
            barms, _, _ = A.arms(f, bsw[0])
            for vn, want_edge in (("And", True), ("Or", False)):
                if vn not in barms:
                    R.violation("C03.bool", vn, "no arm for %s" % vn, [f.loc(bsw[0])])
                    continue
                reg = barms[vn][1]
                evs = [c for c in f.calls if c.bb in reg and short(c.name) == EVAL]
                bools = [c for c in f.calls if c.bb in reg and short(c.name) == V + "::bool"]
                lefts = [c for c in evs if "left" in _operand_side_arg(f, c)]
                rights = [c for c in evs if "right" in _operand_side_arg(f, c)]
                ok = len(lefts) == 1 and len(rights) == 1 and len(bools) == 2
                if ok:
                    # the bool() of the left value guards the right evaluation
                    lb = [b for b in bools if any(o.kind == "call" and o.call is lefts[0] for o in F.origins(f, b.args[0], depth=12))]
                    g = PR.bool_guard(f, lb[0]) if lb else None
                    ok = g is not None and PR.dominated_by_edge(f, rights[0].bb, g[0], g[1] if want_edge else g[2])
                if ok:
                    R.ok("C03.bool", vn, "right operand evaluated only when left is %s" % ("true" if want_edge else "false"), rights[0].loc())
                else:
                    R.violation("C03.bool", vn, "%s is not `left.bool() %s right.bool()` with short circuit on the left value"
                                % (vn.upper(), "&&" if want_edge else "||"), [f.loc(barms[vn][0])])
        else:
            R.violation("C03.bool", "no-match", "BooleanOperation arm does not dispatch on the operator", [f.loc(arms_["BooleanOperation"][0])])
    # ---- lowering: each parsed node becomes the like-named engine node (no rewriting that assumes three-valued logic)
    R.rule("C03.lower", "the converter maps every parsed operator to the like-named engine operator and NOT to a plain Invert node: "
                        "no algebraic rewriting (e.g. NOT (a = b) -> a != b, which differs on NULL in this engine)")
    tf = R.need_fn("sqlgrep::parsing::parser_tree_converter::transform_expression")
    tsw = [sw for sw in A.enum_switches(tf, "parser::ParserExpressionTreeData") if tf.dominates(sw, sw)]
    if not tsw:
        R.violation("C03.lower", "transform_expression|no-match", "transform_expression does not match on the parsed node", [tf.loc()])
    else:
        tarms, twild, trest = A.arms(tf, tsw[0])

        def built(reg, adt_suffix):
            return [s_["rv"].get("variant") for i, s_ in tf.stmts() if i in reg and s_["k"] == "assign" and s_["rv"]["k"] == "aggr" and
                    (s_["rv"].get("adt") or "").endswith(adt_suffix)]
        if "Invert" in tarms:
            reg = tarms["Invert"][1]
            nodes = set(built(reg, "model::ExpressionTree"))
            ops = set(built(reg, "model::UnaryArithmeticOperator"))
            cmpops = set(built(reg, "model::CompareOperator"))
            if nodes == {"UnaryArithmetic"} and ops == {"Invert"} and not cmpops:
                R.ok("C03.lower", "transform_expression|Invert", "NOT e -> UnaryArithmetic{Invert, e}", tf.loc(tarms["Invert"][0]))
            else:
                R.violation("C03.lower", "transform_expression|Invert",
                            "the NOT arm of the converter builds %s / %s %s instead of a plain Invert node: NOT over a comparison with a NULL operand "
                            "changes value (comparison with NULL is false, NOT is two-valued)" % (sorted(nodes), sorted(ops), sorted(cmpops)),
                            [tf.loc(tarms["Invert"][0])])
        else:
            R.violation("C03.lower", "transform_expression|Invert|missing", "no Invert arm in the converter", [tf.loc()])
        if "BinaryOperator" in tarms:
            reg = tarms["BinaryOperator"][1]
            want = {43: "Add", 45: "Subtract", 42: "Multiply", 47: "Divide", 60: "LessThan", 62: "GreaterThan", 61: "Equal",
                    (33, 61): "NotEqual", (62, 61): "GreaterThanOrEqual", (60, 61): "LessThanOrEqual"}
            got = {}
            for i, s_ in tf.stmts():
                if i in reg and s_["k"] == "assign" and s_["rv"]["k"] == "aggr" and \
                        ((s_["rv"].get("adt") or "").endswith("model::ArithmeticOperator") or (s_["rv"].get("adt") or "").endswith("model::CompareOperator")):
                    chars = []
                    for gsw, lab, tgt in F.guards_dominating(tf, i):
                        t_ = tf.blocks[gsw]["term"]
                        d_ = t_["discr"]
                        if d_.get("ty") == "char" and lab not in ("otherwise",):
                            try:
                                chars.append(int(lab))
                            except ValueError:
                                pass
                    chars = list(reversed(chars))
                    key_ = chars[0] if len(chars) == 1 else tuple(chars[:2])
                    got[key_] = s_["rv"].get("variant")
            # an operator added later (a new literal mapped to a new engine operator) does not touch the meaning of the ten known ones
            extra = {k: v for k, v in got.items() if k not in want}
            if all(got.get(k) == v for k, v in want.items()) and not (set(extra.values()) & set(want.values())):
                R.ok("C03.lower", "transform_expression|BinaryOperator", "10 operator literals map to the like-named operators%s"
                     % (" (+ %d new: %s)" % (len(extra), sorted(extra.values())) if extra else ""), tf.loc(tarms["BinaryOperator"][0]))
            else:
                diff = {str(k): (got.get(k), want.get(k)) for k in set(got) | set(want) if got.get(k) != want.get(k)}
                R.violation("C03.lower", "transform_expression|BinaryOperator",
                            "operator literal -> engine operator table deviates (got, expected): %s" % diff, [tf.loc(tarms["BinaryOperator"][0])])
    # ---- casts: the text handed to ValueType::parse is the operand's own text
    R.rule("C03.cast", "a cast of a text value parses the operand's text itself: the string given to ValueType::parse in evaluate is, by "
                       "backward provenance, the String payload of the evaluated operand with no string-transforming call in between")
    pcs = [c for c in f.calls if short(c.name) == "sqlgrep::model::ValueType::parse"]
    if "TypeConversion" in arms_:
        treg = arms_["TypeConversion"][1]
        pcs_arm = [c for c in pcs if c.bb in treg]
        if not pcs_arm:
            R.note("C03.cast: no ValueType::parse call in the TypeConversion arm (text casts are implemented differently); rule not instantiated")
        for c in pcs_arm:
            leaves = F.origins(f, c.args[1], depth=16) if len(c.args) > 1 else []
            mods = sorted(set(short(o.call.name) for o in leaves if o.kind == "call" and not F.TRANSPARENT.search(short(o.call.name))
                              and short(o.call.name) != EVAL and not re.search(r"ColumnProvider", short(o.call.name))))
            other = [o for o in leaves if o.kind in ("binop", "unop", "cast", "const")]
            if mods or other:
                R.violation("C03.cast", "evaluate|parse-arg", "the text a cast parses is not the operand's own text: it passes through %s - "
                            "`x::text` would no longer be the identity on text and padded / altered text would convert"
                            % (", ".join(mods) or [o.kind for o in other]), [c.loc()])
            else:
                R.ok("C03.cast", "evaluate|parse-arg", "parse(<payload of the evaluated operand>, unmodified)", c.loc())
    # ---- an unknown column is an error, never a NULL
    R.rule("C03.column", "what ColumnProvider::get returns for a column the row does not have (None) is turned into an error: no caller "
                         "in the execution engines replaces it by a default (map_or / unwrap_or / is_none ..) - `unknown_col IS NULL` must "
                         "report the unknown column, not answer true")
    BADC = re.compile(r"^core::option::Option::(map_or|map_or_else|unwrap_or|unwrap_or_default|unwrap_or_else|is_none|is_some|is_some_and|is_none_or|or|or_else|xor)$")
    PASSC = re.compile(r"^core::option::Option::(map|as_ref|cloned|copied|as_deref|filter|and_then|inspect)$")
    n_get = 0
    for g0 in sorted(P.fns.values(), key=lambda g_: g_.key):
        if g0.target != "lib" or g0.derived or not g0.spath.startswith("sqlgrep::execution"):
            continue
        owner0 = PR.pinned_owner(P, g0)
        if owner0.spath.endswith("ColumnProvider::exist") or owner0.spath.startswith("sqlgrep::execution::column_providers::"):
            continue      # the existence test itself, and providers delegating to one another
        for c in g0.calls:
            if not (c.func.get("trait") == "sqlgrep::execution::ColumnProvider" and c.func.get("trait_method") == "get"):
                continue
            n_get += 1
            frontier, bad_use, hops = [c], None, 0
            while frontier and hops < 4 and bad_use is None:
                hops += 1
                nxt_ = []
                for src in frontier:
                    for c2 in g0.calls:
                        if c2 is src or not c2.args or c2.args[0].get("k") not in ("copy", "move"):
                            continue
                        if not any(o.kind == "call" and o.call is src for o in F.origins(g0, c2.args[0], depth=4, through_calls=False)):
                            continue
                        if BADC.search(short(c2.name)):
                            bad_use = c2
                        elif PASSC.search(short(c2.name)):
                            nxt_.append(c2)
                frontier = nxt_
            if bad_use is not None:
                R.violation("C03.column", "%s|defaulted" % owner0.spath.split("::")[-1],
                            "%s answers a missing column (ColumnProvider::get == None) with %s instead of an error: an expression over an "
                            "unknown column gets a value (e.g. `unknown IS NULL` is true on every row) where the query must report the column"
                            % (g0.path, short(bad_use.name).split("::")[-1]), [bad_use.loc()])
            else:
                R.ok("C03.column", "%s|get@%d" % (owner0.spath.split("::")[-1], n_get), "None is not defaulted", c.loc(), nontrivial=False)
    if n_get == 0:
        R.note("C03.column: no ColumnProvider::get call found in the execution engines")
    # ---- literals reach the engine as written
    R.rule("C03.literal", "the converter hands every literal to the engine as it was written: an ExpressionTree::Value built in "
                          "parser_tree_converter wraps the parse tree's own value, no function (type guessing, parsing, folding) in between")
    n_lit = 0
    for g0 in sorted(P.fns.values(), key=lambda g_: g_.key):
        if g0.target != "lib" or g0.kind == "Closure" or g0.derived or not g0.spath.startswith("sqlgrep::parsing::parser_tree_converter::") \
                or (PR.pinned_fns() and g0.spath not in PR.pinned_fns()):
            continue
        gv = PR.view(P, g0)
        for i_, st in gv.stmts():
            if not (st["k"] == "assign" and st["rv"]["k"] == "aggr" and (st["rv"].get("adt") or "").endswith("model::ExpressionTree")
                    and st["rv"].get("variant") == "Value" and st["rv"]["ops"]):
                continue
            n_lit += 1
            os_ = F.origins(gv, st["rv"]["ops"][0], depth=16, through_calls=False)
            made = [o for o in os_ if o.kind in ("call", "aggr", "const", "cast", "binop")]
            if made or not os_:
                what = short(made[0].call.name) if made and made[0].kind == "call" else (made[0].kind if made else "nothing")
                R.violation("C03.literal", "%s|computed-literal" % g0.spath.split("::")[-1],
                            "%s builds an ExpressionTree::Value from %s instead of the literal the statement contains: the literal's type / "
                            "value is decided before the row (and the other operand) is known, so e.g. a text column is no longer compared "
                            "with a text literal by code point" % (g0.path, what), ["%s:%d" % (gv.file, st["line"])])
            else:
                R.ok("C03.literal", "%s|value" % g0.spath.split("::")[-1], "Value(v) = the parse tree's v", "%s:%d" % (gv.file, st["line"]), nontrivial=False)
    if n_lit == 0:
        R.note("C03.literal: no ExpressionTree::Value construction found in the converter")
    # ---- CASE takes the first true branch; array subscripts are 1-based
    R.rule("C03.case", "CASE evaluates its WHEN clauses in order and returns the THEN value of the first true one, else the ELSE value")
    R.rule("C03.subscript", "array subscripts are 1-based: the element index is the subscript minus the constant 1 (checked), looked up with get()")
    if "Case" in arms_:
        creg2 = arms_["Case"][1]
        nx = [c for c in f.calls if c.bb in creg2 and short(c.name).endswith("slice::iter::Iter<'a, T> as core::iter::traits::iterator::Iterator>::next")]
        rev = [c for c in f.calls if c.bb in creg2 and re.search(r"Iterator::(rev|skip|step_by|filter|take)$|::(sort|reverse)", short(c.name))]
        evs = [c for c in f.calls if c.bb in creg2 and short(c.name) == EVAL]
        ok = len(nx) == 1 and not rev and len(evs) == 3
        if ok:
            lp = PR.loop_of(f, nx[0].bb)
            bools = [c for c in f.calls if c.bb in creg2 and short(c.name) == V + "::bool"]
            ok = lp is not None and len(bools) == 1
            if ok:
                cond_ev = [c for c in evs if any(o.kind == "call" and o.call is c for o in F.origins(f, bools[0].args[0], depth=12))]
                g3 = PR.bool_guard(f, bools[0])
                gn = PR.discr_guard(f, nx[0], "Some")
                ok = len(cond_ev) == 1 and cond_ev[0].bb in lp[1] and g3 is not None and gn is not None
                if ok:
                    res_ev = [c for c in evs if c not in cond_ev and PR.dominated_by_edge(f, c.bb, g3[0], g3[1])]
                    else_ev = [c for c in evs if c not in cond_ev and c not in res_ev]
                    none_reg = set()
                    for nt in gn[2]:
                        none_reg |= f.reachable_from(nt)
                    ok = len(res_ev) == 1 and lp[0] not in f.reachable_from(res_ev[0].bb) and \
                        len(else_ev) == 1 and else_ev[0].bb in none_reg and not PR.dominated_by_edge(f, else_ev[0].bb, g3[0], g3[1])
        if not ok and len(nx) == 1 and not rev and len(evs) == 2:
            ok = _case_select_form(f, creg2, nx[0], evs)
        if ok:
            R.ok("C03.case", "evaluate|Case", "clauses in order; first true condition returns its result; ELSE after the loop", nx[0].loc())
        else:
            R.violation("C03.case", "evaluate|Case", "the CASE arm is not `for (cond, result) in clauses { if cond { return result } } else_clause` over the "
                                                     "clauses in order", [f.loc(arms_["Case"][0])])
    if "ArrayElementAccess" in arms_:
        areg2 = arms_["ArrayElementAccess"][1]
        lines = [s_["line"] for i_, s_ in f.stmts() if i_ in areg2] + [f.blocks[b]["term"]["span"]["line"] for b in areg2]
        lo, hi = min(lines), max(lines)
        in_arm = [(f, c) for c in f.calls if c.bb in areg2]
        for ch in _descendants(P, f):
            if lo <= ch.line <= hi:
                in_arm += [(ch, c) for c in ch.calls]
        gets = [(g, c) for g, c in in_arm if short(c.name) == "core::slice::<impl [T]>::get"]
        raw_index = [(g, c) for g, c in in_arm if "Index<" in short(c.name) and "Value" in " ".join(c.func.get("res_targs") or c.targs)]
        if raw_index:
            R.violation("C03.subscript", "evaluate|ArrayElementAccess|raw-index", "an array element is read with `[]` (panics when out of range) "
                                                                                   "instead of get()", [raw_index[0][1].loc()])
        if not gets:
            R.violation("C03.subscript", "evaluate|ArrayElementAccess|no-get", "the subscript arm no longer looks the element up with get()",
                        [f.loc(arms_["ArrayElementAccess"][0])])
        for n_, (g, c) in enumerate(gets):
            names = _index_chain(P, g, c.args[1])
            sub1 = [x for x in names if x[0].endswith("::checked_sub") and x[1] == 1]
            banned = [x for x in names if re.search(r"::(saturating_\w+|wrapping_\w+|overflowing_\w+|clamp|max|min|abs|unsigned_abs|rem_euclid|"
                                                    r"unwrap_or|unwrap_or_default)$", x[0])]
            raw = [x for x in names if x[0] in ("binop:Sub", "binop:SubWithOverflow", "binop:Rem", "binop:Add", "binop:AddWithOverflow")]
            key = "evaluate|ArrayElementAccess" + ("" if n_ == 0 else "|get#%d" % (n_ + 1))
            if banned or raw:
                R.violation("C03.subscript", key + "|clamped",
                            "the element index is computed through %s: a subscript outside 1..len (e.g. 0) selects an element instead of "
                            "yielding NULL" % (banned or raw)[0][0], [c.loc()])
            elif not sub1:
                R.violation("C03.subscript", key + "|not-one-based", "the element index does not pass through checked_sub(1) (chain: %s): "
                                                                      "subscripts are 1-based" % [x[0].split("::")[-1] for x in names][:6], [c.loc()])
            else:
                R.ok("C03.subscript", key, "values.get(subscript.checked_sub(1)..)", c.loc())
    # ---- projection (select execute with its own helpers inlined; guards read as path facts)
    sf = PR.view(P, R.need_fn(SEL), keep=r"DistinctValues::|ExpressionExecutionEngine::|^sqlgrep::model::|^sqlgrep::data_model::|ColumnProvider")
    sfa = PR.facts(sf)
    keys = [c for c in sf.calls if c.func.get("trait") == "sqlgrep::execution::ColumnProvider" and c.func.get("trait_method") == "keys"]
    wild = [c for c in sf.calls if short(c.name).endswith("SelectStatement::is_wildcard_projection")]
    def under_wildcard_pattern(bb):
        """`match projections.as_slice() { [(_, ExpressionTree::Wildcard)] => .. }`: the test spelled as a pattern"""
        ws = sfa.worlds_at(bb)
        if not ws:
            return False
        for w in ws:
            if not any(sfa.atoms.get(k_, {}).get("kind") == "discr" and (sfa.atoms.get(k_, {}).get("adt") or "").endswith("model::ExpressionTree")
                       and v_ == "Wildcard" for k_, v_ in w):
                return False
        return True
    if keys and not wild and all(under_wildcard_pattern(k.bb) for k in keys):
        R.ok("C03.project", "wildcard", "`*` iterates ColumnProvider::keys() (under a `[(_, Wildcard)]` pattern)", keys[0].loc())
    elif keys and wild:
        under = all(any(call in wild and val is True for call, val in sfa.call_facts(k.bb)) for k in keys)
        if under:
            R.ok("C03.project", "wildcard", "`*` iterates ColumnProvider::keys()", keys[0].loc())
        else:
            R.violation("C03.project", "wildcard", "`*` is not expanded from ColumnProvider::keys() exactly under is_wildcard_projection()",
                        [keys[0].loc()])
    else:
        R.violation("C03.project", "wildcard|shape", "select execute: no keys() expansion under is_wildcard_projection()", [sf.loc()])
    pushes = [c for c in sf.calls if short(c.name) == "alloc::vec::Vec::push" and (c.func.get("res_targs") or c.targs)[:1] == [V]]
    okp = True
    for pc in pushes:
        lp = PR.loop_of(sf, pc.bb)
        if not lp:
            okp = False
            continue
        nxt = [c for c in sf.calls if c.bb in lp[1] and short(c.name).endswith("Iterator>::next")]
        if not nxt:
            okp = False
            continue
        g = PR.discr_guard(sf, nxt[0], "Some")
        r = count_range(sf, g[1], {lp[0]}, {pc.bb}) if g else None
        if r != (1, 1):
            okp = False
    # the same written with adapters: values collected from `projections.iter().map(|p| evaluate(p))` - one evaluate per element,
    # no filtering / limiting adapter in the iterator type
    collects = []
    for c in sf.calls:
        if re.search(r"Iterator::collect$|::from_iter$", short(c.name)):
            ty = " ".join(c.targs + (c.func.get("res_targs") or []))
            if V in ty and "core::slice::iter::Iter<" in ty and "adapters::map::Map<" in ty:
                bad_ad = re.search(r"adapters::(filter|filter_map|take|skip|step_by|take_while|skip_while|rev|chain|flatten|peekable)::", ty)
                evals = 0
                for ck in (c.func.get("closure_args") or []) + [k for c2 in sf.calls if c2.bb in sf.reach and id(c2) != id(c)
                                                                 for k in (c2.func.get("closure_args") or []) if "map" in short(c2.name)]:
                    cf = P.fns.get(ck)
                    if cf is not None:
                        evals = max(evals, len([1 for c3 in cf.calls if short(c3.name) == EVAL]))
                collects.append((c, bad_ad is None and evals == 1))
    if (pushes or collects) and okp and all(ok_ for _, ok_ in collects):
        R.ok("C03.project", "one-value-per-projection", "exactly one value per projection / column on every path (%d push loops, %d collects)"
             % (len(pushes), len(collects)), (pushes[0] if pushes else collects[0][0]).loc())
    else:
        R.violation("C03.project", "one-value-per-projection", "a projection can be skipped or emitted twice on some path", [sf.loc()])
    rows = [c for c in sf.calls if short(c.name) == "sqlgrep::data_model::Row::new"]
    if len(rows) == 1 and not PR.loop_of(sf, rows[0].bb):
        R.ok("C03.project", "one-row", "one Row per admitted input row", rows[0].loc())
    else:
        R.violation("C03.project", "one-row", "select execute builds %d rows per input row" % len(rows), [sf.loc()])
    # ---- the SELECT engine itself keeps nothing from one row to the next except the DISTINCT memory
    R.rule("C03.rowstate", "SelectExecutionEngine holds no state besides the DISTINCT set (and fields that cannot reach a result): an output "
                           "value is computed from the current row, never remembered from an earlier one")
    from . import effects as E
    SEA = "sqlgrep::execution::select_execution::SelectExecutionEngine"
    sflds = E.struct_fields(P, SEA)
    sreach = P.reachable([R.need_fn(SEL)])
    sinert = E.inert_fields(P, SEA, sreach)
    from .rules_c08 import distinct_add_fn
    daf = distinct_add_fn(P)
    dset = re.sub(r"<.*$", "", daf.local_ty(1)[5:]) if daf is not None else "sqlgrep::execution::helpers::DistinctValues"
    carried = [n_ for n_, t_ in sflds.items() if "DistinctValues" not in t_ and not t_.startswith(dset) and n_ not in sinert]
    if carried:
        R.violation("C03.rowstate", "SelectExecutionEngine|" + ",".join(sorted(carried)),
                    "SelectExecutionEngine carries %s from row to row: a projection can be answered from an earlier row's value instead of being "
                    "evaluated on the current row" % ", ".join("%s: %s" % (n_, sflds[n_][:60]) for n_ in sorted(carried)), [R.need_fn(SEL).loc()])
    else:
        R.ok("C03.rowstate", "SelectExecutionEngine", "fields: %s" % (sorted(sflds) or "none"), R.need_fn(SEL).loc())
    # ---- evaluated on that row alone: no state that survives from one row to the next
    R.rule("C03.pure", "expression evaluation keeps no state between rows: no thread-local / static mutable state and no write through "
                       "its arguments in the evaluation subgraph")
    ereach = P.reachable([f])
    stateful = []
    for k in sorted(ereach):
        g = P.fns[k]
        if g.derived:
            continue
        for i, s_ in g.stmts():
            if s_["rv"]["k"] == "tls":
                stateful.append((g, "thread-local `%s`" % s_["rv"].get("def", "?").split("::")[-1], s_["line"]))
        for c in g.calls:
            sn = short(c.name)
            if re.search(r"std::thread::local::LocalKey|lazy_static::lazy::Lazy<.*(Mutex|RefCell|RwLock)|std::sync::(poison::)?mutex::Mutex::lock|core::cell::RefCell::borrow_mut", sn):
                stateful.append((g, sn, c.line))
    mut_statics = [st for st in P.statics if re.search(r"Mutex|RefCell|RwLock|Cell<|Atomic", st["ty"])]
    if stateful:
        g, what, line = stateful[0]
        R.violation("C03.pure", "evaluate|state|" + what.split("::")[-1][:40],
                    "%s uses %s: a value computed for one row can influence a later row (the query is no longer evaluated on each row alone)"
                    % (g.path, what), ["%s:%d" % (g.file, line)])
    else:
        R.ok("C03.pure", "evaluate-subgraph", "%d functions, no thread-local / lock / RefCell state" % len(ereach), f.loc())
    R.floor("C03.cmp", 6)
    R.assume("that each function / cast / EXTRACT computes the documented value is not decided; comparisons of same-typed values are Value's "
             "derived order (C16)")


def _operand_side_arg(f, call):
    s = set()
    if len(call.args) > 1:
        for o2 in F.origins(f, call.args[1], depth=8):
            if o2.place is not None and isinstance(o2.place, dict) and "p" in o2.place:
                for fld in place_fields(o2.place):
                    if fld in ("left", "right", "operand"):
                        s.add(fld)
    return s
