"""On-demand MIR inlining of local helper functions.

Extracting a few statements into a helper (a predicate, a constructor of a row, a `process_line`) is the most common
behaviour-preserving edit; rules that read one body would lose sight of the moved statements.  `inline(P, f, select)` returns a
new Fn whose body has the selected local callees substituted at their call sites (locals and blocks renumbered, arguments
assigned, every `return` replaced by `dest = _0; goto continuation`), so that dominance, provenance and path rules keep working
on the combined body.  Closures of an inlined helper stay separate functions (still reachable through closure_args)."""
import copy
import re
from .prog import Fn, short


def helper_like(P, keep=None, max_blocks=90, allow_recursive=False):
    """selector: local, named (not a closure), non-derived, non-recursive, small, and not one of the functions the rule wants to see
    as calls (`keep` regex on the short path)"""
    keep_rx = re.compile(keep) if isinstance(keep, str) else keep
    cg = P.callgraph()

    def sel(g):
        if g.kind == "Closure" or g.derived or len(g.blocks) > max_blocks or g.impl_trait:
            return False
        if keep_rx is not None and keep_rx.search(g.spath):
            return False
        if allow_recursive:
            return True
        # not (mutually) recursive
        seen, st = set(), list(cg.get(g.key, ()))
        while st:
            x = st.pop()
            if x == g.key:
                return False
            if x in seen:
                continue
            seen.add(x)
            st.extend(cg.get(x, ()))
        return True
    return sel


def _remap(o, loff, boff, poff, is_term=False):
    """deep copy with locals / promoted indices shifted (block targets are handled by the caller)"""
    if isinstance(o, dict):
        out = {}
        for k, v in o.items():
            if k == "l" and isinstance(v, int) and "p" in o:
                out[k] = v + loff
            elif k == "promoted" and isinstance(v, int):
                out[k] = v + poff
            else:
                out[k] = _remap(v, loff, boff, poff)
        return out
    if isinstance(o, list):
        return [_remap(v, loff, boff, poff) for v in o]
    return o


def _shift_targets(t, boff):
    k = t["k"]
    if k == "goto":
        t["target"] += boff
    elif k == "switch":
        t["targets"] = [[v, b + boff] for v, b in t["targets"]]
        t["otherwise"] += boff
    elif k in ("drop", "assert", "call"):
        if t.get("target") is not None:
            t["target"] += boff
        if isinstance(t.get("unwind"), int):
            t["unwind"] += boff
    return t


def inline(P, f, select, max_inlines=40, max_depth=3):
    raw = copy.deepcopy(f.raw)
    body = raw["body"]
    blocks = body["blocks"]
    locals_ = body["locals"]
    promoted = raw.setdefault("promoted", [])
    depth = [0] * len(blocks)
    inlined = []
    # work on a probe Fn to resolve callees of the growing body
    n_done = 0
    i = 0
    while i < len(blocks) and n_done < max_inlines:
        b = blocks[i]
        t = b["term"]
        if b.get("cleanup") or t["k"] != "call" or depth[i] >= max_depth:
            i += 1
            continue
        probe = _ProbeCall(t)
        keys = P.callee_keys(f, probe)
        if len(keys) != 1:
            i += 1
            continue
        g = P.fns[keys[0]]
        if g.key == f.key or not select(g) or g.arg_count != len(t["args"]):
            i += 1
            continue
        loff, boff, poff = len(locals_), len(blocks), len(promoted)
        locals_.extend(copy.deepcopy(g.locals))
        promoted.extend(copy.deepcopy(g.promoted))
        cont = t.get("target")
        dest = t.get("dest")
        line = t["span"]["line"]
        for gb in g.blocks:
            nb = {"cleanup": gb["cleanup"], "idom": None, "inl": g.spath,
                  "stmts": [_remap(s, loff, boff, poff) for s in gb["stmts"]],
                  "term": _shift_targets(_remap(gb["term"], loff, boff, poff), boff)}
            if nb["term"]["k"] == "return":
                if dest is not None:
                    nb["stmts"].append({"k": "assign", "pl": copy.deepcopy(dest),
                                        "rv": {"k": "use", "op": {"k": "move", "pl": {"l": loff, "p": []}, "ty": g.locals[0]["ty"]}},
                                        "line": line, "exp": False, "inl": g.spath})
                if cont is not None:
                    nb["term"] = {"k": "goto", "target": cont, "span": nb["term"]["span"]}
                else:
                    nb["term"] = {"k": "unreachable", "span": nb["term"]["span"]}
            blocks.append(nb)
            depth.append(depth[i] + 1)
        # the call site: bind the arguments, then jump into the copy
        for a_i, a in enumerate(t["args"]):
            b["stmts"].append({"k": "assign", "pl": {"l": loff + 1 + a_i, "p": []}, "rv": {"k": "use", "op": copy.deepcopy(a)},
                               "line": line, "exp": False, "inl": g.spath})
        b["term"] = {"k": "goto", "target": boff, "span": t["span"]}
        inlined.append(g.spath)
        n_done += 1
        # do not advance: block i now ends in a goto; continue with the next block (new blocks are visited later)
        i += 1
    nf = Fn(raw, f.target, P)
    nf.inlined = inlined
    nf.origin_fn = f
    return nf


class _ProbeCall:
    """minimal stand-in for prog.Call, enough for Prog.callee_keys"""

    def __init__(self, term):
        self.func = term["func"]
        self.args = term["args"]
