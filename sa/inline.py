"""On-demand MIR inlining of local helper functions.

Extracting a few statements into a helper (a predicate, a constructor of a row, a `process_line`) is the most common
behaviour-preserving edit; rules that read one body would lose sight of the moved statements.  `inline(P, f, select)` returns a
new Fn whose body has the selected local callees substituted at their call sites (locals and blocks renumbered, arguments
assigned, every `return` replaced by `dest = _0; goto continuation`), so that dominance, provenance and path rules keep working
on the combined body.  Closures of an inlined helper stay separate functions (still reachable through closure_args)."""
import copy
import re
from .prog import Fn, short


def helper_like(P, keep=None, max_blocks=90, allow_recursive=False):
    """selector: local, named (not a closure), non-derived, non-recursive, small, and not one of the functions the rule wants to see
    as calls (`keep` regex on the short path)"""
    keep_rx = re.compile(keep) if isinstance(keep, str) else keep
    cg = P.callgraph()

    def sel(g):
        if g.kind == "Closure" or g.derived or len(g.blocks) > max_blocks or g.impl_trait:
            return False
        if keep_rx is not None and keep_rx.search(g.spath):
            return False
        if allow_recursive:
            return True
        # not (mutually) recursive
        seen, st = set(), list(cg.get(g.key, ()))
        while st:
            x = st.pop()
            if x == g.key:
                return False
            if x in seen:
                continue
            seen.add(x)
            st.extend(cg.get(x, ()))
        return True
    return sel


def _remap(o, loff, boff, poff, is_term=False):
    """deep copy with locals / promoted indices shifted (block targets are handled by the caller)"""
    if isinstance(o, dict):
        out = {}
        for k, v in o.items():
            if k == "l" and isinstance(v, int) and "p" in o:
                out[k] = v + loff
            elif k == "promoted" and isinstance(v, int):
                out[k] = v + poff
            else:
                out[k] = _remap(v, loff, boff, poff)
        return out
    if isinstance(o, list):
        return [_remap(v, loff, boff, poff) for v in o]
    return o


def _shift_targets(t, boff):
    k = t["k"]
    if k == "goto":
        t["target"] += boff
    elif k == "switch":
        t["targets"] = [[v, b + boff] for v, b in t["targets"]]
        t["otherwise"] += boff
    elif k in ("drop", "assert", "call"):
        if t.get("target") is not None:
            t["target"] += boff
        if isinstance(t.get("unwind"), int):
            t["unwind"] += boff
    return t


def inline(P, f, select, max_inlines=40, max_depth=3):
    raw = copy.deepcopy(f.raw)
    body = raw["body"]
    blocks = body["blocks"]
    locals_ = body["locals"]
    promoted = raw.setdefault("promoted", [])
    depth = [0] * len(blocks)
    inlined = []
    # work on a probe Fn to resolve callees of the growing body
    n_done = 0
    i = 0
    while i < len(blocks) and n_done < max_inlines:
        b = blocks[i]
        t = b["term"]
        if b.get("cleanup") or t["k"] != "call" or depth[i] >= max_depth:
            i += 1
            continue
        probe = _ProbeCall(t)
        keys = P.callee_keys(f, probe)
        if len(keys) != 1:
            i += 1
            continue
        g = P.fns[keys[0]]
        if g.key == f.key or not select(g) or g.arg_count != len(t["args"]):
            i += 1
            continue
        loff, boff, poff = len(locals_), len(blocks), len(promoted)
        locals_.extend(copy.deepcopy(g.locals))
        promoted.extend(copy.deepcopy(g.promoted))
        cont = t.get("target")
        dest = t.get("dest")
        line = t["span"]["line"]
        for gb in g.blocks:
            nb = {"cleanup": gb["cleanup"], "idom": None, "inl": g.spath,
                  "stmts": [_remap(s, loff, boff, poff) for s in gb["stmts"]],
                  "term": _shift_targets(_remap(gb["term"], loff, boff, poff), boff)}
            if nb["term"]["k"] == "return":
                if dest is not None:
                    nb["stmts"].append({"k": "assign", "pl": copy.deepcopy(dest),
                                        "rv": {"k": "use", "op": {"k": "move", "pl": {"l": loff, "p": []}, "ty": g.locals[0]["ty"]}},
                                        "line": line, "exp": False, "inl": g.spath})
                if cont is not None:
                    nb["term"] = {"k": "goto", "target": cont, "span": nb["term"]["span"]}
                else:
                    nb["term"] = {"k": "unreachable", "span": nb["term"]["span"]}
            blocks.append(nb)
            depth.append(depth[i] + 1)
        # the call site: bind the arguments, then jump into the copy
        for a_i, a in enumerate(t["args"]):
            b["stmts"].append({"k": "assign", "pl": {"l": loff + 1 + a_i, "p": []}, "rv": {"k": "use", "op": copy.deepcopy(a)},
                               "line": line, "exp": False, "inl": g.spath})
        b["term"] = {"k": "goto", "target": boff, "span": t["span"]}
        inlined.append(g.spath)
        n_done += 1
        # do not advance: block i now ends in a goto; continue with the next block (new blocks are visited later)
        i += 1
    nf = Fn(raw, f.target, P)
    nf.inlined = inlined
    nf.origin_fn = f
    return nf


# ---- desugaring of Option / Result / bool combinators that take a closure -------------------------------------------------------
COMB = re.compile(r"^core::option::Option::(map|map_or|map_or_else|and_then|filter|is_some_and|unwrap_or_else|ok_or_else|zip)$|"
                  r"^core::result::Result::(map|map_err|and_then|unwrap_or_else)$|^core::bool::<impl bool>::then$")
OPT_VARIANTS = [["0", "None"], ["1", "Some"]]
RES_VARIANTS = [["0", "Ok"], ["1", "Err"]]


def _inner_ty(ty, prefix):
    return ty[len(prefix):-1] if ty.startswith(prefix) and ty.endswith(">") else "?"


def desugar(P, f, max_sites=24):
    """`opt.map_or(d, |x| ..)`, `opt.and_then(..)`, `res.map_err(..)`, `b.then(..)`, `a.zip(b)` ... rewritten into the match they stand for,
    with the closure body spliced in (its captured variables bound to the closure value built at the call site).  What a rule then sees
    is the same MIR rustc emits for the hand-written `match`, so guards, provenance and path facts apply to both spellings."""
    raw = copy.deepcopy(f.raw)
    body = raw["body"]
    blocks = body["blocks"]
    locals_ = body["locals"]
    promoted = raw.setdefault("promoted", [])
    done = []

    def new_local(ty):
        locals_.append({"ty": ty, "name": None, "mut": True})
        return len(locals_) - 1

    def new_block(stmts, term, tag):
        blocks.append({"cleanup": False, "idom": None, "inl": tag, "stmts": stmts, "term": term})
        return len(blocks) - 1

    def assign(dst_place, rv, line):
        return {"k": "assign", "pl": dst_place, "rv": rv, "line": line, "exp": False}

    def pl(l, p=None):
        return {"l": l, "p": p or []}

    def mv(l, ty, p=None):
        return {"k": "move", "pl": pl(l, p), "ty": ty}

    def aggr(adt, variant, ops):
        return {"k": "aggr", "ak": "adt", "adt": adt, "variant": variant, "fields": [str(i) for i in range(len(ops))], "ops": ops}

    def splice(g, arg_ops, dest_place, cont, line, span):
        """closure g with _1 = the closure value (borrowed as its body expects) and the further args bound; returns the entry block"""
        loff, boff, poff = len(locals_), len(blocks), len(promoted)
        locals_.extend(copy.deepcopy(g.locals))
        promoted.extend(copy.deepcopy(g.promoted))
        for gb in g.blocks:
            nb = {"cleanup": gb["cleanup"], "idom": None, "inl": g.spath,
                  "stmts": [_remap(s_, loff, boff, poff) for s_ in gb["stmts"]],
                  "term": _shift_targets(_remap(gb["term"], loff, boff, poff), boff)}
            if nb["term"]["k"] == "return":
                nb["stmts"].append(assign(copy.deepcopy(dest_place), {"k": "use", "op": mv(loff, g.locals[0]["ty"])}, line))
                nb["term"] = {"k": "goto", "target": cont, "span": span}
            blocks.append(nb)
        pre = []
        for a_i, a in enumerate(arg_ops):
            pre.append(assign(pl(loff + 1 + a_i), a, line))
        return new_block(pre, {"k": "goto", "target": boff, "span": span}, g.spath)

    def closure_of(op, t):
        keys = [k for k in (t["func"].get("closure_args") or [])]
        cands = []
        for k in keys:
            for cand in (k, "bin/" + k):
                g = P.fns.get(cand)
                if g is not None and g.kind == "Closure" and (cand.startswith("bin/") == (f.target == "bin")):
                    cands.append(g)
        ty = op.get("ty") or ""
        m = re.match(r"^\{closure@([^:]+):(\d+):(\d+)", ty)
        for g in cands:
            sp = g.raw.get("span") or {}
            if m and sp.get("file") == m.group(1) and sp.get("line") == int(m.group(2)) and sp.get("col") == int(m.group(3)):
                return g
        return cands[0] if len(cands) == 1 and not m else None

    def env_rv(g, clo_op):
        """how the closure body wants its first parameter: the closure value itself, or a (mutable) reference to it"""
        t1 = g.locals[1]["ty"] if len(g.locals) > 1 else ""
        if clo_op.get("k") not in ("copy", "move") or clo_op["pl"]["p"]:
            return None
        if t1.startswith("&mut "):
            return {"k": "ref", "bk": "mut", "pl": pl(clo_op["pl"]["l"])}
        if t1.startswith("&"):
            return {"k": "ref", "bk": "shared", "pl": pl(clo_op["pl"]["l"])}
        return {"k": "use", "op": copy.deepcopy(clo_op)}

    i = 0
    while i < len(blocks) and len(done) < max_sites:
        b = blocks[i]
        t = b["term"]
        i += 1
        if b.get("cleanup") or t["k"] != "call" or t.get("target") is None or t.get("dest") is None:
            continue
        fnm = short(t["func"].get("res_path") or t["func"].get("path") or "")
        if (t["func"].get("trait") or "").startswith("core::ops::function::Fn") and len(t["args"]) == 2 and \
                t["args"][0].get("k") in ("copy", "move") and t["args"][1].get("k") in ("copy", "move") and not t["args"][1]["pl"]["p"]:
            # a direct call of a local closure (`f(parser)` inside an inlined `with_restored_depth(.., f)` helper): splice its body in
            clo_op = t["args"][0]
            g = closure_of(clo_op, t)
            if g is None:
                # a generic `f: F` inside an inlined helper: follow the moves back to where the closure value was built
                cur, hops = clo_op["pl"]["l"], 0
                while g is None and hops < 8:
                    hops += 1
                    defs = [s2 for b2 in blocks for s2 in b2["stmts"] if s2["k"] == "assign" and not s2["pl"]["p"] and s2["pl"]["l"] == cur]
                    if len(defs) != 1:
                        break
                    rv2 = defs[0]["rv"]
                    if rv2["k"] == "aggr" and rv2.get("ak") == "closure":
                        for cand in (rv2.get("closure"), "bin/" + str(rv2.get("closure"))):
                            if cand in P.fns and (cand.startswith("bin/") == (f.target == "bin")):
                                g = P.fns[cand]
                        break
                    if rv2["k"] == "use" and rv2["op"].get("k") in ("copy", "move") and not rv2["op"]["pl"]["p"]:
                        cur = rv2["op"]["pl"]["l"]
                        continue
                    break
            if g is None:
                # the callee is often a reference to the closure: look at what the reference points to
                src = None
                for b2 in blocks:
                    for s2 in b2["stmts"]:
                        if s2["k"] == "assign" and not s2["pl"]["p"] and s2["pl"]["l"] == clo_op["pl"]["l"] and s2["rv"]["k"] in ("ref", "use"):
                            src = s2["rv"]["pl"] if s2["rv"]["k"] == "ref" else (s2["rv"]["op"].get("pl") if s2["rv"]["op"].get("k") in ("copy", "move") else None)
                if src is not None and not src["p"]:
                    clo_op = {"k": "move", "pl": src, "ty": locals_[src["l"]]["ty"]}
                    g = closure_of(clo_op, t)
            if g is not None and len(g.blocks) <= 200 and g.key != f.key and not clo_op["pl"]["p"]:
                tup = t["args"][1]
                tty = locals_[tup["pl"]["l"]]["ty"]
                n_par = g.arg_count - 1
                e = env_rv(g, clo_op)
                if e is not None:
                    ops = [e]
                    for pi in range(n_par):
                        pty = g.locals[2 + pi]["ty"]
                        ops.append({"k": "use", "op": mv(tup["pl"]["l"], pty, [{"f": pi, "n": str(pi), "adt": None, "ty": pty}])})
                    entry = splice(g, ops, copy.deepcopy(t["dest"]), t["target"], t["span"]["line"], t["span"])
                    b["term"] = {"k": "goto", "target": entry, "span": t["span"]}
                    done.append("call:" + g.spath.split("::")[-1])
            continue
        m = COMB.match(fnm)
        if not m:
            continue
        which = fnm.split("::")[-1]
        is_res = "result::Result" in fnm
        is_bool = "impl bool" in fnm
        args = t["args"]
        recv = args[0]
        if recv.get("k") not in ("copy", "move"):
            continue
        line, span, cont, dest = t["span"]["line"], t["span"], t["target"], t["dest"]
        rty = recv.get("ty") or ""
        stm = []
        if recv["pl"]["p"]:
            r0 = new_local(rty)
            stm.append(assign(pl(r0), {"k": "use", "op": copy.deepcopy(recv)}, line))
        else:
            r0 = recv["pl"]["l"]
        tag = "desugar:" + which
        unreach = new_block([], {"k": "unreachable", "span": span}, tag)
        dty = locals_[dest["l"]]["ty"] if not dest["p"] else "?"

        def payload(variant, vi, adt, ty):
            return mv(r0, ty, [{"d": variant, "vi": vi}, {"f": 0, "n": "0", "adt": adt, "ty": ty}])

        def call_closure(clo_op, extra_ops, dst_place, then_block):
            g = closure_of(clo_op, t)
            if g is None or g.arg_count != 1 + len(extra_ops) or len(g.blocks) > 60:
                return None
            e = env_rv(g, clo_op)
            if e is None:
                return None
            return splice(g, [e] + [{"k": "use", "op": o} if "k" in o and o["k"] in ("copy", "move", "const") else o for o in extra_ops],
                          dst_place, then_block, line, span)

        ok = False
        if is_bool:
            # b.then(f): true -> Some(f()), false -> None
            inner = _inner_ty(dty, "core::option::Option<")
            tmp = new_local(inner)
            some_b = new_block([assign(copy.deepcopy(dest), aggr("core::option::Option", "Some", [mv(tmp, inner)]), line)], {"k": "goto", "target": cont, "span": span}, tag)
            entry = call_closure(args[1], [], pl(tmp), some_b)
            none_b = new_block([assign(copy.deepcopy(dest), aggr("core::option::Option", "None", []), line)], {"k": "goto", "target": cont, "span": span}, tag)
            if entry is not None:
                b["stmts"].extend(stm)
                b["term"] = {"k": "switch", "discr": copy.deepcopy(recv), "targets": [["0", none_b]], "otherwise": entry, "span": span}
                ok = True
        else:
            adt = "core::result::Result" if is_res else "core::option::Option"
            variants = RES_VARIANTS if is_res else OPT_VARIANTS
            good_v, bad_v = ("Ok", "Err") if is_res else ("Some", "None")
            good_i, bad_i = (0, 1) if is_res else (1, 0)
            if is_res:
                inner_all = _inner_ty(rty, "core::result::Result<")
                depth_, cut = 0, None
                for ci, ch in enumerate(inner_all):
                    if ch in "<([":
                        depth_ += 1
                    elif ch in ">)]":
                        depth_ -= 1
                    elif ch == "," and depth_ == 0:
                        cut = ci
                        break
                tyT, tyE = (inner_all[:cut], inner_all[cut + 2:]) if cut else ("?", "?")
            else:
                tyT, tyE = _inner_ty(rty, "core::option::Option<"), None
            goto_cont = {"k": "goto", "target": cont, "span": span}

            def set_dest(rv):
                return new_block([assign(copy.deepcopy(dest), rv, line)], dict(goto_cont), tag)
            good_b = bad_b = None
            pg = payload(good_v, good_i, adt, tyT)
            if which in ("map",) and not is_res or (which == "map" and is_res):
                inner = _inner_ty(dty, adt + "<").split(", ")[0] if is_res else _inner_ty(dty, adt + "<")
                tmp = new_local(inner)
                wrap = set_dest(aggr(adt, good_v, [mv(tmp, inner)]))
                good_b = call_closure(args[1], [pg], pl(tmp), wrap)
                bad_b = set_dest(aggr(adt, bad_v, [payload("Err", 1, adt, tyE)] if is_res else []))
            elif which == "map_err":
                inner = dty[dty.rfind(", ") + 2:-1] if ", " in dty else "?"
                tmp = new_local(inner)
                wrap = set_dest(aggr(adt, "Err", [mv(tmp, inner)]))
                bad_b = call_closure(args[1], [payload("Err", 1, adt, tyE)], pl(tmp), wrap)
                good_b = set_dest(aggr(adt, "Ok", [pg]))
            elif which == "map_or":
                good_b = call_closure(args[2], [pg], copy.deepcopy(dest), cont)
                bad_b = set_dest({"k": "use", "op": copy.deepcopy(args[1])})
            elif which == "map_or_else":
                good_b = call_closure(args[2], [pg], copy.deepcopy(dest), cont)
                bad_b = call_closure(args[1], [], copy.deepcopy(dest), cont)
            elif which == "and_then":
                good_b = call_closure(args[1], [pg], copy.deepcopy(dest), cont)
                bad_b = set_dest(aggr(adt, bad_v, [payload("Err", 1, adt, tyE)] if is_res else []))
            elif which == "is_some_and":
                good_b = call_closure(args[1], [pg], copy.deepcopy(dest), cont)
                bad_b = set_dest({"k": "use", "op": {"k": "const", "ty": "bool", "v": "false"}})
            elif which == "unwrap_or_else":
                good_b = set_dest({"k": "use", "op": pg})
                bad_b = call_closure(args[1], [payload("Err", 1, adt, tyE)] if is_res else [], copy.deepcopy(dest), cont)
            elif which == "ok_or_else":
                inner = dty[dty.rfind(", ") + 2:-1] if ", " in dty else "?"
                tmp = new_local(inner)
                wrap = set_dest(aggr("core::result::Result", "Err", [mv(tmp, inner)]))
                bad_b = call_closure(args[1], [], pl(tmp), wrap)
                good_b = set_dest(aggr("core::result::Result", "Ok", [pg]))
            elif which == "filter":
                keep_b = set_dest(aggr(adt, "Some", [pg]))
                drop_b = set_dest(aggr(adt, "None", []))
                flag = new_local("bool")
                test_b = new_block([], {"k": "switch", "discr": mv(flag, "bool"), "targets": [["0", drop_b]], "otherwise": keep_b, "span": span}, tag)
                refl = new_local("&" + tyT)
                g_entry = call_closure(args[1], [{"k": "ref", "bk": "shared", "pl": pl(r0, [{"d": "Some", "vi": 1}, {"f": 0, "n": "0", "adt": adt, "ty": tyT}])}],
                                       pl(flag), test_b)
                good_b = g_entry
                bad_b = set_dest(aggr(adt, "None", []))
            elif which == "zip":
                o2 = args[1]
                if o2.get("k") in ("copy", "move") and not o2["pl"]["p"]:
                    ty2 = _inner_ty(o2.get("ty") or "", "core::option::Option<")
                    tup = new_local("(%s, %s)" % (tyT, ty2))
                    both = new_block([assign(pl(tup), {"k": "aggr", "ak": "tuple", "adt": None, "variant": None, "fields": ["0", "1"],
                                                       "ops": [pg, mv(o2["pl"]["l"], ty2, [{"d": "Some", "vi": 1}, {"f": 0, "n": "0", "adt": adt, "ty": ty2}])]}, line),
                                      assign(copy.deepcopy(dest), aggr(adt, "Some", [mv(tup, "(%s, %s)" % (tyT, ty2))]), line)], dict(goto_cont), tag)
                    none2 = set_dest(aggr(adt, "None", []))
                    d2 = new_local("isize")
                    good_b = new_block([assign(pl(d2), {"k": "discr", "pl": pl(o2["pl"]["l"]), "ty": o2.get("ty"), "adt": adt, "variants": OPT_VARIANTS}, line)],
                                       {"k": "switch", "discr": mv(d2, "isize"), "targets": [["0", none2], ["1", both]], "otherwise": unreach, "span": span}, tag)
                    bad_b = set_dest(aggr(adt, "None", []))
            if good_b is not None and bad_b is not None:
                d = new_local("isize")
                b["stmts"].extend(stm)
                b["stmts"].append(assign(pl(d), {"k": "discr", "pl": pl(r0), "ty": rty, "adt": adt, "variants": variants}, line))
                b["term"] = {"k": "switch", "discr": mv(d, "isize"), "targets": [[str(good_i), good_b], [str(bad_i), bad_b]], "otherwise": unreach, "span": span}
                ok = True
        if ok:
            done.append(which)
    if not done:
        return f
    nf = Fn(raw, f.target, P)
    nf.inlined = list(getattr(f, "inlined", []) or [])
    nf.desugared = done
    nf.origin_fn = getattr(f, "origin_fn", f)
    return nf


class _ProbeCall:
    """minimal stand-in for prog.Call, enough for Prog.callee_keys"""

    def __init__(self, term):
        self.func = term["func"]
        self.args = term["args"]
