"""C13 — expressions group by standard SQL operator precedence and associativity.

The parser is table-driven precedence climbing; the tables and the climbing loop are in the
source, so their agreement with the property's ordering is a static fact."""
import re
from .prog import short, place_fields
from . import flow as F
from . import arms as A
from . import pathrules as PR

PARSER = "sqlgrep::parsing::parser::Parser::"


def _char(v):
    m = re.match(r"^'(.*)'$", v or "")
    if not m:
        return v
    c = m.group(1)
    return {"\\'": "'", "\\\\": "\\"}.get(c, c)


def binary_table(R):
    f = R.need_fn("sqlgrep::parsing::operator::BinaryOperators::new")
    table = {}
    for c in PR.calls_matching(f, r"^std::collections::hash::map::HashMap::insert$"):
        op = None
        prec = None
        for o in F.origins(f, c.args[1], depth=6, through_calls=False):
            pass
        # key aggregate
        kl = c.args[1]["pl"]["l"] if c.args[1]["k"] in ("copy", "move") else None
        for i, s in f.stmts():
            if s["k"] == "assign" and s["pl"]["l"] == kl and s["rv"]["k"] == "aggr" and (s["rv"].get("adt") or "").endswith("operator::Operator"):
                op = "".join(_char(o.get("v")) for o in s["rv"]["ops"])
        for o in F.origins(f, c.args[2], depth=4, through_calls=False):
            if o.kind == "call" and short(o.call.name).endswith("BinaryOperator::new") and o.call.args and "int" in o.call.args[0]:
                prec = o.call.args[0]["int"]
        if op is None or prec is None:
            R.violation("C13.table", "BinaryOperators::new|unreadable", "could not read an (operator, precedence) pair of the binary operator table",
                        [c.loc()])
            continue
        table[op] = prec
    return table, f


def _variants_of_world(fa, world):
    """most specific token / keyword variant names asserted by a world's discriminant facts; '*' for a catch-all edge"""
    names = []
    star = False
    for k, v in world:
        a = fa.atoms.get(k, {})
        if a.get("kind") != "discr" or not isinstance(v, str):
            continue
        if v.startswith("!"):
            star = True
        else:
            names.append(v)
    return names, star


def token_table(R):
    """constants returned by Parser::get_token_precedence per token / keyword variant (path facts: or-patterns, nested matches and
    named constants are all the same)"""
    f = R.need_fn(PARSER + "get_token_precedence")
    fa = PR.facts(f)
    res = {}
    default = None
    for i, s in f.stmts():
        if s["k"] == "assign" and s["pl"]["l"] == 0 and s["rv"]["k"] == "aggr" and s["rv"].get("variant") == "Ok":
            op = s["rv"]["ops"][0]
            if op["k"] != "const" or "int" not in op:
                continue
            val = op["int"]
            for w in (fa.worlds_at(i) or []):
                names, star = _variants_of_world(fa, w)
                specific = [n for n in names if n not in ("Keyword", "Ok", "Err", "Some", "None", "Continue", "Break")]
                if specific:
                    # (negative facts in the same world are only the alternatives an earlier guard arm ruled out on the way)
                    for n in specific:
                        res[n] = val
                elif star or not specific:
                    # a catch-all arm (`_ => ..`), possibly nested under Keyword(_)
                    default = val
    return res, default, f


TOKEN = "sqlgrep::parsing::tokenizer::Token"
SELF_CLOSING = {"LeftSquareParentheses"}   # `a[i]`: the bracket closes its own operand, nothing can bind tighter inside it


def _token_const(f, op):
    """variant name of a Token constant operand (possibly promoted)"""
    for o in F.origins(f, op, depth=5, through_calls=False):
        if o.kind == "const" and o.const is not None:
            if "promoted" in o.const and o.const["promoted"] < len(f.promoted):
                for pb in f.promoted[o.const["promoted"]]["blocks"]:
                    for ps in pb["stmts"]:
                        if ps["k"] == "assign" and ps["rv"]["k"] == "aggr" and (ps["rv"].get("adt") or "").endswith("tokenizer::Token"):
                            return ps["rv"].get("variant")
            m = re.search(r"Token::([A-Za-z]+)", o.const.get("v", "") or "")
            if m:
                return m.group(1)
        if o.kind == "aggr" and o.place is not None:
            for i, st in f.stmts():
                if st["k"] == "assign" and st["pl"]["l"] == o.place["l"] and st["rv"]["k"] == "aggr" and \
                        (st["rv"].get("adt") or "").endswith("tokenizer::Token"):
                    return st["rv"].get("variant")
    return None


def _may_return(P, g, want, local=0):
    """top-level Token variants for which bool function g can return `want` (or, with `local`, for which that bool local of g is set to `want`);
    None if the value is not produced by a match over a Token"""
    rets = {}
    for i, st in g.stmts():
        if st["k"] == "assign" and st["pl"]["l"] == local and not st["pl"]["p"] and st["rv"]["k"] == "use" and st["rv"]["op"]["k"] == "const" \
                and st["rv"]["op"].get("v") in ("true", "false"):
            rets[i] = st["rv"]["op"]["v"] == "true"
    if not rets:
        return None
    for sw in A.enum_switches(g, "tokenizer::Token"):
        if not all(g.dominates(sw, b) for b in rets):
            continue
        kind, rv, targets = F.switch_info(g, sw)
        names = {dv: n for dv, n in rv.get("variants", [])}
        out = set()
        listed = set()
        for lab, b in targets.items():
            if lab == "otherwise":
                continue
            listed.add(names.get(lab))
            if any(rets[r] == want for r in rets if r in g.reachable_from(b, avoid={sw})):
                out.add(names.get(lab))
        if g.blocks[targets["otherwise"]]["term"]["k"] != "unreachable":
            if any(rets[r] == want for r in rets if r in g.reachable_from(targets["otherwise"], avoid={sw})):
                out |= set(n for n in names.values() if n not in listed)
        return out
    return None


def _climb_exclusions(R, f, rec, p=None):
    """C13.operand: after the right operand of a binary operator is parsed, a tighter-binding operator that follows must extend it.
    Only the subscript (whose bracket closes the operand) may skip that step."""
    P = R.prog
    R.rule("C13.operand", "the right operand of every binary operator except the self-closing subscript is extended by a following operator "
                          "that binds tighter (a OP b * c is a OP (b * c) for IS / IN / comparisons / + - alike)")
    ext = []
    for c in rec:
        for o in F.origins(f, c.args[1], depth=6, through_calls=False):
            if o.kind == "binop" and o.extra in ("Add", "AddWithOverflow"):
                ext.append(c)
    if not ext:
        return
    c = ext[0]
    excluded = set()
    unknown = []
    for gsw, lab, tgt in F.guards_dominating(f, c.bb):
        info = F.switch_info(f, gsw)
        if not info:
            continue
        if info[0] == "discr" and (info[1].get("adt") or "").endswith("tokenizer::Token"):
            # is the matched token the operator (not the look-ahead)?  only an `otherwise` edge excludes the listed variants
            names = {dv: n for dv, n in info[1].get("variants", [])}
            listed = set(names.get(l) for l in info[2] if l != "otherwise")
            # the loop's own dispatch on the operator comes later (building the node); a guard here that dominates the climb restricts it
            if lab == "otherwise":
                excluded |= listed
            else:
                excluded |= set(n for n in names.values() if n != names.get(lab))
            continue
        if info[0] != "bool":
            continue
        pos, os_ = F.bool_edge_polarity(f, gsw, lab)
        if os_ and all(o.kind == "const" for o in os_):
            # `matches!(op, ..)`: a bool local set to constants in the arms of a match
            d = f.blocks[gsw]["term"]["discr"]
            cur = d["pl"]["l"] if d["k"] in ("copy", "move") else None
            for _ in range(3):
                defs = [st for _, st in f.stmts() if st["k"] == "assign" and st["pl"]["l"] == cur and not st["pl"]["p"]]
                if len(defs) == 1 and defs[0]["rv"]["k"] == "unop" and defs[0]["rv"]["o"]["k"] in ("copy", "move"):
                    cur = defs[0]["rv"]["o"]["pl"]["l"]
                elif len(defs) == 1 and defs[0]["rv"]["k"] == "use" and defs[0]["rv"]["op"]["k"] in ("copy", "move"):
                    cur = defs[0]["rv"]["op"]["pl"]["l"]
                else:
                    break
            mr = _may_return(P, f, not pos, local=cur) if cur is not None else None
            if mr is None:
                unknown.append("a constant-valued flag")
            else:
                excluded |= mr
            continue
        for o in os_:
            if o.kind != "call":
                continue
            sn = short(o.call.name)
            ts = o.call.func.get("res_targs") or o.call.targs
            m = re.search(r"PartialEq(<.*>)?>?::(eq|ne)$", sn)
            if m and ts and TOKEN in ts[0]:
                v = None
                for a_ in o.call.args:
                    v = v or _token_const(f, a_)
                is_ne = m.group(2) == "ne"
                if v is None:
                    unknown.append(sn)
                elif is_ne == pos:
                    excluded.add(v)          # climb only when op != v
                else:
                    excluded.add("every operator but " + v)
                continue
            keys = [k for k in P.callee_keys(f, o.call) if P.fns[k].local_ty(0) == "bool"]
            if keys and any(TOKEN in (f.local_ty(a_["pl"]["l"]) if a_["k"] in ("copy", "move") else "") for a_ in o.call.args):
                mr = _may_return(P, P.fns[keys[0]], not pos)
                if mr is None:
                    unknown.append(sn)
                else:
                    excluded |= mr
    harmless = set(SELF_CLOSING)
    if p and p.get("::") is not None and p["::"] >= max(v for v in p.values() if v is not None):
        harmless.add("DoubleColon")   # nothing binds tighter than the cast, so `next precedence > p(::)` never holds anyway
    extra = sorted(x for x in excluded if x not in harmless)
    if unknown:
        R.violation("C13.operand", "climb|unrecognised-guard", "the step that extends the right operand is guarded by %s, which the engine cannot "
                                                                "reduce to a set of operators" % unknown[0], [c.loc()])
    elif extra:
        R.violation("C13.operand", "climb|" + ",".join(extra),
                    "after the right operand of %s the parser does not let a tighter-binding operator extend it: `x IS y + 1` groups as "
                    "`(x IS y) + 1` (only the subscript, whose bracket closes its operand, may skip the step)" % "/".join(extra), [c.loc()])
    else:
        R.ok("C13.operand", "climb", "extension skipped only for %s" % (sorted(excluded) or "no operator"), c.loc())


REL_NEG = {"Lt": "Ge", "Ge": "Lt", "Gt": "Le", "Le": "Gt"}
REL_SWAP = {"Lt": "Gt", "Gt": "Lt", "Le": "Ge", "Ge": "Le"}


def _climb_semantics(P, f, rec, cmp_ops):
    """decide the two precedence tests of the climbing loop by meaning, not by spelling:
       (1) the loop goes on exactly when `token_precedence >= minimum precedence` (so equal precedence associates to the left);
       (2) the right operand is extended exactly when the next operator's precedence is strictly greater, with token_precedence + 1."""
    out = []
    local_call_blocks = set(c.bb for c in f.calls if P.callee_keys(f, c))
    prec_args = [a for a in range(1, f.arg_count + 1) if f.local_ty(a) == "i32"]

    def switch_of(i, st):
        l = st["pl"]["l"]
        for sw in sorted(f.reach):
            t = f.blocks[sw]["term"]
            if t["k"] != "switch" or t["discr"].get("ty") != "bool":
                continue
            pos, os_ = F.bool_edge_polarity(f, sw, "otherwise")
            for o in os_:
                if o.kind == "binop" and o.place["l"] is st["rv"]["l"] and o.place["r"] is st["rv"]["r"]:
                    zero = [b for v, b in t["targets"] if v == "0"]
                    if zero:
                        return sw, (t["otherwise"], zero[0]) if pos else (zero[0], t["otherwise"])
        return None, None

    def is_param(op):
        return op["k"] in ("copy", "move") and any(o.kind == "arg" and o.arg in prec_args for o in F.origins(f, op, depth=6, through_calls=False))

    inc_ok = False
    inc_left = None
    for c in rec:
        for o in F.origins(f, c.args[1], depth=6, through_calls=False):
            if o.kind == "binop" and o.extra in ("Add", "AddWithOverflow"):
                cs = [x.get("int") for x in (o.place["l"], o.place["r"]) if x["k"] == "const"]
                if cs == [1]:
                    inc_ok = True
                    inc_left = o.place["l"] if o.place["l"]["k"] != "const" else o.place["r"]
    if not inc_ok:
        out.append(("increment", "the right operand is not parsed at token_precedence + 1", rec[0].loc()))
    seen_loop = seen_ext = False
    for i, st in cmp_ops:
        sw, tgts = switch_of(i, st)
        if sw is None:
            continue
        t_true, t_false = tgts
        op = st["rv"]["op"]
        l_, r_ = st["rv"]["l"], st["rv"]["r"]
        if is_param(l_) != is_param(r_):
            seen_loop = True
            rel = op if is_param(r_) else REL_SWAP[op]          # token_precedence REL minimum, holds on the true edge
            def exits(tgt):
                reach = f.reachable_from(tgt, avoid=local_call_blocks)
                return any(b in reach for b in f.exits())
            if exits(t_true) and not exits(t_false):
                cont_rel = REL_NEG[rel]
            elif exits(t_false) and not exits(t_true):
                cont_rel = rel
            else:
                out.append(("loop-test", "the precedence test of the climbing loop does not decide between returning and parsing on",
                            "%s:%d" % (f.file, st["line"])))
                continue
            if cont_rel != "Ge":
                out.append(("comparison", "the climbing loop goes on when token_precedence %s minimum (must be >=): equal precedence would "
                                          "associate to the right / operators would be skipped" % {"Gt": ">", "Le": "<=", "Lt": "<"}.get(cont_rel, cont_rel),
                            "%s:%d" % (f.file, st["line"])))
        else:
            # both sides are token precedences: the extension test guarding the recursive call
            guarded = [c for c in rec if f.dominates(t_true, c.bb) or f.dominates(t_false, c.bb)]
            if not guarded:
                continue
            seen_ext = True
            on_true = f.dominates(t_true, guarded[0].bb)
            rel = op if on_true else REL_NEG[op]                  # l_ REL r_ holds where the recursive call is
            # orient as (current REL next): current is the side that also feeds the `+ 1`
            def same(a, b):
                if a is None or a["k"] not in ("copy", "move") or b["k"] not in ("copy", "move"):
                    return False
                oa = set((o.kind, o.call.bb if o.call else (o.arg if o.kind == "arg" else None)) for o in F.origins(f, a, depth=6, through_calls=False))
                ob = set((o.kind, o.call.bb if o.call else (o.arg if o.kind == "arg" else None)) for o in F.origins(f, b, depth=6, through_calls=False))
                return bool(oa & ob)
            if same(inc_left, r_) and not same(inc_left, l_):
                rel = REL_SWAP[rel]
            if rel != "Lt":
                out.append(("comparison", "the right operand is extended when current precedence %s next precedence (must be <): with `<=` "
                                          "equal precedence associates to the right" % {"Le": "<=", "Gt": ">", "Ge": ">="}.get(rel, rel),
                            "%s:%d" % (f.file, st["line"])))
    if not seen_loop:
        out.append(("loop-test", "no test of the token precedence against the minimum precedence parameter", f.loc()))
    if not seen_ext:
        out.append(("extend-test", "the recursive call for the right operand is not guarded by a comparison of the two precedences", rec[0].loc()))
    return out


def adjacency_rule(R, rid, tf2, duals):
    """a two-character operator is built only behind an equality test between the previously read character and the pending operator's
    character (two non-constant chars): adjacency is a fact about characters, positions reset at line breaks and skip whitespace"""
    R.rule(rid, "a two-character operator is built only behind a test that the previously read character is the pending "
                "operator's character (character-level adjacency; positions reset at line breaks and skip whitespace)")
    cut2 = set()
    for c in tf2.calls:
        ts = c.func.get("res_targs") or c.targs
        if re.search(r"PartialEq(<.*>)?>::(eq|ne)$", short(c.name)) and ts and any("char" in t_ for t_ in ts[:2]):
            consty = any(a_["k"] == "const" for a_ in c.args)
            if consty:
                continue
            g_ = PR.bool_guard(tf2, c)
            if g_:
                cut2.add((g_[0], g_[1] if short(c.name).endswith("eq") else g_[2]))
    for sw in sorted(tf2.reach):
        info = F.switch_info(tf2, sw)
        if not info or info[0] != "bool":
            continue
        for lab in ("0", "otherwise"):
            pos, os_ = F.bool_edge_polarity(tf2, sw, lab)
            for o in os_:
                if o.kind == "binop" and o.extra in ("Eq", "Ne") and (pos == (o.extra == "Eq")):
                    l_, r_ = o.place["l"], o.place["r"]
                    if l_.get("ty") == "char" and r_.get("ty") == "char" and l_["k"] != "const" and r_["k"] != "const":
                        t_ = tf2.blocks[sw]["term"]
                        tgt = t_["otherwise"] if lab == "otherwise" else [b_ for v_, b_ in t_["targets"] if v_ == "0"][0]
                        cut2.add((sw, tgt))
    free2 = tf2.reachable_from(0, avoid_edges=cut2)
    for i, s_ in duals:
        if cut2 and i not in free2:
            R.ok(rid, "dual", "Dual(a, b) only behind `previous character == a`", "%s:%d" % (tf2.file, s_["line"]))
        else:
            R.violation(rid, "dual|not-adjacent",
                        "a two-character operator is built without a test that the previous character read is the operator's first "
                        "character: characters that are not consecutive in the text (across a line break, or separated by blanks) can be "
                        "fused, e.g. a `-` ending a line and a `-` starting the next become a comment", ["%s:%d" % (tf2.file, s_["line"])])


def _may_take_bracket(P, g, depth=3, _seen=None):
    """does parser function g (or a parser function it calls, bounded) advance the token stream behind a test for `[`?"""
    _seen = _seen or set()
    if g.key in _seen or depth < 0:
        return False
    _seen.add(g.key)
    tests = False
    for c in g.calls:
        if re.search(r"PartialEq(<.*>)?>?::(eq|ne)$", short(c.name)) and any(_token_const(g, a_) == "LeftSquareParentheses" for a_ in c.args):
            tests = True
    for b in sorted(g.reach):
        info = F.switch_info(g, b)
        if info and info[0] == "discr" and (info[1].get("adt") or "").endswith("tokenizer::Token"):
            names = {dv: n for dv, n in info[1].get("variants", [])}
            if any(names.get(l) == "LeftSquareParentheses" for l in info[2] if l != "otherwise"):
                tests = True
    if tests and any(re.search(r"Parser::(next|expect_and_consume_token|consume_\w+)$", short(c.name)) for c in g.calls):
        return True
    for c in g.calls:
        for k in P.callee_keys(g, c):
            h = P.fns[k]
            if h.spath.startswith(PARSER) and _may_take_bracket(P, h, depth - 1, _seen):
                return True
    return False


def _rhs_source(R, f):
    """C13.rhs: what follows a binary operator is read by the operand parser (so that what follows *that* is again seen by the climbing
    loop).  An operator whose right side is read by some other routine is accepted only if that routine cannot take a `[`: otherwise
    the subscript in `x::T[i]` / `a OP b[i]` is swallowed and the expression no longer groups as the property says."""
    P = R.prog
    R.rule("C13.rhs", "in the climbing loop every operator's right side comes from the operand parser (parse_unary_operator, or the "
                      "bracketed expression of a subscript); an iteration that bypasses it calls nothing that may consume a `[`")
    nxt = [c for c in f.calls if short(c.name) == PARSER + "next" and PR.loop_of(f, c.bb)]
    if not nxt:
        R.note("C13.rhs: the climbing loop does not advance with Parser::next; not instantiated")
        return
    lp = PR.loop_of(f, nxt[0].bb)
    hdr, body = lp
    operand = [c for c in f.calls if c.bb in body and re.search(r"Parser::(parse_unary_operator|parse_expression_internal|parse_primary_expression|parse_expression)$", short(c.name))]
    if not operand:
        R.violation("C13.rhs", "loop|no-operand-parser", "the climbing loop never calls the operand parser for a right side", [f.loc(hdr)])
        return
    tgt = f.blocks[nxt[0].bb]["term"].get("target")
    by = f.reachable_from(tgt, avoid=set(c.bb for c in operand) | {hdr}) if tgt is not None else set()
    back = [b for b in by if b in body and any(y == hdr for y in f.succs(b))]
    if not back:
        R.ok("C13.rhs", "loop", "every iteration that continues the loop read its right side with the operand parser (%d call sites)" % len(operand),
             nxt[0].loc())
        return
    # blocks on some bypassing path from the operator to the back edge
    on_path = set(b for b in by if b in body and any(bb_ in f.reachable_from(b, avoid=set(c.bb for c in operand) | {hdr}) or bb_ == b for bb_ in back))
    bad = []
    for c in f.calls:
        if c.bb not in on_path or c is nxt[0]:
            continue
        for k in P.callee_keys(f, c):
            h = P.fns[k]
            if h.spath.startswith(PARSER) and _may_take_bracket(P, h):
                bad.append((c, h))
    if bad:
        c, h = bad[0]
        R.violation("C13.rhs", "loop|bypass|%s" % h.spath.split("::")[-1],
                    "an operator of the climbing loop reads its right side with %s instead of the operand parser, and %s takes a following `[` "
                    "for itself: a subscript after that operator's right side (`x::T[i]`) is no longer the tightest-binding operator applied "
                    "to the result" % (h.spath.split("::")[-1], h.spath.split("::")[-1]), [c.loc()])
    else:
        R.ok("C13.rhs", "loop", "iterations that bypass the operand parser call nothing that can take a `[`", nxt[0].loc())


def run(R):
    R.rule("C13.table", "precedence constants: min(p(::), p([), p(.)) > p(*) = p(/) > p(+) = p(-) > p(comparison) = p(IS) = p(IS NOT) = p(IN) = "
                        "p(NOT IN) > p(AND) > p(OR) >= 0 and every non-operator token maps below 0")
    R.rule("C13.assoc", "climbing loop: returns when token_precedence < min, recurses for the right operand with token_precedence + 1 only when "
                        "the next operator binds tighter (left associativity)")
    R.rule("C13.prefix", "prefix operators take their operand at the level the property assigns: NOT above comparisons and below AND, unary "
                         "minus above * / and not above cast / subscript / qualified name")
    R.rule("C13.fuse", "the tokenizer builds a two-character operator only behind a test that constrains the second character")
    R.rule("C13.in1", "IN / NOT IN accept a parenthesised single expression")
    bt, bf = binary_table(R)
    tt, default, tf = token_table(R)
    p = dict(bt)
    names = {"DoubleColon": "::", "LeftSquareParentheses": "[", "Is": "IS", "IsNot": "IS NOT", "In": "IN", "NotIn": "NOT IN", "And": "AND", "Or": "OR"}
    for k, v in tt.items():
        if k in names:
            p[names[k]] = v
    need = ["::", "[", ".", "*", "/", "+", "-", "<", "<=", ">", ">=", "=", "!=", "IS", "IS NOT", "IN", "NOT IN", "AND", "OR"]
    missing = [k for k in need if k not in p]
    loc = bf.loc()
    if missing:
        R.violation("C13.table", "missing|" + ",".join(missing), "no precedence found for %s" % missing, [loc, tf.loc()])
    else:
        cmpops = ["<", "<=", ">", ">=", "=", "!=", "IS", "IS NOT", "IN", "NOT IN"]
        checks = [
            ("postfix>mul", min(p["::"], p["["], p["."]) > p["*"], "cast / subscript / qualified name must bind tighter than * /"),
            ("mul=div", p["*"] == p["/"], "* and / must share a level"),
            ("mul>add", p["*"] > p["+"], "* / must bind tighter than + -"),
            ("add=sub", p["+"] == p["-"], "+ and - must share a level"),
            ("add>cmp", p["+"] > max(p[c] for c in cmpops), "+ - must bind tighter than comparisons"),
            ("cmp-equal", len(set(p[c] for c in cmpops)) == 1, "all comparisons, IS and IN must share one level (found %s)" % {c: p[c] for c in cmpops}),
            ("cmp>and", min(p[c] for c in cmpops) > p["AND"], "comparisons must bind tighter than AND"),
            ("and>or", p["AND"] > p["OR"], "AND must bind tighter than OR (a OR b AND c is a OR (b AND c))"),
            ("or>=0", p["OR"] >= 0, "OR must be a binary operator level (>= 0)"),
            ("default<0", default is not None and default < 0, "non-operator tokens must map below 0 (found %s)" % default),
        ]
        for key, ok, msg in checks:
            if ok:
                R.ok("C13.table", key, msg, loc)
            else:
                R.violation("C13.table", key, "precedence table: %s; table = %s" % (msg, {k: p[k] for k in need}), [loc, tf.loc()])
    # ---- climbing loop
    # the climbing loop: the Parser method that compares i32 precedences and reads the current token's precedence
    P = R.prog
    cands = []
    for g0 in P.fns.values():
        if g0.spath.startswith(PARSER) and g0.kind != "Closure" and (not PR.pinned_fns() or g0.spath in PR.pinned_fns()):
            g = PR.view(P, g0)
            ncmp = len([1 for _, s_ in g.stmts() if s_["rv"]["k"] == "binop" and s_["rv"]["op"] in ("Lt", "Le", "Gt", "Ge") and s_["rv"].get("lty") == "i32"])
            if ncmp >= 1 and any(short(c.name) == PARSER + "get_token_precedence" for c in g.calls):
                cands.append(g)
    if len(cands) != 1:
        R.violation("C13.assoc", "shape", "no single precedence-climbing loop found among the Parser methods (%d candidates)" % len(cands),
                    [R.need_fn(PARSER + "get_token_precedence").loc()])
        return
    f = cands[0]
    # recursive calls: to itself or to a wrapper that (only) forwards to it
    wrappers = {f.key}
    for g in P.fns.values():
        if not (g.spath.startswith(PARSER) and g.key != f.key and g.kind != "Closure"):
            continue
        # (the wrapper may hand the call to a `restoring_depth(.., |parser| parser.internal(..))` helper: closures spliced in)
        gd = PR.desugared(P, PR.view(P, g))
        if any(f.key in P.callee_keys(gd, c) for c in gd.calls) and len([c for c in gd.calls if not short(c.name).startswith("core::")]) <= 3:
            wrappers.add(g.key)
    rec = [c for c in f.calls if any(k in wrappers for k in P.callee_keys(f, c))]
    cmp_ops = [(i, s) for i, s in f.stmts() if s["k"] == "assign" and s["rv"]["k"] == "binop" and s["rv"]["op"] in ("Lt", "Le", "Gt", "Ge")
               and s["rv"].get("lty") == "i32"]
    if not rec or len(cmp_ops) < 2:
        R.violation("C13.assoc", "shape", "parse_binary_operator_rhs: climbing loop not recognised (%d recursive calls, %d precedence comparisons)"
                    % (len(rec), len(cmp_ops)), [f.loc()])
    else:
        problems = _climb_semantics(P, f, rec, cmp_ops)
        if problems:
            for key, msg, loc_ in problems:
                R.violation("C13.assoc", key, msg, [loc_])
        else:
            R.ok("C13.assoc", "loop", "loop continues iff token_precedence >= minimum; right operand extended iff the next operator binds "
                                      "strictly tighter, at token_precedence + 1", rec[0].loc())
    # ---- which operators may refuse to extend their right operand
    _climb_exclusions(R, f, rec, p if not missing else None)
    _rhs_source(R, f)
    # the operators the climbing loop sees are the operators that were written: the tokenizer takes no operator token back and rewrites
    # the last token only into the lexical merges (a `-` folded into a following literal changes `a OP b -1` into `a OP b (-1)`)
    from . import rules_c20
    from .rules_c16 import RemapRules
    rules_c20._merge_table(RemapRules(R, "C20.merge", "C13.tokens"), R.need_fn("sqlgrep::parsing::tokenizer::tokenize"))
    # ---- prefix operators
    # the prefix-operator function: the Parser method that builds the Invert (NOT) node
    pinned_ = PR.pinned_fns()
    ufs = [PR.view(P, g) for g in P.fns.values() if g.spath.startswith(PARSER) and g.kind != "Closure" and (not pinned_ or g.spath in pinned_)]
    ufs = [g for g in ufs if any(s_["rv"]["k"] == "aggr" and s_["rv"].get("variant") == "Invert" for _, s_ in g.stmts())]
    if len(ufs) != 1:
        R.violation("C13.prefix", "shape", "no single Parser method builds the NOT node (%d)" % len(ufs), [f.loc()])
        return
    uf = ufs[0]
    calls = [c for c in uf.calls if any(k in wrappers for k in P.callee_keys(uf, c))]
    levels = {}
    ufa = PR.facts(uf)

    def arm_at(bb):
        for w in (ufa.worlds_at(bb) or []):
            names, star = _variants_of_world(ufa, w)
            if "Not" in names:
                return "not"
        return "minus"
    for c in calls:
        if c.args[1]["k"] == "const":
            arm = "minus"
            ws = ufa.worlds_at(c.bb) or []
            if ws and all("Not" in _variants_of_world(ufa, w)[0] for w in ws):
                arm = "not"
            levels[arm] = c.args[1].get("int")
        else:
            # the level is chosen into a local first: one constant per arm
            for i, st in uf.stmts():
                if st["k"] == "assign" and st["rv"]["k"] == "use" and st["rv"]["op"]["k"] == "const" and "int" in st["rv"]["op"] and \
                        st["rv"]["op"].get("ty") == "i32" and c.bb in uf.reachable_from(i):
                    feeds = any(o.kind == "const" and o.const is st["rv"]["op"] for o in F.origins(uf, c.args[1], depth=6, through_calls=False))
                    if feeds:
                        ws = ufa.worlds_at(i) or []
                        arm = "not" if ws and all("Not" in _variants_of_world(ufa, w)[0] for w in ws) else "minus"
                        levels[arm] = st["rv"]["op"]["int"]
    if not missing:
        cmpl = p["<"]
        ok_not = levels.get("not") is not None and p["AND"] < levels["not"] <= cmpl
        ok_minus = levels.get("minus") is not None and p["*"] < levels["minus"] <= min(p["::"], p["["], p["."])
        if ok_not:
            R.ok("C13.prefix", "not", "NOT operand parsed at level %s (comparisons %s, AND %s)" % (levels["not"], cmpl, p["AND"]), uf.loc())
        else:
            R.violation("C13.prefix", "not", "NOT takes its operand at level %s: it must include comparisons (level %s) and exclude AND (level %s) "
                                             "so that NOT a = b is NOT (a = b)" % (levels.get("not"), cmpl, p["AND"]), [uf.loc()])
        if ok_minus:
            R.ok("C13.prefix", "minus", "unary minus operand parsed at level %s" % levels["minus"], uf.loc())
        else:
            R.violation("C13.prefix", "minus", "unary minus takes its operand at level %s: it must include cast/subscript/qualified name "
                                               "(levels %s) and exclude * / (level %s)" % (levels.get("minus"), (p["::"], p["["], p["."]), p["*"]),
                        [uf.loc()])
    # every successful return of the prefix function goes through the climb, except the plain operand and the `*` wildcard
    oks = [(i, s_) for i, s_ in uf.stmts() if s_["k"] == "assign" and s_["pl"]["l"] == 0 and s_["rv"]["k"] == "aggr" and s_["rv"].get("variant") == "Ok"]
    climb_blocks = [c.bb for c in calls]
    bad_ok = []
    free = uf.reachable_from(0, avoid=set(climb_blocks))
    for i, s_ in oks:
        if i not in free:
            continue  # every path to this return passes a climb call
        # the wildcard return: the value built is ParserExpressionTreeData::Wildcard
        reg_w = any(s2["rv"]["k"] == "aggr" and s2["rv"].get("variant") == "Wildcard" for i2, s2 in uf.stmts() if uf.dominates(i2, i) or i2 == i)
        near_w = any(s2["rv"]["k"] == "aggr" and s2["rv"].get("variant") == "Wildcard" for i2, s2 in uf.stmts()
                     if i in uf.reachable_from(i2) and len(uf.reachable_from(i2)) <= 12)
        if reg_w or near_w:
            continue
        bad_ok.append((i, s_))
    if bad_ok:
        R.violation("C13.prefix", "early-return",
                    "the prefix-operator function returns an operand without climbing the tighter-binding postfix / comparison operators first "
                    "(e.g. folding `-1` into a literal): `-1::text` would group as `(-1)::text`", ["%s:%d" % (uf.file, bad_ok[0][1]["line"])])
    elif oks:
        R.ok("C13.prefix", "returns", "every successful return after a prefix operator passes the climb (or is the `*` wildcard)", uf.loc())
    # ---- tokenizer fuse
    tf2 = R.need_fn("sqlgrep::parsing::tokenizer::tokenize")
    duals = [(i, s) for i, s in tf2.stmts() if s["k"] == "assign" and s["rv"]["k"] == "aggr" and s["rv"].get("variant") == "Dual"]
    if not duals:
        R.violation("C13.fuse", "no-dual", "the tokenizer no longer builds two-character operators (<=, >=, != would be lost)", [tf2.loc()])
    def base_local(op):
        """the named local an operand is a plain copy of"""
        if op["k"] not in ("copy", "move") or op["pl"]["p"]:
            return None
        l = op["pl"]["l"]
        for _ in range(3):
            if tf2.local_name(l):
                return l
            nxt = [s2["rv"]["op"]["pl"]["l"] for _, s2 in tf2.stmts()
                   if s2["k"] == "assign" and s2["pl"]["l"] == l and not s2["pl"]["p"] and s2["rv"]["k"] == "use"
                   and s2["rv"]["op"]["k"] in ("copy", "move") and not s2["rv"]["op"]["pl"]["p"]]
            if len(nxt) != 1:
                return l
            l = nxt[0]
        return l

    for i, s in duals:
        second = base_local(s["rv"]["ops"][1]) if len(s["rv"]["ops"]) == 2 else None
        # cut edges: true edges of tests `<second char> == <const char>`
        cut = set()
        for sw in sorted(tf2.reach):
            info = F.switch_info(tf2, sw)
            if not info or info[0] != "bool":
                continue
            for lab in ("0", "otherwise"):
                pos, os_ = F.bool_edge_polarity(tf2, sw, lab)
                for o in os_:
                    if o.kind == "binop" and o.extra == "Eq" and pos:
                        for side in (o.place["l"], o.place["r"]):
                            if side["k"] == "const" and side.get("ty") == "char":
                                other = o.place["r"] if side is o.place["l"] else o.place["l"]
                                if second is not None and base_local(other) == second:
                                    t_ = tf2.blocks[sw]["term"]
                                    tgt = t_["otherwise"] if lab == "otherwise" else [b_ for v_, b_ in t_["targets"] if v_ == "0"][0]
                                    cut.add((sw, tgt))
        free = tf2.reachable_from(0, avoid_edges=cut)
        if cut and i not in free:
            R.ok("C13.fuse", "dual", "Dual(a, b) is reachable only through a test `b == <char>` on the second character",
                 "%s:%d" % (tf2.file, s["line"]))
        else:
            R.violation("C13.fuse", "dual|unconstrained",
                        "the tokenizer merges any character following < > ! = - into a two-character operator: `x=-1` becomes the undefined "
                        "operator `=-` and `x - -1` a comment", ["%s:%d" % (tf2.file, s["line"])])
    adjacency_rule(R, "C13.adjacent", tf2, duals)
    # ---- IN with one element
    et = [(i, s) for i, s in f.stmts() if s["k"] == "assign" and s["rv"]["k"] == "aggr" and s["rv"].get("variant") == "ExpectedTuple"]
    if et:
        R.violation("C13.in1", "expected-tuple", "IN / NOT IN reject a right-hand side that is not a comma list: `x IN (5)` is an error",
                    ["%s:%d" % (f.file, et[0][1]["line"])])
    else:
        R.ok("C13.in1", "in", "no ExpectedTuple rejection in the IN arms", f.loc())
    R.assume("precedence climbing with a correct table parses as the reference grammar (standard result, not re-proved)")
