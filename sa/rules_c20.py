"""C20 — a statement's meaning does not depend on layout, letter case or clause order."""
import re
from .prog import short, place_fields
from .core import EngineError
from . import flow as F
from . import pathrules as PR

LOWER = re.compile(r"(^|::)(to_lowercase|to_ascii_lowercase|to_uppercase|to_ascii_uppercase|eq_ignore_ascii_case)$")
STR_TYS = ("str", "&str", "alloc::string::String", "&alloc::string::String", "&&str")
# string comparisons between two identifiers (table / column names): case-sensitive by design
IDENT_COMPARE_FNS = {"sqlgrep::parsing::parser_tree_converter::transform_join"}


def _origin_kinds(f, op):
    os_ = F.origins(f, op, depth=14)
    calls = [short(o.call.name) for o in os_ if o.kind == "call"]
    lits = [o for o in os_ if o.kind == "const"]
    return os_, calls, lits


def _unfolded_sources(P, f, op, depth=3, _seen=None):
    """[] if the operand is case-folded on its way here: inside f, or (when it is a parameter of f) in every caller that supplies it.
    Otherwise the (function, location) pairs where an unfolded name enters."""
    _seen = _seen or set()
    os_, calls, _ = _origin_kinds(f, op)
    if any(LOWER.search(x) for x in calls):
        return []
    args = sorted(set(o.arg for o in os_ if o.kind == "arg"))
    if not args or f.kind == "Closure" or depth == 0 or f.key in _seen:
        return [(f, f.loc())]
    # every other origin must be a plain pass-through for the parameter to be the (only) source
    if any(o.kind not in ("arg", "call", "place", "aggr") for o in os_):
        return [(f, f.loc())]
    callers = [(g, c2) for g in P.fns.values() if g.target == f.target for c2 in g.calls if f.key in P.callee_keys(g, c2)]
    if not callers:
        return [(f, f.loc())]
    out = []
    for g, c2 in callers:
        for a in args:
            if a - 1 < len(c2.args):
                out += [(h, loc if h is not g else c2.loc()) for h, loc in _unfolded_sources(P, g, c2.args[a - 1], depth - 1, _seen | {f.key})]
    return out


MERGE_OK = {("Keyword", "IsNot"), ("Keyword", "NotIn"), ("DoubleColon", None), ("RightArrow", None), ("Operator", "Dual")}


def _merge_table(R, tf):
    """whitespace between two tokens means nothing because a token, once emitted, is final - except for a closed set of merges"""
    P = R.prog
    R.rule("C20.merge", "the token list is append-only except for the lexical grammar's own merges: the last token is rewritten only into "
                        "IS NOT / NOT IN / :: / => / a two-character operator, and a token is removed only where `--` starts a comment - no other "
                        "place takes an emitted token back (`-` `1` stays two tokens whether or not a blank separates them)")
    shrink = [c for c in tf.calls if re.search(r"^alloc::vec::Vec::(pop|remove|truncate|clear|insert|swap_remove|retain|drain|split_off|dedup\w*)$", short(c.name))
              and c.args and "ParserToken" in (c.args[0].get("ty") or "")]
    n = 0
    for c in shrink:
        minus = 0
        for (sw, lab, tgt) in F.guards_dominating(tf, c.bb):
            info = F.switch_info(tf, sw)
            if info and info[0] == "int" and info[1].get("ty") == "char" and lab == "45":
                minus += 1
        n += 1
        if minus >= 2 and short(c.name).split("::")[-1] in ("pop", "remove", "truncate"):
            R.ok("C20.merge", "tokenize|comment-start", "a token is taken back only behind `last token is the operator --` (comment start)", c.loc())
        else:
            R.violation("C20.merge", "tokenize|token-retracted",
                        "tokenize takes an already emitted token back (%s) somewhere else than at the start of a `--` comment: what the "
                        "characters mean then depends on whether they touch (e.g. `-1` and `- 1` tokenize differently)"
                        % short(c.name).split("::")[-1], [c.loc()])
    stores = [(i, s_) for i, s_ in tf.stmts() if s_["k"] == "assign" and "*" in s_["pl"]["p"] and
              any(isinstance(e, dict) and e.get("n") == "token" and (e.get("adt") or "").endswith("ParserToken") for e in s_["pl"]["p"])]
    def token_kinds(op, depth=8, seen=None):
        """the Token values an operand can hold: {(variant, sub-variant)} read from the aggregates that define it (through moves and
        Some(..) / tuple wrappers of an inlined helper's Option<Token> result); None when a definition is something else"""
        seen = seen or set()
        if op.get("k") == "const" or depth == 0:
            return None
        l = op["pl"]["l"]
        if l in seen:
            return set()
        seen = seen | {l}
        defs = [d for j, d in tf.stmts() if d["k"] == "assign" and d["pl"]["l"] == l and not d["pl"]["p"]]
        # (`?` inside an inlined Option-returning helper defines the result through from_residual: that is the None case)
        if not defs or [c for c in tf.calls if c.dest is not None and c.dest["l"] == l and not c.dest["p"]
                        and not short(c.name).endswith("::from_residual")]:
            return None
        out = set()
        for d in defs:
            rv = d["rv"]
            if rv["k"] == "aggr" and (rv.get("adt") or "").endswith("tokenizer::Token"):
                var, sub = rv.get("variant"), None
                for o2 in rv["ops"]:
                    if o2.get("k") == "const":
                        m = re.search(r"(Keyword|Operator)::(\w+)", str(o2.get("v", "")))
                        sub = m.group(2) if m else sub
                    elif o2.get("k") in ("copy", "move") and not o2["pl"]["p"]:
                        d2 = [x for j, x in tf.stmts() if x["k"] == "assign" and x["pl"]["l"] == o2["pl"]["l"] and not x["pl"]["p"] and x["rv"]["k"] == "aggr"]
                        if len(d2) == 1:
                            sub = d2[0]["rv"].get("variant")
                        elif var in ("Keyword", "Operator"):
                            # the payload chosen by a helper (`Some(compound) => Token::Keyword(compound)`): every value it can be
                            subs = sub_variants(o2, 8, frozenset())
                            if subs:
                                for sv in subs:
                                    out.add((var, sv))
                                sub = "*"
                if sub != "*":
                    out.add((var, sub if var in ("Keyword", "Operator") else None))
            elif rv["k"] == "aggr" and rv.get("variant") in ("Some", "Ok") and len(rv["ops"]) == 1:
                sub_ = token_kinds(rv["ops"][0], depth - 1, seen)
                if sub_ is None:
                    return None
                out |= sub_
            elif rv["k"] == "aggr" and rv.get("variant") in ("None",):
                continue
            elif rv["k"] == "use" and rv["op"].get("k") in ("copy", "move"):
                sub_ = token_kinds(rv["op"], depth - 1, seen)
                if sub_ is None:
                    return None
                out |= sub_
            else:
                return None
        return out

    def sub_variants(op, depth, seen):
        """the unit variants a Keyword / Operator local can hold: through moves, and through `Some(x)` built in one place and taken apart
        in another; None when something else defines it"""
        if depth == 0 or op.get("k") not in ("copy", "move"):
            return None
        pl = op["pl"]
        l = pl["l"]
        sel = [e for e in pl["p"] if isinstance(e, dict)]
        if (l, len(sel)) in seen:
            return set()
        seen = seen | {(l, len(sel))}
        defs = [d for j, d in tf.stmts() if d["k"] == "assign" and d["pl"]["l"] == l and not d["pl"]["p"]]
        if not defs or [c for c in tf.calls if c.dest is not None and c.dest["l"] == l and not c.dest["p"]
                        and not short(c.name).endswith("::from_residual")]:
            return None
        out = set()
        for d in defs:
            rv = d["rv"]
            if rv["k"] == "aggr" and not sel and re.search(r"tokenizer::(Keyword|Operator)$", rv.get("adt") or "") and not rv["ops"]:
                out.add(rv.get("variant"))
            elif rv["k"] == "aggr" and sel and rv.get("variant") in ("Some", "Ok") and len(rv["ops"]) == 1:
                sub_ = sub_variants(rv["ops"][0], depth - 1, seen)
                if sub_ is None:
                    return None
                out |= sub_
            elif rv["k"] == "aggr" and sel and rv.get("variant") in ("None",):
                continue
            elif rv["k"] == "use" and rv["op"].get("k") in ("copy", "move"):
                o3 = rv["op"]
                if sel:
                    o3 = {"k": "copy", "pl": {"l": o3["pl"]["l"], "p": list(o3["pl"]["p"]) + sel}}
                sub_ = sub_variants(o3, depth - 1, seen)
                if sub_ is None:
                    return None
                out |= sub_
            elif rv["k"] == "use" and rv["op"].get("k") == "const":
                m = re.search(r"(Keyword|Operator)::(\w+)", str(rv["op"].get("v", "")))
                if not m:
                    return None
                out.add(m.group(2))
            else:
                return None
        return out

    for i, s_ in stores:
        rv = s_["rv"]
        if rv["k"] == "use" and rv["op"].get("k") in ("copy", "move"):
            kinds = token_kinds(rv["op"])
        elif rv["k"] == "aggr":
            kinds = token_kinds({"k": "copy", "pl": {"l": -1, "p": []}}) if False else None
            var = rv.get("variant")
            kinds = {(var, None)} if (rv.get("adt") or "").endswith("tokenizer::Token") and var not in ("Keyword", "Operator") else None
        else:
            kinds = None
        n += 1
        if kinds and kinds <= MERGE_OK:
            for kind in sorted(kinds, key=str):
                R.ok("C20.merge", "tokenize|rewrite|%s" % "::".join(x for x in kind if x), "last token rewritten into %s" % "::".join(x for x in kind if x),
                     "%s:%d" % (tf.file, s_["line"]), nontrivial=False)
            continue
        kind = sorted(kinds - MERGE_OK, key=str)[0] if kinds else None
        if kind in MERGE_OK:
            R.ok("C20.merge", "tokenize|rewrite|%s" % "::".join(x for x in kind if x), "last token rewritten into %s" % "::".join(x for x in kind if x),
                 "%s:%d" % (tf.file, s_["line"]), nontrivial=False)
        else:
            R.violation("C20.merge", "tokenize|rewrite|%s" % ("::".join(x for x in kind if x) if kind else "unknown"),
                        "tokenize rewrites an already emitted token into %s, which is not one of the lexical grammar's merges (IS NOT, NOT IN, ::, "
                        "=>, two-character operators): the token stream depends on how the characters are laid out"
                        % ("::".join(x for x in kind if x) if kind else "a value the rule cannot identify"), ["%s:%d" % (tf.file, s_["line"])])
    if n == 0:
        raise EngineError("C20.merge: no token merge site found in tokenize (anchors lost)")


def _char_counter_slices(R, tf):
    """C20.slice: the tokenizer reads the text as a stream of characters; where it also cuts the text by position, the positions are byte
    offsets - never a counter that advances by one per character (a non-ASCII character in a comment or a literal, which must not
    change the parse, would shift every later cut)"""
    P = R.prog
    R.rule("C20.slice", "no slice of the input text in the tokenizer is addressed by a per-character counter (a field or local advanced "
                        "by the constant 1): byte offsets and character counts differ as soon as a comment or literal holds a non-ASCII character")
    cuts = [c for c in tf.calls if re.search(r"Index<I> for str>::index$|^core::str::<impl str>::(get|split_at|get_unchecked|split_at_checked)$", short(c.name))
            and c.args and any(o.kind == "arg" and o.arg == 1 for o in F.origins(tf, c.args[0], depth=8))]
    # counters: fields (of any local struct) / locals of tokenize's family that are advanced by `+ 1`
    fam = [tf] + [g for g in P.fns.values() if g.target == "lib" and (g.spath.startswith(tf.spath + "::") or g.parent_key == getattr(tf, "key", None))]
    ones = set()
    for g in fam:
        for _, st in g.stmts():
            if st["k"] == "assign" and st["rv"]["k"] == "binop" and st["rv"]["op"] in ("Add", "AddWithOverflow", "AddUnchecked"):
                l_, r_ = st["rv"]["l"], st["rv"]["r"]
                if r_.get("k") == "const" and r_.get("int") == 1 and l_.get("k") in ("copy", "move"):
                    fl = place_fields(l_["pl"])
                    if fl:
                        ones.add(("field", fl[-1]))
                    elif g is tf:
                        ones.add(("local", l_["pl"]["l"]))
    bad = []
    for c in cuts:
        seen_pl = []
        for a_ in c.args[1:]:
            if a_.get("k") in ("copy", "move"):
                F.origins(tf, a_, depth=12, visit=seen_pl.append)
        for pl in seen_pl:
            fl = place_fields(pl)
            if (fl and ("field", fl[-1]) in ones) or (not fl and ("local", pl["l"]) in ones and not pl["p"]):
                bad.append((c, fl[-1] if fl else tf.local_name(pl["l"]) or "_%d" % pl["l"]))
                break
    if bad:
        for c, nm in bad[:2]:
            R.violation("C20.slice", "tokenize|char-counter-slice|%s" % nm,
                        "tokenize cuts the input text at `%s`, which counts characters (+1 per character) while str positions are bytes: a "
                        "non-ASCII character in an earlier comment or string literal shifts the cut, so two texts that differ only in a comment "
                        "tokenize differently (or the slice panics)" % nm, [c.loc()])
    else:
        R.ok("C20.slice", "tokenize", "%d cut(s) of the input text, none addressed by a per-character counter" % len(cuts), tf.loc(), nontrivial=False)


def _parser_memo(R):
    """C20.memo: the parser carries no memory from one clause to the next except its cursor and nesting depth: a field that one parsing
    routine fills and another consults makes the result depend on the order in which the clauses were written"""
    import json, os
    P = R.prog
    PADT = "sqlgrep::parsing::parser::Parser"
    R.rule("C20.memo", "no field of Parser other than the pinned cursor / depth / operator tables is both changed while parsing and read while "
                       "parsing: what a clause means does not depend on which clauses were parsed before it")
    a = P.adts.get(PADT)
    if not a:
        return
    try:
        with open(os.path.join(os.path.dirname(os.path.dirname(os.path.abspath(__file__))), "tables", "pinned_fns.json")) as fh:
            pinned = set(n for n, _ in json.load(fh).get("fields", {}).get(PADT, []))
    except Exception:
        pinned = set()
    fresh = [fl["name"] for fl in a["variants"][0]["fields"] if fl["name"] not in pinned] if pinned else []
    bad = []
    for n in fresh:
        wr, rd = [], []
        for f in P.fns.values():
            if f.target != "lib" or f.derived:
                continue
            builds = any(st["k"] == "assign" and st["rv"]["k"] == "aggr" and st["rv"].get("adt") == PADT for _, st in f.stmts())
            for i, st in f.stmts():
                if st["k"] != "assign":
                    continue
                inpl = any(isinstance(e, dict) and e.get("n") == n and e.get("adt") == PADT for e in st["pl"]["p"])
                rv = st["rv"]
                rpl = rv.get("pl") if rv["k"] in ("ref", "copy_for_deref", "rawptr", "discr") else (rv.get("op") or {}).get("pl") if rv["k"] in ("use", "cast") else None
                inrv = rpl is not None and any(isinstance(e, dict) and e.get("n") == n and e.get("adt") == PADT for e in rpl["p"])
                if inpl or (inrv and rv["k"] in ("ref", "rawptr") and rv.get("bk") in ("mut", "Mut")):
                    if not builds:
                        wr.append("%s:%d" % (f.file, st["line"]))
                elif inrv:
                    rd.append("%s:%d" % (f.file, st["line"]))
        if wr and rd:
            # a statistics counter (`n += 1`, printed under a debug flag) is written and read but decides nothing
            from . import effects as E
            decides = False
            for f in P.fns.values():
                if f.target == "lib" and not f.derived and f.spath.startswith("sqlgrep::parsing::parser::") and \
                        E.taint_sinks(f, lambda pl, n_=n: E._self_field_place(pl, {n_})):
                    decides = True
                    break
            if decides:
                bad.append((n, wr[0], rd[0]))
    if bad:
        for n, w, r_ in bad[:2]:
            R.violation("C20.memo", "Parser|%s" % n, "Parser.%s is filled while parsing (%s) and consulted while parsing (%s): a clause is "
                        "then read differently depending on which clauses came before it, so two orders of the same clauses do not parse "
                        "to the same statement" % (n, w, r_), [r_])
    else:
        R.ok("C20.memo", "Parser", "no new parser field is both written and read while parsing (new fields: %s)" % (fresh or "none"),
             "src/parsing/parser.rs", nontrivial=False)


def _whitespace_kinds(R, tf):
    """C20.space: between tokens any kind of whitespace is skipped - the test is char::is_whitespace (CR, form feed, NBSP .. included),
    not a hand-picked list of characters"""
    R.rule("C20.space", "the tokenizer decides `skip this character` with char::is_whitespace applied to the character just read (every "
                        "kind of whitespace and line break separates tokens alike)")
    ws = [c for c in tf.calls if re.search(r"^core::char::methods::<impl char>::is_whitespace$", short(c.name)) and c.args and
          any(o.kind == "call" and re.search(r"next_char$|Iterator>::next$", short(o.call.name)) for o in F.origins(tf, c.args[0], depth=10))]
    if not ws:
        R.violation("C20.space", "tokenize|whitespace-test", "tokenize no longer tests the character it read with char::is_whitespace: only "
                    "some kinds of whitespace separate tokens now (a CR of a CRLF line ending, a form feed or a no-break space becomes part "
                    "of a token or an error), so two layouts of one statement parse differently", [tf.loc()])
        return
    g = PR.bool_guard(tf, ws[0])
    adds = [c for c in tf.calls if short(c.name) == "alloc::vec::Vec::push" and "ParserToken" in " ".join(c.func.get("res_targs") or c.targs or [])]
    if g is not None and not any(PR.dominated_by_edge(tf, c.bb, g[0], g[1]) for c in adds):
        R.ok("C20.space", "tokenize", "is_whitespace(current) => nothing is emitted", ws[0].loc())
    else:
        R.violation("C20.space", "tokenize|whitespace-emits", "a token is emitted on the is_whitespace edge", [ws[0].loc()])


def run(R):
    _parser_memo(R)
    P = R.prog
    R.rule("C20.case", "every lookup of a keyword, function, aggregate, type or modifier name (static-table lookups, ValueType::from_str, "
                       "string equality against a literal) applies to a lower-cased operand")
    R.rule("C20.clauses", "the JOIN / WHERE / GROUP BY / HAVING / LIMIT arms of parse_select all sit in one loop, each filling its own slot")
    R.rule("C20.layout", "token locations do not reach the statement: Statement / ExpressionTree / TableDefinition carry no TokenLocation")
    R.rule("C20.verbatim", "inside a string literal the pushed character is the loop character itself, and the string branch precedes "
                           "every case-folding branch")
    n = 0
    for f in sorted(P.fns.values(), key=lambda f: (f.file, f.line)):
        if f.target != "lib" or f.derived or not f.spath.startswith("sqlgrep::parsing"):
            continue
        owner = f
        while owner.kind == "Closure" and owner.parent_key in P.fns:
            owner = P.fns[owner.parent_key]
        for c in f.calls:
            sn = short(c.name)
            ts = c.func.get("res_targs") or c.targs
            site = None
            var_ops = []
            if re.search(r"hash::(map::HashMap::get|set::HashSet::contains)$", sn) and ts and ts[0] == "alloc::string::String":
                site = "lookup"
                var_ops = [c.args[1]]
            elif sn == "sqlgrep::model::ValueType::from_str":
                site = "type-name"
                var_ops = [c.args[0]]
            elif re.search(r"PartialEq(<.*>)?>::(eq|ne)$|impl core::cmp::PartialEq<.*> for .*>::(eq|ne)$", sn) and ts and \
                    all(t in STR_TYS for t in ts[:2]) and len(c.args) == 2:
                a, b = c.args
                la = _origin_kinds(f, a)
                lb = _origin_kinds(f, b)
                a_lit = bool(la[2]) and not la[1] and all(o.kind == "const" for o in la[0])
                b_lit = bool(lb[2]) and not lb[1] and all(o.kind == "const" for o in lb[0])
                if a_lit == b_lit:
                    continue  # literal/literal or identifier/identifier comparison
                if owner.spath in IDENT_COMPARE_FNS:
                    continue
                site = "literal-compare"
                var_ops = [b if a_lit else a]
            if site is None:
                continue
            n += 1
            key = "%s|%s" % (owner.spath, site)
            unfolded = []
            for op in var_ops:
                unfolded += _unfolded_sources(P, f, op)
            what = {"lookup": "a static-table lookup", "type-name": "ValueType::from_str", "literal-compare": "a comparison with a literal"}[site]
            if not unfolded:
                R.ok("C20.case", key, "operand passes through to_lowercase (in this function or in every caller that supplies it)", c.loc())
            else:
                seen_k = set()
                for g, loc in unfolded:
                    og = g
                    while og.kind == "Closure" and og.parent_key in P.fns:
                        og = P.fns[og.parent_key]
                    k2 = key if og.key == owner.key else "%s|%s<-%s" % (owner.spath, site, og.spath.split("::")[-1])
                    if k2 in seen_k:
                        continue
                    seen_k.add(k2)
                    R.violation("C20.case", k2,
                                "%s in %s is applied to a name that %s supplies without case-folding: the statement's meaning depends on letter "
                                "case (e.g. `x::INT`, `SPLIT`)" % (what, owner.path, og.path), [loc, c.loc()])
    # match on &str literals is lowered to str == comparisons as well; floor counted on the pinned tree
    R.floor("C20.case", 15)
    # ---- clause loop
    f = R.need_fn("sqlgrep::parsing::parser::Parser::parse_select")
    want = {"Where", "Inner", "Outer", "Group", "Having", "Limit"}
    found = False
    for sw in sorted(f.reach):
        info = F.switch_info(f, sw)
        if not info or info[0] != "discr" or not (info[1].get("adt") or "").endswith("tokenizer::Keyword"):
            continue
        names = {dv: nme for dv, nme in info[1].get("variants", [])}
        arms = {names.get(l): b for l, b in info[2].items() if l != "otherwise"}
        if not want <= set(arms):
            continue
        found = True
        lp = PR.loop_of(f, sw)
        if lp is None:
            R.violation("C20.clauses", "parse_select|no-loop", "the clause dispatch of parse_select is not inside a loop: clauses are accepted in "
                                                               "one fixed order only", [f.loc(sw)])
            break
        header, body = lp
        for cl in sorted(want):
            tgt = arms[cl]
            reg = f.reachable_from(tgt)
            if header in reg and tgt in body:
                R.ok("C20.clauses", "parse_select|" + cl, "arm returns to the clause loop", f.loc(tgt))
            else:
                R.violation("C20.clauses", "parse_select|" + cl, "the %s arm does not return to the clause loop: a clause after it is rejected or "
                                                                 "order matters" % cl.upper(), [f.loc(tgt)])
        break
    if not found:
        # clauses dispatched elsewhere (e.g. nested matches): every clause keyword must be tested inside one common loop
        R.violation("C20.clauses", "parse_select|dispatch", "parse_select has no single dispatch over WHERE / INNER / OUTER / GROUP / HAVING / LIMIT",
                    [f.loc()])
    # ---- no location data in the statement types
    bad = []
    for key in ("sqlgrep::model::Statement", "sqlgrep::model::ExpressionTree", "sqlgrep::model::SelectStatement", "sqlgrep::model::AggregateStatement",
                "sqlgrep::model::CreateTableStatement", "sqlgrep::data_model::TableDefinition", "sqlgrep::data_model::ColumnDefinition"):
        a = P.adts.get(key)
        if not a:
            continue
        for v in a["variants"]:
            for fl in v["fields"]:
                if "TokenLocation" in fl["ty"]:
                    bad.append("%s.%s" % (key, fl["name"]))
    if bad:
        R.violation("C20.layout", "location-in-statement", "statement types carry token positions: %s (two layouts of one text parse differently)" % bad,
                    ["src/model.rs"])
    else:
        R.ok("C20.layout", "statement-types", "no TokenLocation field in Statement / ExpressionTree / TableDefinition", "src/model.rs")
    # ---- verbatim string literals
    tf = R.need_fn("sqlgrep::parsing::tokenizer::tokenize")
    _char_counter_slices(R, tf)
    _whitespace_kinds(R, tf)
    pushes = [c for c in tf.calls if short(c.name) == "alloc::string::String::push"]
    folds = [c for c in tf.calls if LOWER.search(short(c.name))]
    # the push into current_str: receiver derives from the Option<String> named current_str
    lit_push = []
    for c in pushes:
        for o in F.origins(tf, c.args[0], depth=10):
            if o.kind == "call" and short(o.call.name).endswith("Option::as_mut"):
                lit_push.append(c)
    if len(lit_push) != 1:
        R.violation("C20.verbatim", "tokenize|literal-push", "could not identify the single push into the current string literal (found %d)"
                    % len(lit_push), [tf.loc()])
    else:
        c = lit_push[0]
        os_ = F.origins(tf, c.args[1], depth=6)
        modified = [o for o in os_ if o.kind in ("binop", "unop", "cast") or (o.kind == "call" and not re.search(r"next_char$|Option", short(o.call.name)))]
        lp = PR.loop_of(tf, c.bb)
        hdr = {lp[0]} if lp else set()
        later_folds = [x for x in folds if not tf.dominates(c.bb, x.bb) and c.bb in tf.reachable_from(x.bb, avoid=hdr)]
        if modified:
            R.violation("C20.verbatim", "tokenize|modified-char", "characters inside a string literal are transformed (%s) before they are stored"
                        % modified[0], [c.loc()])
        elif later_folds:
            R.violation("C20.verbatim", "tokenize|fold-before-literal", "a case-folding call can execute before the string-literal branch",
                        [later_folds[0].loc()])
        else:
            R.ok("C20.verbatim", "tokenize", "literal characters pushed unmodified; no case folding on the path to the literal branch", c.loc())
    # ---- comments are invisible: nothing is emitted or accumulated while inside a `--` comment
    R.rule("C20.comment", "inside a `--` comment no token is emitted and no literal / identifier text is accumulated: every token emission and "
                          "every character push of the tokenizer loop is dominated by the `not in a comment` edge")
    # the comment flag: the bool local set to `true` where the last token is matched as the operator Dual('-', '-')
    cl = []
    for i, st in tf.stmts():
        if st["k"] == "assign" and not st["pl"]["p"] and st["rv"]["k"] == "use" and st["rv"]["op"]["k"] == "const" and \
                st["rv"]["op"].get("v") == "true" and tf.local_ty(st["pl"]["l"]) == "bool" and tf.local_name(st["pl"]["l"]):
            # set to true exactly where the last token was matched as the operator Dual('-', '-') (directly or through a `matches!` flag)
            for (gsw, lab, tgt) in F.guards_dominating(tf, i):
                d = tf.blocks[gsw]["term"]["discr"]
                if d["k"] in ("copy", "move") and lab == "45" and any(isinstance(e, dict) and e.get("d") == "Dual" for e in d["pl"]["p"]):
                    if st["pl"]["l"] not in cl and PR.loop_of(tf, i):
                        cl.append(st["pl"]["l"])
    # of these, the comment state is the one that survives the iteration (a per-character `matches!` temporary is not)
    carried = [l for l in cl if any(st2["k"] == "assign" and st2["pl"]["l"] == l and st2["rv"]["k"] == "use" and st2["rv"]["op"]["k"] == "const"
                                    and st2["rv"]["op"].get("v") == "false" for _, st2 in tf.stmts())]
    if carried:
        named = [l for l in carried if not any(st3["k"] == "assign" and st3["rv"]["k"] == "use" and st3["rv"]["op"]["k"] in ("copy", "move")
                                               and not st3["rv"]["op"]["pl"]["p"] and st3["rv"]["op"]["pl"]["l"] == l and st3["pl"]["l"] in carried
                                               for _, st3 in tf.stmts())]
        cl = named or carried
        # a `matches!` temporary is assigned true AND false in the same iteration without being loop carried: prefer the local that is
        # also assigned outside the match (reset at the line break / initialised before the loop)
        outside = [l for l in cl if any(not PR.loop_of(tf, i2) for i2, st2 in tf.stmts() if st2["k"] == "assign" and st2["pl"]["l"] == l)]
        if outside:
            cl = outside
    csw = []
    for sw in sorted(tf.reach):
        t = tf.blocks[sw]["term"]
        if t["k"] == "switch" and t["discr"].get("ty") == "bool" and t["discr"]["k"] in ("copy", "move"):
            l = t["discr"]["pl"]["l"]
            src = [s2["rv"]["op"]["pl"]["l"] for _, s2 in tf.stmts() if s2["k"] == "assign" and s2["pl"]["l"] == l and not s2["pl"]["p"]
                   and s2["rv"]["k"] == "use" and s2["rv"]["op"]["k"] in ("copy", "move")]
            if l in cl or any(x in cl for x in src):
                csw.append(sw)
    if len(csw) != 1:
        R.violation("C20.comment", "tokenize|comment-test", "the tokenizer loop does not test its comment state exactly once per character "
                                                            "(found %d tests)" % len(csw), [tf.loc()])
    else:
        t = tf.blocks[csw[0]]["term"]
        not_comment = [b for v, b in t["targets"] if v == "0"][0]
        emits = [c for c in tf.calls if re.search(r"tokenize::.*::add$|TokenizerState.*::add$", short(c.name))] + \
                [c for c in tf.calls if short(c.name) in ("alloc::string::String::push", "alloc::string::String::push_str")]
        loop = PR.loop_of(tf, csw[0])
        bad = [c for c in emits if loop and c.bb in loop[1] and not PR.dominated_by_edge(tf, c.bb, csw[0], not_comment)]
        if not emits:
            R.violation("C20.comment", "tokenize|no-emission", "no token emission found in tokenize", [tf.loc()])
        elif bad:
            R.violation("C20.comment", "tokenize|active-in-comment",
                        "%s at %s runs before / without the comment test: text inside a `--` comment (e.g. an apostrophe) changes the token stream"
                        % (short(bad[0].name).split("::")[-1], bad[0].loc()), [bad[0].loc()])
        else:
            R.ok("C20.comment", "tokenize", "%d emissions / pushes all behind the `not in a comment` edge" % len(emits), tf.loc(csw[0]))
    # layout: a line break between two operator characters must not fuse them (the same adjacency rule C13 uses for `x - -1`)
    from . import rules_c13
    duals_ = [(i, s_) for i, s_ in tf.stmts() if s_["k"] == "assign" and s_["rv"]["k"] == "aggr" and s_["rv"].get("variant") == "Dual"]
    if duals_:
        rules_c13.adjacency_rule(R, "C20.adjacent", tf, duals_)
    _merge_table(R, tf)
    R.assume("pairs of texts are not compared; whitespace/comment handling is covered only through the absence of location data and the "
             "operator-fusion rule of C13")
