"""C02 — JSON-path extraction yields exactly the addressed JSON value, typed."""
import re
from .prog import short, place_fields
from . import flow as F
from . import pathrules as PR
from . import arms as A

SJ = "serde_json::value::Value::"


KIND_OF_ACCESSOR = {"serde_json::value::Value::as_i64": "int", "serde_json::number::Number::as_i64": "int",
                    "serde_json::value::Value::as_f64": "float", "serde_json::number::Number::as_f64": "float",
                    "serde_json::value::Value::as_bool": "bool", "serde_json::value::Value::as_str": "string",
                    "serde_json::value::Value::as_array": "array"}
KIND_OF_VARIANT = {"Bool": "bool", "String": "string", "Array": "array"}     # Number needs an accessor to tell int from float
WANT_KIND = {"Int": "int", "Float": "float", "Bool": "bool", "String": "string", "Array": "array"}


def _accessor(R):
    """(declared type, JSON kind, produced Value variant) triples of ValueType::convert_from_json.
    Every place that produces a non-NULL Value (a `Value::X` aggregate in the function, in one of its closures, or a constructor passed to
    Option::map) is classified by the ValueType variant its path is under, and by the JSON kind that was established for the value it
    wraps: the serde_json accessor its payload comes from, or the serde_json::Value variant a dominating match selected."""
    P = R.prog
    f = PR.view(P, R.need_fn("sqlgrep::model::ValueType::convert_from_json"))
    forbidden = re.compile(r"serde_json::value::Value::(as_u64|as_number|as_object|pointer|to_string)|serde_json::number::Number::(as_u64|as_u128|as_i128|to_string)|"
                           r"serde_json::value::.*Display")
    clos = PR.closures_of(P, f)
    bad = sorted(set(short(c.name) for g in [f] + clos for c in g.calls if forbidden.search(short(c.name))))
    if bad:
        R.violation("C02.accessor", "convert_from_json|forbidden-api", "convert_from_json reads the JSON value through %s: a value of another JSON "
                    "type would be coerced instead of becoming NULL" % bad, [f.loc()])
    for g in [f] + clos:
        for i, s_ in g.stmts():
            if s_["k"] == "assign" and s_["rv"]["k"] == "cast" and s_["rv"]["ck"] in ("IntToInt", "FloatToInt", "IntToFloat"):
                R.violation("C02.accessor", "convert_from_json|cast", "numeric cast %s->%s while converting a JSON value"
                            % (s_["rv"]["from"], s_["rv"]["to"]), ["%s:%d" % (g.file, s_["line"])])

    def declared(bb):
        """ValueType variants under which block bb of f runs"""
        out = None
        for (sw, lab, tgt) in F.guards_dominating(f, bb):
            info = F.switch_info(f, sw)
            if info and info[0] == "discr" and info[1].get("adt") == "sqlgrep::model::ValueType":
                names = dict((dv, n) for dv, n in info[1]["variants"])
                if lab == "otherwise":
                    listed = set(names.get(l2) for l2 in info[2] if l2 != "otherwise")
                    vs = set(names.values()) - listed
                else:
                    vs = {names.get(lab)}
                out = vs if out is None else (out & vs)
        return out

    def json_variant(bb):
        for (sw, lab, tgt) in F.guards_dominating(f, bb):
            info = F.switch_info(f, sw)
            if info and info[0] == "discr" and info[1].get("adt") == "serde_json::value::Value" and lab != "otherwise":
                return dict((dv, n) for dv, n in info[1]["variants"]).get(lab)
        return None

    def kind_of_operand(g, op, depth=6):
        """JSON kind established for the value an operand carries: the accessor(s) it derives from, through any conversion calls
        (`as_str()?.to_owned()`, `Vec::with_capacity(as_array()?.len())` + pushes ..)"""
        ks = set()
        if op.get("k") not in ("copy", "move") or depth == 0:
            return ks
        for o in F.origins(g, op, depth=14, through_calls=False):
            if o.kind != "call":
                continue
            if short(o.call.name) in KIND_OF_ACCESSOR:
                ks.add(KIND_OF_ACCESSOR[short(o.call.name)])
            else:
                for a in o.call.args:
                    ks |= kind_of_operand(g, a, depth - 1)
        return ks

    sites = []      # (variant produced, block in f, kinds, loc)
    for i, s_ in f.stmts():
        if s_["k"] == "assign" and s_["rv"]["k"] == "aggr" and s_["rv"].get("adt") == "sqlgrep::model::Value" and s_["rv"].get("variant") != "Null":
            ks = set()
            for op in s_["rv"]["ops"]:
                ks |= kind_of_operand(f, op)
            sites.append((s_["rv"]["variant"], i, ks, f.loc(i)))
    for c in f.calls:
        if not re.search(r"^core::option::Option::(map|and_then|map_or|map_or_else)$", short(c.name)):
            continue
        recv_kinds = kind_of_operand(f, c.args[0])
        for ck in (c.func.get("closure_args") or []):
            m = re.search(r"model::Value::(\w+)::\{constructor#0\}$", ck)
            if m:
                sites.append((m.group(1), c.bb, recv_kinds, c.loc()))
                continue
            cf = P.fns.get(ck)
            if cf is None:
                continue
            for i, s_ in cf.stmts():
                if s_["k"] == "assign" and s_["rv"]["k"] == "aggr" and s_["rv"].get("adt") == "sqlgrep::model::Value" and s_["rv"].get("variant") != "Null":
                    sites.append((s_["rv"]["variant"], c.bb, recv_kinds, "%s:%d" % (cf.file, s_["line"])))
    if not sites:
        R.violation("C02.accessor", "convert_from_json|no-value", "convert_from_json produces no value at all", [f.loc()])
    seen = set()
    for vn, bb, kinds, loc in sites:
        ds = declared(bb)
        jv = json_variant(bb)
        if jv in KIND_OF_VARIANT:
            kinds = kinds | {KIND_OF_VARIANT[jv]}
        key = "convert_from_json|" + vn
        if ds is None or len(ds) != 1:
            R.violation("C02.accessor", key + "|untyped", "a Value::%s is produced on a path that is not under one declared type (%s): the JSON "
                        "value would be converted whatever the column's type is" % (vn, sorted(ds) if ds else "no match on the declared type"), [loc])
            continue
        d = next(iter(ds))
        want = WANT_KIND.get(d)
        if want is None or vn != d or kinds != {want}:
            R.violation("C02.accessor", key,
                        "declared type %s produces Value::%s from a JSON value established as %s (expected exactly: %s): a value of another JSON "
                        "type would be coerced instead of becoming NULL" % (d, vn, sorted(kinds) or "nothing (no accessor / variant test)", want), [loc])
            continue
        if vn == "Array":
            ch = [short(c.name) for x in clos for c in x.calls] + [short(c.name) for c in f.calls]
            if "sqlgrep::model::ValueType::convert_from_json" not in ch:
                R.violation("C02.accessor", key, "the elements of a JSON array are not converted by convert_from_json of the element type", [loc])
                continue
        if key not in seen:
            seen.add(key)
            R.ok("C02.accessor", key, "%s: JSON %s -> Value::%s" % (d, want, vn), loc)
    for d in WANT_KIND:
        if "convert_from_json|" + d not in seen and not any(v == d for v, _, _, _ in sites):
            R.violation("C02.accessor", "convert_from_json|" + d, "declared type %s no longer yields a value for a JSON value of its kind" % d, [f.loc()])


def _shared_input(R):
    """columns never influence each other: what one column reads from the per-line input cannot have been changed by another column"""
    P = R.prog
    R.rule("C02.shared", "the per-line parsing input (the parsed JSON document and the pattern results) is only borrowed shared once it is "
                         "built: no function of the extraction subgraph takes it (or a serde_json value) by &mut, and "
                         "TableDefinition::extract creates no &mut borrow of it - a column cannot consume or alter what the next column reads; and inside "
                         "the column loop the row being built is only appended to, never read (a column's value is not another column's value)")
    exf = R.need_fn("sqlgrep::data_model::TableDefinition::extract")
    reach = P.reachable([P.fns[exf.key] if exf.key in P.fns else exf])
    SHARED = re.compile(r"data_model::ParsingInput|serde_json::value::Value|data_model::RegexResult|regex::regex::string::Captures")
    bad = []
    n = 0
    for k in sorted(reach):
        g = P.fns[k]
        if g.derived:
            continue
        n += 1
        ctor = g.spath.endswith("ParsingInput::new")
        for a in range(1, g.arg_count + 1):
            ty = g.local_ty(a)
            if ty.startswith("&mut ") and SHARED.search(ty):
                bad.append((g, "takes `%s`" % ty[:80], g.loc()))
        if ctor:
            continue
        for i, s_ in g.stmts():
            if s_["k"] != "assign" or s_["rv"]["k"] not in ("ref", "rawptr") or s_["rv"].get("bk") not in ("mut", "Mut"):
                continue
            root = s_["rv"]["pl"]["l"]
            rty = g.local_ty(root)
            # a local that *is* the parsing input (not a reference to it: &mut through a shared reference does not compile)
            if SHARED.search(rty) and not rty.startswith("&") and re.match(r"^(sqlgrep::data_model::ParsingInput|serde_json::value::Value)", rty) \
                    and PR.loop_of(g, i) is not None:
                bad.append((g, "borrows its %s mutably inside the column loop" % rty.split("<")[0].split("::")[-1], "%s:%d" % (g.file, s_["line"])))
    # ... and no column's value is taken from the row being built (an earlier column's already converted value)
    exv = PR.view(P, exf) if hasattr(exf, "key") else exf
    def vec_root(g, op):
        """the local a `&Vec<Value>` / `&mut Vec<Value>` operand borrows (through copies and reborrows)"""
        seen_ = set()
        pl = op.get("pl")
        while pl is not None and pl["l"] not in seen_:
            seen_.add(pl["l"])
            if not g.local_ty(pl["l"]).startswith("&"):
                return pl["l"]
            defs = [s_ for _, s_ in g.stmts() if s_["k"] == "assign" and s_["pl"]["l"] == pl["l"] and not s_["pl"]["p"]]
            if len(defs) != 1:
                return None
            rv = defs[0]["rv"]
            if rv["k"] in ("ref", "rawptr"):
                pl = rv["pl"]
            elif rv["k"] == "use" and rv["op"].get("pl") is not None:
                pl = rv["op"]["pl"]
            else:
                return None
        return None
    VECV = re.compile(r"^&(mut )?alloc::vec::Vec<sqlgrep::model::Value>$")
    rows = set()
    for c in exv.calls:
        if short(c.name) == "alloc::vec::Vec::push" and c.args and VECV.match(c.args[0].get("ty") or "") and PR.loop_of(exv, c.bb) is not None:
            r_ = vec_root(exv, c.args[0])
            if r_ is not None:
                rows.add(r_)
    WRITE_ONLY = re.compile(r"^alloc::vec::Vec::(push|len|capacity|reserve|is_empty|with_capacity)$")
    for c in exv.calls:
        if not rows or PR.loop_of(exv, c.bb) is None or WRITE_ONLY.match(short(c.name)):
            continue
        for a_ in c.args:
            if VECV.match(a_.get("ty") or "") and vec_root(exv, a_) in rows:
                bad.append((exv, "reads a value back out of the row it is building (%s)" % short(c.name).split("::")[-1], c.loc()))
    if bad:
        for g, what, loc in bad[:4]:
            R.violation("C02.shared", "%s|%s" % (g.spath.split("::")[-1], "row-readback" if "reads a value back" in what else "mutable-input"),
                        "%s %s: extracting one column can change what the following columns read from the same line (two columns with the same or "
                        "an overlapping JSON path no longer see the same value)" % (g.path, what), [loc])
    else:
        R.ok("C02.shared", "extract-subgraph", "%d functions: the parsing input is shared-borrowed only" % n, exf.loc())


def run(R):
    P = R.prog
    R.rule("C02.accessor", "ValueType::convert_from_json: every non-NULL Value is produced under exactly one declared type, has that type's variant, and "
                           "wraps a JSON value established to be of the same kind (accessor as_i64 / as_f64 / as_bool / as_str / as_array, or a match on "
                           "the serde_json variant), arrays element-wise by recursion; no coercing cast; timestamps / intervals produce nothing")
    R.rule("C02.convert", "the JSON arm of ColumnParsing::extract: CONVERT goes as_str -> ValueType::parse, otherwise convert_from_json; "
                          "DEFAULT only when the path is absent")
    R.rule("C02.walk", "JsonAccess::get_value follows object fields with Value::get(name) and array steps with as_array + get(index), "
                       "name / index unmodified; no other serde_json accessor")
    R.rule("C02.total", "the per-line JSON parse is total (unwrap_or(Null)), happens at most once per line and only for tables with JSON columns")
    _accessor(R)
    # ---- CONVERT / DEFAULT in the Json arm
    cpe = R.need_fn("sqlgrep::data_model::ColumnParsing::extract")
    gv = [c for c in cpe.calls if short(c.name) == "sqlgrep::data_model::JsonAccess::get_value"]
    if not gv:
        # the walk inside a combinator closure (`document.as_ref().and_then(|d| access.get_value(d))`): closures spliced in
        cpe = PR.desugared(P, cpe)
        gv = [c for c in cpe.calls if short(c.name) == "sqlgrep::data_model::JsonAccess::get_value"]
    if len(gv) != 1:
        R.violation("C02.convert", "extract|get_value", "expected one JsonAccess::get_value call in ColumnParsing::extract", [cpe.loc()])
    else:
        g = PR.discr_guard(cpe, gv[0], "Some")
        if g is None:
            # combinator spelling: get_value(..).map/and_then(..).unwrap_or[_else](default)
            CONV = re.compile(r"ValueType::(convert_from_json|parse)$")
            defaults = []
            for c in cpe.calls:
                if re.search(r"^core::option::Option::(unwrap_or|unwrap_or_else|map_or|map_or_else)$", short(c.name)) and \
                        any(o.kind == "call" and o.call is gv[0] for o in F.origins(cpe, c.args[0], depth=12)):
                    defaults.append(c)
            if not defaults:
                R.violation("C02.convert", "extract|unbranched", "the result of get_value is neither matched nor given a default", [gv[0].loc()])
            for c in defaults:
                conv_on_recv = False
                for o in F.origins(cpe, c.args[0], depth=12):
                    if o.kind != "call":
                        continue
                    if CONV.search(short(o.call.name)):
                        conv_on_recv = True
                    if short(o.call.name).endswith("Option::and_then") or short(o.call.name).endswith("Option::filter"):
                        for ck in (o.call.func.get("closure_args") or []):
                            cf = P.fns.get(ck)
                            if cf is not None and (any(CONV.search(short(c2.name)) for c2 in cf.calls) or
                                                   any(CONV.search(short(c3.name)) for k3 in [k for c2 in cf.calls for k in P.callee_keys(cf, c2)]
                                                       for c3 in P.fns[k3].calls)):
                                conv_on_recv = True
                if conv_on_recv:
                    R.violation("C02.convert", "extract|default-on-present",
                                "DEFAULT replaces the outcome of the type conversion (%s on a value that went through convert_from_json / parse): "
                                "a present but wrong-typed leaf yields the DEFAULT instead of NULL" % short(c.name).split("::")[-1], [c.loc()])
                else:
                    R.ok("C02.convert", "extract|default", "DEFAULT only where the path is absent (combinator form)", c.loc())
        else:
            sw, some_t, none_ts = g
            some_reg = set(b for b in cpe.reach if cpe.dominates(some_t, b))
            defs = [c for c in cpe.calls if short(c.name).endswith("ColumnDefinition::default_value")]
            none_reg = set()
            for nt in none_ts:
                none_reg |= set(b for b in cpe.reach if cpe.dominates(nt, b))
            def_in_some = [c for c in defs if c.bb in some_reg]
            def_in_none = [c for c in defs if c.bb in none_reg]
            if def_in_some:
                R.violation("C02.convert", "extract|default-on-present", "DEFAULT is applied although the path is present (a wrong-typed leaf must be NULL)",
                            [def_in_some[0].loc()])
            elif not def_in_none:
                R.violation("C02.convert", "extract|no-default", "an absent JSON path does not yield the declared DEFAULT", [gv[0].loc()])
            else:
                R.ok("C02.convert", "extract|default", "DEFAULT only on the path-absent edge", def_in_none[0].loc())
            # the CONVERT branch, read as path facts on the view (an if, a match, an early return or a mode enum computed from the
            # option are all the same): as_str + ValueType::parse happen exactly where convert == true, convert_from_json where false
            CFJ = "sqlgrep::model::ValueType::convert_from_json"
            cfa = PR.facts(cpe)

            def conv_fact(bb):
                vals = set()
                for w in (cfa.worlds_at(bb) or []):
                    got = None
                    for key_, val in w:
                        a_ = cfa.atoms.get(key_, {})
                        if a_.get("kind") == "place" and isinstance(val, bool):
                            fe = [e for e in a_["place"]["p"] if isinstance(e, dict) and "f" in e]
                            if fe and fe[-1].get("n") == "convert" and fe[-1].get("ty") == "bool":
                                got = val
                    vals.add(got)
                return vals
            sites = {"as_str": [], "parse": [], "cfj": []}
            for c in cpe.calls:
                sn = short(c.name)
                if c.bb not in some_reg:
                    continue
                if sn == SJ + "as_str":
                    sites["as_str"].append(c)
                elif sn == "sqlgrep::model::ValueType::parse":
                    sites["parse"].append(c)
                elif sn == CFJ:
                    sites["cfj"].append(c)
                for ck in (c.func.get("closure_args") or []):
                    cf = P.fns.get(ck)
                    if cf is not None:
                        for c2 in cf.calls:
                            if short(c2.name) == "sqlgrep::model::ValueType::parse":
                                sites["parse"].append(c)
                            if short(c2.name) == CFJ:
                                sites["cfj"].append(c)
            ok_conv = bool(sites["as_str"]) and bool(sites["parse"]) and bool(sites["cfj"]) and cfa.ok and \
                all(conv_fact(c.bb) == {True} for c in sites["as_str"] + sites["parse"]) and all(conv_fact(c.bb) == {False} for c in sites["cfj"])
            if ok_conv:
                R.ok("C02.convert", "extract|convert", "CONVERT: as_str -> parse exactly under convert == true; otherwise convert_from_json",
                     sites["as_str"][0].loc())
            else:
                R.violation("C02.convert", "extract|convert-arms",
                            "CONVERT is not applied as `convert ? leaf.as_str().parse() : convert_from_json(leaf)`: as_str under %s, parse under %s, "
                            "convert_from_json under %s (values of options.convert on the paths reaching them)"
                            % ([sorted(map(str, conv_fact(c.bb))) for c in sites["as_str"]], [sorted(map(str, conv_fact(c.bb))) for c in sites["parse"]],
                               [sorted(map(str, conv_fact(c.bb))) for c in sites["cfj"]]), [gv[0].loc()])
    # ---- path walk
    gf = R.need_fn("sqlgrep::data_model::JsonAccess::get_value")
    sws = A.enum_switches(gf, "data_model::JsonAccess")
    # (`as_object()?.get(name)` is what `Value::get(name)` does for a string key: the explicit spelling of the object step)
    allowed = re.compile(r"^serde_json::value::Value::(get|as_array|as_object)$|^serde_json::map::Map::get$")
    other_sj = [c for c in gf.calls if short(c.name).startswith("serde_json::") and not allowed.search(short(c.name))]
    for c in other_sj:
        R.violation("C02.walk", "get_value|api|" + short(c.name).split("::")[-1],
                    "JsonAccess::get_value uses %s: the path must be followed step by step (object field by name, array element by index)"
                    % short(c.name), [c.loc()])
    # the walk, decided on provenance (independent of whether it recurses or loops, and of how the arms are laid out):
    #   every Value::get takes the String field of a Field step, under the `Field` arm;
    #   every element lookup takes the usize field of an Array step, unmodified, on the slice that as_array() of the current value gave
    walkers = [gf] + [P.fns[k] for k in sorted(P.reachable([gf])) if P.fns[k].spath.startswith("sqlgrep::data_model::") and P.fns[k].key != gf.key]
    n_field = n_array = 0
    for g in walkers:
        for c in g.calls:
            sn = short(c.name)
            if sn == SJ + "get" or sn == "serde_json::map::Map::get":
                n_field += 1
                var, ty = F.place_variant_field(F.source_place(g, c.args[1]))
                if var is None:
                    # `name.as_str()` / `&**name`: through the borrowing calls
                    for o in F.origins(g, c.args[1], depth=8):
                        if o.kind in ("arg", "place") and o.place is not None:
                            v2, t2 = F.place_variant_field(o.place)
                            if v2 is not None:
                                var, ty = v2, t2
                from_object = sn == SJ + "get" or any(o.kind == "call" and short(o.call.name) == SJ + "as_object" for o in F.origins(g, c.args[0], depth=10))
                if var == "Field" and ty == "alloc::string::String" and from_object:
                    R.ok("C02.walk", "get_value|Field", "Value::get(<name of this Field step>)", c.loc(), nontrivial=(n_field == 1))
                else:
                    R.violation("C02.walk", "get_value|Field", "an object step is not `json.get(name)` with the step's own name (key comes from %s)"
                                % ((var, ty),), [c.loc()])
            elif sn == "core::slice::<impl [T]>::get" and "serde_json::value::Value" in " ".join(c.func.get("res_targs") or c.targs):
                n_array += 1
                var, ty = F.place_variant_field(F.source_place(g, c.args[1]))
                recv = [o for o in F.origins(g, c.args[0], depth=10) if o.kind == "call" and short(o.call.name) == SJ + "as_array"]
                if var == "Array" and ty == "usize" and recv:
                    R.ok("C02.walk", "get_value|Array", "as_array()?.get(<index of this Array step>)", c.loc(), nontrivial=(n_array == 1))
                else:
                    R.violation("C02.walk", "get_value|Array", "an array step is not `as_array()?.get(index)` with the step's own, unmodified index "
                                                               "(an object with a numeric key, or another element, could be read): index from %s, "
                                                               "receiver from as_array: %s" % ((var, ty), bool(recv)), [c.loc()])
            elif "Index<" in sn and "serde_json" in sn:
                R.violation("C02.walk", "get_value|index-op", "a JSON value is indexed with `[]` (yields Null instead of stopping, or panics)", [c.loc()])
    if n_field == 0:
        R.violation("C02.walk", "get_value|Field", "object steps are not followed with Value::get", [gf.loc()])
    if n_array == 0:
        R.violation("C02.walk", "get_value|Array", "array steps are not followed with as_array + get", [gf.loc()])
    # the inner step is followed: by recursion on (inner, found value) or by a loop that re-dispatches on the step kind
    rec = [c for g_ in [gf] + PR.closures_of(P, gf) for c in g_.calls if short(c.name) == "sqlgrep::data_model::JsonAccess::get_value"]
    looped = any(PR.loop_of(gf, sw) for sw in sws)
    if rec or looped:
        R.ok("C02.walk", "get_value|recursion", "the inner step is followed (%s)" % ("recursion" if rec else "loop over the steps"), gf.loc())
    else:
        R.violation("C02.walk", "get_value|recursion", "the walk stops after the first step (neither recursion nor a loop over the steps)", [gf.loc()])
    # ---- totality of the per-line parse
    pin = R.need_fn("sqlgrep::data_model::ParsingInput::new")
    fs = [c for c in pin.calls if short(c.name) == "serde_json::de::from_str"]
    if not fs:
        # the parse inside a combinator closure (`any_json.then(|| from_str(line).ok()).flatten()`): closures spliced in
        pin = PR.desugared(P, pin)
        fs = [c for c in pin.calls if short(c.name) == "serde_json::de::from_str"]
    if len(fs) != 1:
        R.violation("C02.total", "ParsingInput::new|parse-count", "the line is parsed as JSON %d times (expected once)" % len(fs), [pin.loc()])
    else:
        lp = PR.loop_of(pin, fs[0].bb)
        # total: the parse result is never unwrapped (a line that is not JSON must become Null, not a panic)
        panicky = [c for c in pin.calls if re.search(r"^core::result::Result::(unwrap|expect|unwrap_unchecked|unwrap_err|expect_err)$", short(c.name))
                   and c.args and any(o.kind == "call" and o.call is fs[0] for o in F.origins(pin, c.args[0], depth=6))]
        consumed = [c for c in pin.calls if re.search(r"^core::result::Result::(unwrap_or|unwrap_or_else|unwrap_or_default|ok|map_or|map_or_else)$",
                                                      short(c.name))
                    and c.args and any(o.kind == "call" and o.call is fs[0] for o in F.origins(pin, c.args[0], depth=6))]
        matched = PR.discr_guard(pin, fs[0], "Ok") is not None
        uo = (consumed or matched) and not panicky
        # whether the line is parsed may depend on the table definition only, never on the text of the line
        line_args = [a for a in range(1, pin.arg_count + 1) if pin.local_ty(a) in ("&str", "&'a str", "&alloc::string::String")]
        T, sinks, _ = F.forward_taint(pin, lambda pl: pl.get("l") in line_args)
        gds = F.guards_dominating(pin, fs[0].bb)
        by_line = [gsw for gsw, lab, tgt in gds if gsw in sinks]
        if lp is not None or not uo:
            R.violation("C02.total", "ParsingInput::new|shape", "JSON parse: in loop=%s, result handled totally (unwrap_or / match, never unwrap)=%s" % (lp is not None, bool(uo)),
                        [fs[0].loc()])
        elif by_line:
            R.violation("C02.total", "ParsingInput::new|line-dependent",
                        "whether a line is parsed as JSON depends on the text of the line (guard at line %d), not only on the table definition: "
                        "a valid document the guard does not anticipate yields NULL / DEFAULT for every JSON column although the value exists"
                        % pin.blocks[by_line[0]]["term"]["span"]["line"], [pin.loc(by_line[0]), fs[0].loc()])
        else:
            R.ok("C02.total", "ParsingInput::new", "serde_json::from_str(line).unwrap_or(Null), once; parsed or not depending on the table "
                                                   "definition only (%d guards)" % len(gds), fs[0].loc())
    _shared_input(R)
    R.assume("serde_json's number model (u64 > i64::MAX, duplicate keys, recursion limit) is the library's; purity of extraction is decided under C01.pure")
