"""C02 — JSON-path extraction yields exactly the addressed JSON value, typed."""
import re
from .prog import short, place_fields
from . import flow as F
from . import pathrules as PR
from . import arms as A

SJ = "serde_json::value::Value::"


def run(R):
    P = R.prog
    R.rule("C02.accessor", "ValueType::convert_from_json maps each declared type to the serde_json accessor of the same kind (as_i64, as_f64, "
                           "as_bool, as_str, as_array + element-wise recursion; timestamps/intervals NULL) with no coercing cast and no wildcard")
    R.rule("C02.convert", "the JSON arm of ColumnParsing::extract: CONVERT goes as_str -> ValueType::parse, otherwise convert_from_json; "
                          "DEFAULT only when the path is absent")
    R.rule("C02.walk", "JsonAccess::get_value follows object fields with Value::get(name) and array steps with as_array + get(index), "
                       "name / index unmodified; no other serde_json accessor")
    R.rule("C02.total", "the per-line JSON parse is total (unwrap_or(Null)), happens at most once per line and only for tables with JSON columns")
    f = R.need_fn("sqlgrep::model::ValueType::convert_from_json")
    sws = A.enum_switches(f, "model::ValueType")
    want = {"Int": SJ + "as_i64", "Float": SJ + "as_f64", "Bool": SJ + "as_bool", "String": SJ + "as_str", "Array": SJ + "as_array",
            "Timestamp": None, "Interval": None}
    forbidden = re.compile(r"serde_json::value::Value::(as_u64|as_number|as_object|pointer|to_string)|serde_json::number::Number::")
    if not sws:
        R.violation("C02.accessor", "convert_from_json|no-match", "convert_from_json does not match on the declared type", [f.loc()])
    else:
        arms_, wild, rest = A.arms(f, sws[0])
        if wild:
            R.violation("C02.accessor", "convert_from_json|wildcard", "wildcard arm covering %s" % rest, [f.loc(sws[0])])
        for vn, acc in want.items():
            if vn not in arms_:
                R.violation("C02.accessor", "convert_from_json|" + vn, "no arm for %s" % vn, [f.loc()])
                continue
            # arm region up to the join point: calls strictly inside the arm (exclude the common tail)
            reg = arms_[vn][1]
            names = A.region_call_names(f, reg)
            sj = [n for n in names if n.startswith("serde_json::")]
            casts = [s["rv"]["ck"] for i, s in A.region_stmts(f, reg) if s["rv"]["k"] == "cast" and s["rv"]["ck"] in ("IntToInt", "FloatToInt", "IntToFloat")]
            bad = [n for n in names if forbidden.search(n)]
            ok = (sj == ([acc] if acc else [])) and not casts and not bad
            if vn == "Array" and ok:
                # the elements are converted by the same function: in a closure (`map(|x| element.convert_from_json(x))`), in the arm
                # itself, or in a helper loop that was inlined into it
                ch = [short(c.name) for x in PR.closures_of(P, f) for c in x.calls] + names
                ok = "sqlgrep::model::ValueType::convert_from_json" in ch
            if ok:
                R.ok("C02.accessor", "convert_from_json|" + vn, "%s -> %s" % (vn, acc.split("::")[-1] if acc else "NULL"), f.loc(arms_[vn][0]))
            else:
                R.violation("C02.accessor", "convert_from_json|" + vn,
                            "declared type %s reads the JSON value through %s (casts %s): a value of another JSON type would be coerced instead of "
                            "becoming NULL" % (vn, sj or names, casts), [f.loc(arms_[vn][0])])
        # closures of the arms must not cast either
        for ch in P.children.get(f.key, []):
            for i, s in ch.stmts():
                if s["rv"]["k"] == "cast" and s["rv"]["ck"] in ("IntToInt", "FloatToInt", "IntToFloat"):
                    R.violation("C02.accessor", "convert_from_json|closure-cast", "numeric cast %s->%s while converting a JSON value"
                                % (s["rv"]["from"], s["rv"]["to"]), ["%s:%d" % (ch.file, s["line"])])
    # ---- CONVERT / DEFAULT in the Json arm
    cpe = R.need_fn("sqlgrep::data_model::ColumnParsing::extract")
    gv = [c for c in cpe.calls if short(c.name) == "sqlgrep::data_model::JsonAccess::get_value"]
    if len(gv) != 1:
        R.violation("C02.convert", "extract|get_value", "expected one JsonAccess::get_value call in ColumnParsing::extract", [cpe.loc()])
    else:
        g = PR.discr_guard(cpe, gv[0], "Some")
        if g is None:
            # combinator spelling: get_value(..).map/and_then(..).unwrap_or[_else](default)
            CONV = re.compile(r"ValueType::(convert_from_json|parse)$")
            defaults = []
            for c in cpe.calls:
                if re.search(r"^core::option::Option::(unwrap_or|unwrap_or_else|map_or|map_or_else)$", short(c.name)) and \
                        any(o.kind == "call" and o.call is gv[0] for o in F.origins(cpe, c.args[0], depth=12)):
                    defaults.append(c)
            if not defaults:
                R.violation("C02.convert", "extract|unbranched", "the result of get_value is neither matched nor given a default", [gv[0].loc()])
            for c in defaults:
                conv_on_recv = False
                for o in F.origins(cpe, c.args[0], depth=12):
                    if o.kind != "call":
                        continue
                    if CONV.search(short(o.call.name)):
                        conv_on_recv = True
                    if short(o.call.name).endswith("Option::and_then") or short(o.call.name).endswith("Option::filter"):
                        for ck in (o.call.func.get("closure_args") or []):
                            cf = P.fns.get(ck)
                            if cf is not None and (any(CONV.search(short(c2.name)) for c2 in cf.calls) or
                                                   any(CONV.search(short(c3.name)) for k3 in [k for c2 in cf.calls for k in P.callee_keys(cf, c2)]
                                                       for c3 in P.fns[k3].calls)):
                                conv_on_recv = True
                if conv_on_recv:
                    R.violation("C02.convert", "extract|default-on-present",
                                "DEFAULT replaces the outcome of the type conversion (%s on a value that went through convert_from_json / parse): "
                                "a present but wrong-typed leaf yields the DEFAULT instead of NULL" % short(c.name).split("::")[-1], [c.loc()])
                else:
                    R.ok("C02.convert", "extract|default", "DEFAULT only where the path is absent (combinator form)", c.loc())
        else:
            sw, some_t, none_ts = g
            some_reg = set(b for b in cpe.reach if cpe.dominates(some_t, b))
            defs = [c for c in cpe.calls if short(c.name).endswith("ColumnDefinition::default_value")]
            none_reg = set()
            for nt in none_ts:
                none_reg |= set(b for b in cpe.reach if cpe.dominates(nt, b))
            def_in_some = [c for c in defs if c.bb in some_reg]
            def_in_none = [c for c in defs if c.bb in none_reg]
            if def_in_some:
                R.violation("C02.convert", "extract|default-on-present", "DEFAULT is applied although the path is present (a wrong-typed leaf must be NULL)",
                            [def_in_some[0].loc()])
            elif not def_in_none:
                R.violation("C02.convert", "extract|no-default", "an absent JSON path does not yield the declared DEFAULT", [gv[0].loc()])
            else:
                R.ok("C02.convert", "extract|default", "DEFAULT only on the path-absent edge", def_in_none[0].loc())
            # the CONVERT branch, read as path facts on the view (an if, a match, an early return or a mode enum computed from the
            # option are all the same): as_str + ValueType::parse happen exactly where convert == true, convert_from_json where false
            CFJ = "sqlgrep::model::ValueType::convert_from_json"
            cfa = PR.facts(cpe)

            def conv_fact(bb):
                vals = set()
                for w in (cfa.worlds_at(bb) or []):
                    got = None
                    for key_, val in w:
                        a_ = cfa.atoms.get(key_, {})
                        if a_.get("kind") == "place" and isinstance(val, bool):
                            fe = [e for e in a_["place"]["p"] if isinstance(e, dict) and "f" in e]
                            if fe and fe[-1].get("n") == "convert" and fe[-1].get("ty") == "bool":
                                got = val
                    vals.add(got)
                return vals
            sites = {"as_str": [], "parse": [], "cfj": []}
            for c in cpe.calls:
                sn = short(c.name)
                if c.bb not in some_reg:
                    continue
                if sn == SJ + "as_str":
                    sites["as_str"].append(c)
                elif sn == "sqlgrep::model::ValueType::parse":
                    sites["parse"].append(c)
                elif sn == CFJ:
                    sites["cfj"].append(c)
                for ck in (c.func.get("closure_args") or []):
                    cf = P.fns.get(ck)
                    if cf is not None:
                        for c2 in cf.calls:
                            if short(c2.name) == "sqlgrep::model::ValueType::parse":
                                sites["parse"].append(c)
                            if short(c2.name) == CFJ:
                                sites["cfj"].append(c)
            ok_conv = bool(sites["as_str"]) and bool(sites["parse"]) and bool(sites["cfj"]) and cfa.ok and \
                all(conv_fact(c.bb) == {True} for c in sites["as_str"] + sites["parse"]) and all(conv_fact(c.bb) == {False} for c in sites["cfj"])
            if ok_conv:
                R.ok("C02.convert", "extract|convert", "CONVERT: as_str -> parse exactly under convert == true; otherwise convert_from_json",
                     sites["as_str"][0].loc())
            else:
                R.violation("C02.convert", "extract|convert-arms",
                            "CONVERT is not applied as `convert ? leaf.as_str().parse() : convert_from_json(leaf)`: as_str under %s, parse under %s, "
                            "convert_from_json under %s (values of options.convert on the paths reaching them)"
                            % ([sorted(map(str, conv_fact(c.bb))) for c in sites["as_str"]], [sorted(map(str, conv_fact(c.bb))) for c in sites["parse"]],
                               [sorted(map(str, conv_fact(c.bb))) for c in sites["cfj"]]), [gv[0].loc()])
    # ---- path walk
    gf = R.need_fn("sqlgrep::data_model::JsonAccess::get_value")
    sws = A.enum_switches(gf, "data_model::JsonAccess")
    allowed = re.compile(r"^serde_json::value::Value::(get|as_array)$")
    other_sj = [c for c in gf.calls if short(c.name).startswith("serde_json::") and not allowed.search(short(c.name))]
    for c in other_sj:
        R.violation("C02.walk", "get_value|api|" + short(c.name).split("::")[-1],
                    "JsonAccess::get_value uses %s: the path must be followed step by step (object field by name, array element by index)"
                    % short(c.name), [c.loc()])
    # the walk, decided on provenance (independent of whether it recurses or loops, and of how the arms are laid out):
    #   every Value::get takes the String field of a Field step, under the `Field` arm;
    #   every element lookup takes the usize field of an Array step, unmodified, on the slice that as_array() of the current value gave
    walkers = [gf] + [P.fns[k] for k in sorted(P.reachable([gf])) if P.fns[k].spath.startswith("sqlgrep::data_model::") and P.fns[k].key != gf.key]
    n_field = n_array = 0
    for g in walkers:
        for c in g.calls:
            sn = short(c.name)
            if sn == SJ + "get":
                n_field += 1
                var, ty = F.place_variant_field(F.source_place(g, c.args[1]))
                if var == "Field" and ty == "alloc::string::String":
                    R.ok("C02.walk", "get_value|Field", "Value::get(<name of this Field step>)", c.loc(), nontrivial=(n_field == 1))
                else:
                    R.violation("C02.walk", "get_value|Field", "an object step is not `json.get(name)` with the step's own name (key comes from %s)"
                                % ((var, ty),), [c.loc()])
            elif sn == "core::slice::<impl [T]>::get" and "serde_json::value::Value" in " ".join(c.func.get("res_targs") or c.targs):
                n_array += 1
                var, ty = F.place_variant_field(F.source_place(g, c.args[1]))
                recv = [o for o in F.origins(g, c.args[0], depth=10) if o.kind == "call" and short(o.call.name) == SJ + "as_array"]
                if var == "Array" and ty == "usize" and recv:
                    R.ok("C02.walk", "get_value|Array", "as_array()?.get(<index of this Array step>)", c.loc(), nontrivial=(n_array == 1))
                else:
                    R.violation("C02.walk", "get_value|Array", "an array step is not `as_array()?.get(index)` with the step's own, unmodified index "
                                                               "(an object with a numeric key, or another element, could be read): index from %s, "
                                                               "receiver from as_array: %s" % ((var, ty), bool(recv)), [c.loc()])
            elif "Index<" in sn and "serde_json" in sn:
                R.violation("C02.walk", "get_value|index-op", "a JSON value is indexed with `[]` (yields Null instead of stopping, or panics)", [c.loc()])
    if n_field == 0:
        R.violation("C02.walk", "get_value|Field", "object steps are not followed with Value::get", [gf.loc()])
    if n_array == 0:
        R.violation("C02.walk", "get_value|Array", "array steps are not followed with as_array + get", [gf.loc()])
    # the inner step is followed: by recursion on (inner, found value) or by a loop that re-dispatches on the step kind
    rec = [c for c in gf.calls if short(c.name) == "sqlgrep::data_model::JsonAccess::get_value"]
    looped = any(PR.loop_of(gf, sw) for sw in sws)
    if rec or looped:
        R.ok("C02.walk", "get_value|recursion", "the inner step is followed (%s)" % ("recursion" if rec else "loop over the steps"), gf.loc())
    else:
        R.violation("C02.walk", "get_value|recursion", "the walk stops after the first step (neither recursion nor a loop over the steps)", [gf.loc()])
    # ---- totality of the per-line parse
    pin = R.need_fn("sqlgrep::data_model::ParsingInput::new")
    fs = [c for c in pin.calls if short(c.name) == "serde_json::de::from_str"]
    if len(fs) != 1:
        R.violation("C02.total", "ParsingInput::new|parse-count", "the line is parsed as JSON %d times (expected once)" % len(fs), [pin.loc()])
    else:
        lp = PR.loop_of(pin, fs[0].bb)
        # total: the parse result is never unwrapped (a line that is not JSON must become Null, not a panic)
        panicky = [c for c in pin.calls if re.search(r"^core::result::Result::(unwrap|expect|unwrap_unchecked|unwrap_err|expect_err)$", short(c.name))
                   and c.args and any(o.kind == "call" and o.call is fs[0] for o in F.origins(pin, c.args[0], depth=6))]
        consumed = [c for c in pin.calls if re.search(r"^core::result::Result::(unwrap_or|unwrap_or_else|unwrap_or_default|ok|map_or|map_or_else)$",
                                                      short(c.name))
                    and c.args and any(o.kind == "call" and o.call is fs[0] for o in F.origins(pin, c.args[0], depth=6))]
        matched = PR.discr_guard(pin, fs[0], "Ok") is not None
        uo = (consumed or matched) and not panicky
        # whether the line is parsed may depend on the table definition only, never on the text of the line
        line_args = [a for a in range(1, pin.arg_count + 1) if pin.local_ty(a) in ("&str", "&'a str", "&alloc::string::String")]
        T, sinks, _ = F.forward_taint(pin, lambda pl: pl.get("l") in line_args)
        gds = F.guards_dominating(pin, fs[0].bb)
        by_line = [gsw for gsw, lab, tgt in gds if gsw in sinks]
        if lp is not None or not uo:
            R.violation("C02.total", "ParsingInput::new|shape", "JSON parse: in loop=%s, result handled totally (unwrap_or / match, never unwrap)=%s" % (lp is not None, bool(uo)),
                        [fs[0].loc()])
        elif by_line:
            R.violation("C02.total", "ParsingInput::new|line-dependent",
                        "whether a line is parsed as JSON depends on the text of the line (guard at line %d), not only on the table definition: "
                        "a valid document the guard does not anticipate yields NULL / DEFAULT for every JSON column although the value exists"
                        % pin.blocks[by_line[0]]["term"]["span"]["line"], [pin.loc(by_line[0]), fs[0].loc()])
        else:
            R.ok("C02.total", "ParsingInput::new", "serde_json::from_str(line).unwrap_or(Null), once; parsed or not depending on the table "
                                                   "definition only (%d guards)" % len(gds), fs[0].loc())
    R.assume("serde_json's number model (u64 > i64::MAX, duplicate keys, recursion limit) is the library's; purity of extraction is decided under C01.pure")
