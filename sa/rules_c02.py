"""C02 — JSON-path extraction yields exactly the addressed JSON value, typed."""
import re
from .prog import short, place_fields
from . import flow as F
from . import pathrules as PR
from . import arms as A

SJ = "serde_json::value::Value::"


def run(R):
    P = R.prog
    R.rule("C02.accessor", "ValueType::convert_from_json maps each declared type to the serde_json accessor of the same kind (as_i64, as_f64, "
                           "as_bool, as_str, as_array + element-wise recursion; timestamps/intervals NULL) with no coercing cast and no wildcard")
    R.rule("C02.convert", "the JSON arm of ColumnParsing::extract: CONVERT goes as_str -> ValueType::parse, otherwise convert_from_json; "
                          "DEFAULT only when the path is absent")
    R.rule("C02.walk", "JsonAccess::get_value follows object fields with Value::get(name) and array steps with as_array + get(index), "
                       "name / index unmodified; no other serde_json accessor")
    R.rule("C02.total", "the per-line JSON parse is total (unwrap_or(Null)), happens at most once per line and only for tables with JSON columns")
    f = R.need_fn("sqlgrep::model::ValueType::convert_from_json")
    sws = A.enum_switches(f, "model::ValueType")
    want = {"Int": SJ + "as_i64", "Float": SJ + "as_f64", "Bool": SJ + "as_bool", "String": SJ + "as_str", "Array": SJ + "as_array",
            "Timestamp": None, "Interval": None}
    forbidden = re.compile(r"serde_json::value::Value::(as_u64|as_number|as_object|pointer|to_string)|serde_json::number::Number::")
    if not sws:
        R.violation("C02.accessor", "convert_from_json|no-match", "convert_from_json does not match on the declared type", [f.loc()])
    else:
        arms_, wild, rest = A.arms(f, sws[0])
        if wild:
            R.violation("C02.accessor", "convert_from_json|wildcard", "wildcard arm covering %s" % rest, [f.loc(sws[0])])
        for vn, acc in want.items():
            if vn not in arms_:
                R.violation("C02.accessor", "convert_from_json|" + vn, "no arm for %s" % vn, [f.loc()])
                continue
            # arm region up to the join point: calls strictly inside the arm (exclude the common tail)
            reg = arms_[vn][1]
            names = A.region_call_names(f, reg)
            sj = [n for n in names if n.startswith("serde_json::")]
            casts = [s["rv"]["ck"] for i, s in A.region_stmts(f, reg) if s["rv"]["k"] == "cast" and s["rv"]["ck"] in ("IntToInt", "FloatToInt", "IntToFloat")]
            bad = [n for n in names if forbidden.search(n)]
            ok = (sj == ([acc] if acc else [])) and not casts and not bad
            if vn == "Array" and ok:
                ch = [short(c.name) for x in P.children.get(f.key, []) for c in x.calls] + \
                     [short(c.name) for x in P.children.get(f.key, []) for y in P.children.get(x.key, []) for c in y.calls]
                ok = "sqlgrep::model::ValueType::convert_from_json" in ch
            if ok:
                R.ok("C02.accessor", "convert_from_json|" + vn, "%s -> %s" % (vn, acc.split("::")[-1] if acc else "NULL"), f.loc(arms_[vn][0]))
            else:
                R.violation("C02.accessor", "convert_from_json|" + vn,
                            "declared type %s reads the JSON value through %s (casts %s): a value of another JSON type would be coerced instead of "
                            "becoming NULL" % (vn, sj or names, casts), [f.loc(arms_[vn][0])])
        # closures of the arms must not cast either
        for ch in P.children.get(f.key, []):
            for i, s in ch.stmts():
                if s["rv"]["k"] == "cast" and s["rv"]["ck"] in ("IntToInt", "FloatToInt", "IntToFloat"):
                    R.violation("C02.accessor", "convert_from_json|closure-cast", "numeric cast %s->%s while converting a JSON value"
                                % (s["rv"]["from"], s["rv"]["to"]), ["%s:%d" % (ch.file, s["line"])])
    # ---- CONVERT / DEFAULT in the Json arm
    cpe = R.need_fn("sqlgrep::data_model::ColumnParsing::extract")
    gv = [c for c in cpe.calls if short(c.name) == "sqlgrep::data_model::JsonAccess::get_value"]
    if len(gv) != 1:
        R.violation("C02.convert", "extract|get_value", "expected one JsonAccess::get_value call in ColumnParsing::extract", [cpe.loc()])
    else:
        g = PR.discr_guard(cpe, gv[0], "Some")
        if g is None:
            R.violation("C02.convert", "extract|unbranched", "the result of get_value is not matched", [gv[0].loc()])
        else:
            sw, some_t, none_ts = g
            some_reg = set(b for b in cpe.reach if cpe.dominates(some_t, b))
            defs = [c for c in cpe.calls if short(c.name).endswith("ColumnDefinition::default_value")]
            none_reg = set()
            for nt in none_ts:
                none_reg |= set(b for b in cpe.reach if cpe.dominates(nt, b))
            def_in_some = [c for c in defs if c.bb in some_reg]
            def_in_none = [c for c in defs if c.bb in none_reg]
            if def_in_some:
                R.violation("C02.convert", "extract|default-on-present", "DEFAULT is applied although the path is present (a wrong-typed leaf must be NULL)",
                            [def_in_some[0].loc()])
            elif not def_in_none:
                R.violation("C02.convert", "extract|no-default", "an absent JSON path does not yield the declared DEFAULT", [gv[0].loc()])
            else:
                R.ok("C02.convert", "extract|default", "DEFAULT only on the path-absent edge", def_in_none[0].loc())
            # convert switch inside the Some region
            csw = []
            for (bb, s) in PR.field_reads(cpe, "convert"):
                if isinstance(s, dict) and s.get("switch"):
                    csw.append(bb)
                    continue
                l = s["pl"]["l"]
                for sw2 in sorted(cpe.reach):
                    t = cpe.blocks[sw2]["term"]
                    if t["k"] == "switch" and t["discr"]["k"] in ("copy", "move") and t["discr"]["pl"]["l"] == l and not t["discr"]["pl"]["p"]:
                        csw.append(sw2)
            csw = [x for x in csw if x in some_reg]
            if len(csw) != 1:
                R.violation("C02.convert", "extract|convert-branch", "the JSON arm does not branch on options.convert", [gv[0].loc()])
            else:
                t = cpe.blocks[csw[0]]["term"]
                tr = set(b for b in cpe.reach if cpe.dominates(t["otherwise"], b))
                fa = set(b for b in cpe.reach if cpe.dominates([b2 for v, b2 in t["targets"] if v == "0"][0], b))
                tn = [short(c.name) for c in cpe.calls if c.bb in tr] + \
                     [short(c.name) for x in P.children.get(cpe.key, []) for c in x.calls]
                fn_ = [short(c.name) for c in cpe.calls if c.bb in fa]
                if SJ + "as_str" in tn and "sqlgrep::model::ValueType::parse" in tn and "sqlgrep::model::ValueType::convert_from_json" in fn_ \
                        and "sqlgrep::model::ValueType::convert_from_json" not in [short(c.name) for c in cpe.calls if c.bb in tr]:
                    R.ok("C02.convert", "extract|convert", "CONVERT: as_str -> parse; otherwise convert_from_json", cpe.loc(csw[0]))
                else:
                    R.violation("C02.convert", "extract|convert-arms", "CONVERT arms: true -> %s, false -> %s (expected as_str + ValueType::parse / "
                                                                       "convert_from_json)" % (sorted(set(tn))[:6], sorted(set(fn_))[:6]), [cpe.loc(csw[0])])
    # ---- path walk
    gf = R.need_fn("sqlgrep::data_model::JsonAccess::get_value")
    sws = A.enum_switches(gf, "data_model::JsonAccess")
    allowed = re.compile(r"^serde_json::value::Value::(get|as_array)$")
    other_sj = [c for c in gf.calls if short(c.name).startswith("serde_json::") and not allowed.search(short(c.name))]
    for c in other_sj:
        R.violation("C02.walk", "get_value|api|" + short(c.name).split("::")[-1],
                    "JsonAccess::get_value uses %s: the path must be followed step by step (object field by name, array element by index)"
                    % short(c.name), [c.loc()])
    if not sws:
        R.violation("C02.walk", "get_value|no-match", "JsonAccess::get_value does not match on the path step kind", [gf.loc()])
    else:
        arms_, wild, rest = A.arms(gf, sws[0])
        fa = arms_.get("Field")
        aa = arms_.get("Array")
        if fa:
            cs = [c for c in gf.calls if c.bb in fa[1] and short(c.name) == SJ + "get"]
            good = len(cs) == 1 and all(o.kind in ("arg", "place") and "name" in place_fields(o.place)
                                        for o in F.origins(gf, cs[0].args[1], depth=8, through_calls=False) if o.place is not None)
            if good and not [c for c in gf.calls if c.bb in fa[1] and short(c.name) == SJ + "as_array"]:
                R.ok("C02.walk", "get_value|Field", "Value::get(name)", cs[0].loc())
            else:
                R.violation("C02.walk", "get_value|Field", "an object step is not `json.get(name)` with the step's own name", [gf.loc(fa[0])])
        else:
            R.violation("C02.walk", "get_value|Field", "no Field arm", [gf.loc()])
        if aa:
            asarr = [c for c in gf.calls if c.bb in aa[1] and short(c.name) == SJ + "as_array"]
            gets = [c for c in gf.calls if c.bb in aa[1] and short(c.name) == "core::slice::<impl [T]>::get"]
            good = len(asarr) == 1 and len(gets) == 1
            if good:
                os_ = F.origins(gf, gets[0].args[1], depth=8, through_calls=False)
                good = bool(os_) and all(o.kind in ("arg", "place") and o.place is not None and "index" in place_fields(o.place) for o in os_)
            if good:
                R.ok("C02.walk", "get_value|Array", "as_array()?.get(index)", gets[0].loc())
            else:
                R.violation("C02.walk", "get_value|Array", "an array step is not `as_array()?.get(index)` with the step's own, unmodified index "
                                                           "(an object with a numeric key, or another element, could be read)", [gf.loc(aa[0])])
        else:
            R.violation("C02.walk", "get_value|Array", "no Array arm", [gf.loc()])
        rec = [c for c in gf.calls if short(c.name) == "sqlgrep::data_model::JsonAccess::get_value"]
        if len(rec) >= 2:
            R.ok("C02.walk", "get_value|recursion", "both arms recurse on the inner step", rec[0].loc())
        else:
            R.violation("C02.walk", "get_value|recursion", "the walk does not recurse on the inner step in both arms", [gf.loc()])
    # ---- totality of the per-line parse
    pin = R.need_fn("sqlgrep::data_model::ParsingInput::new")
    fs = [c for c in pin.calls if short(c.name) == "serde_json::de::from_str"]
    if len(fs) != 1:
        R.violation("C02.total", "ParsingInput::new|parse-count", "the line is parsed as JSON %d times (expected once)" % len(fs), [pin.loc()])
    else:
        lp = PR.loop_of(pin, fs[0].bb)
        uo = [c for c in pin.calls if short(c.name) == "core::result::Result::unwrap_or" and c.args and
              any(o.kind == "call" and o.call is fs[0] for o in F.origins(pin, c.args[0], depth=3))]
        # whether the line is parsed may depend on the table definition only, never on the text of the line
        line_args = [a for a in range(1, pin.arg_count + 1) if pin.local_ty(a) in ("&str", "&'a str", "&alloc::string::String")]
        T, sinks, _ = F.forward_taint(pin, lambda pl: pl.get("l") in line_args)
        gds = F.guards_dominating(pin, fs[0].bb)
        by_line = [gsw for gsw, lab, tgt in gds if gsw in sinks]
        if lp is not None or not uo:
            R.violation("C02.total", "ParsingInput::new|shape", "JSON parse: in loop=%s, consumed by unwrap_or=%s" % (lp is not None, bool(uo)),
                        [fs[0].loc()])
        elif by_line:
            R.violation("C02.total", "ParsingInput::new|line-dependent",
                        "whether a line is parsed as JSON depends on the text of the line (guard at line %d), not only on the table definition: "
                        "a valid document the guard does not anticipate yields NULL / DEFAULT for every JSON column although the value exists"
                        % pin.blocks[by_line[0]]["term"]["span"]["line"], [pin.loc(by_line[0]), fs[0].loc()])
        else:
            R.ok("C02.total", "ParsingInput::new", "serde_json::from_str(line).unwrap_or(Null), once; parsed or not depending on the table "
                                                   "definition only (%d guards)" % len(gds), fs[0].loc())
    R.assume("serde_json's number model (u64 > i64::MAX, duplicate keys, recursion limit) is the library's; purity of extraction is decided under C01.pure")
