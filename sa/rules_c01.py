"""C01 — regex / split extraction yields exactly the captured, typed column values."""
import re
from .prog import short, place_fields
from . import flow as F
from . import pathrules as PR
from . import arms as A
from . import rules_sites

EXTRACT = "sqlgrep::data_model::TableDefinition::extract"
EUR = "sqlgrep::data_model::ColumnParsing::extract_using_regex"
REGEX_API_OK = re.compile(r"^regex::regex::string::(Regex::(captures|split)|Captures::get|Match::as_str)$")
OPTION_FIELDS = ["nullable", "trim", "convert", "microseconds", "default_value"]


def inline_pattern_rule(R, rid):
    """an inline pattern column (`'regex' => col TYPE`) reads group 1 of *its own* capture pattern: the name put into its reference is the
    name made for the pattern registered right there (never the name of some other declared pattern, whose mode or groups may differ)"""
    P = R.prog
    R.rule(rid, "the pattern name of an inline-pattern column's reference (group_index 1, built in parse_create_table) is the freshly "
                "formatted name of the capture pattern registered for it - not a name looked up among the patterns declared so far")
    f0 = P.fn("sqlgrep::parsing::parser::Parser::parse_create_table")
    if f0 is None:
        return
    v = PR.desugared(P, PR.view(P, f0))
    n = 0
    for i, st in v.stmts():
        if st["k"] != "assign" or st["rv"]["k"] != "aggr" or st["rv"].get("variant") != "RegexResultReference":
            continue
        flds = st["rv"].get("fields") or []
        if "group_index" not in flds or "pattern_name" not in flds:
            continue
        gi = st["rv"]["ops"][flds.index("group_index")]
        if gi.get("k") != "const" or gi.get("int") != 1:
            continue
        n += 1
        os_ = F.origins(v, st["rv"]["ops"][flds.index("pattern_name")], depth=14)
        made = [o for o in os_ if o.kind == "call" and re.search(r"core::hint::must_use$|^alloc::fmt::format", short(o.call.name))]
        other = [o for o in os_ if not (o.kind == "call" and (re.search(r"core::hint::must_use$|^alloc::fmt::format", short(o.call.name)) or
                                                              F.TRANSPARENT.search(short(o.call.name)) or
                                                              re.search(r"ToString>::to_string$", short(o.call.name)))) and o.kind not in ("unknown",)]
        if made and not other:
            R.ok(rid, "parse_create_table|inline", "pattern_name = format!(..) of the pattern pushed for this column", "%s:%d" % (v.file, st["line"]))
        else:
            R.violation(rid, "parse_create_table|inline-name", "the reference of an inline-pattern column can name a pattern that was not "
                        "registered for it (%s): the column then reads group / field 1 of that other pattern's result - a split pattern's "
                        "first field, or a capture pattern with other groups" % ([str(o) for o in other][:2] or "no freshly formatted name"),
                        ["%s:%d" % (v.file, st["line"])])
    if n == 0:
        R.note("%s: no inline-pattern reference (RegexResultReference with the constant group 1) found in parse_create_table" % rid)


def bool_pattern_rule(R, rid):
    """a BOOLEAN column is `the group took part` only where its pattern matched the line at all: the Value::Bool is built on paths on
    which the lookup of the pattern's result was Some - a line the pattern does not match gives the column's default (NULL), so it
    cannot make the line yield a row"""
    P = R.prog
    eur = PR.desugared(P, R.need_fn("sqlgrep::data_model::ColumnParsing::extract_using_regex"))
    fa = PR.facts(eur)
    gets = [c for c in eur.calls if re.search(r"hash::map::HashMap::get$|btree::map::BTreeMap::get$", short(c.name)) and
            "RegexResult" in " ".join(c.func.get("res_targs") or c.targs or [])]
    bools = [(i, s_) for i, s_ in eur.stmts() if s_["k"] == "assign" and s_["rv"]["k"] == "aggr" and s_["rv"].get("variant") == "Bool"
             and (s_["rv"].get("adt") or "").endswith("model::Value")]
    if not gets or not bools or not fa.ok:
        R.note("%s: pattern-result lookup / Bool construction not found in extract_using_regex (bool-under-pattern rule not instantiated)" % rid)
        return
    for i, s_ in bools:
        ws = fa.worlds_at(i) or []
        bad = [w for w in ws if not any(fa.atoms.get(k_, {}).get("kind") == "discr" and fa.atoms.get(k_, {}).get("call") in gets and v_ == "Some"
                                        for k_, v_ in w)]
        if bad or not ws:
            R.violation(rid, "bool-without-pattern",
                        "a BOOLEAN column's value is built on a path where the lookup of its pattern's result was not established to be Some: "
                        "a line the pattern does not match at all yields `false` instead of the default, so the line produces a row and "
                        "is no longer invisible to queries", ["%s:%d" % (eur.file, s_["line"])])
            return
    R.ok(rid, "bool-under-pattern", "Value::Bool(group.is_some()) only where the pattern's result exists (%d site(s))" % len(bools), eur.loc())


def run(R):
    P = R.prog
    R.rule("C01.sites", "no narrowing / sign-changing cast, unchecked arithmetic or panic-capable construct on a value derived from captured text "
                        "(site inventory rooted at TableDefinition::extract)")
    rules_sites.ROOTS["EXTRACT"] = [EXTRACT]
    rules_sites.run_inventory(R, "C01.sites", "EXTRACT", R.rules["C01.sites"]["desc"],
                              restrict=lambda s: s.kind in ("cast", "overflow", "divzero", "bounds", "api:int-fn", "api:index", "api:vec-pos", "api:unwrap"))
    R.rule("C01.index", "every group / field lookup receives the unmodified group_index of the reference the column names, and the pattern "
                        "lookup its unmodified pattern_name")
    R.rule("C01.api", "patterns are applied only through Regex::captures (leftmost match) and Regex::split, results read through "
                      "Captures::get / Match::as_str; no other regex API in the extraction subgraph")
    R.rule("C01.options", "every column option the CREATE TABLE converter writes is read by the extraction subgraph; TRIM controls str::trim, "
                          "DEFAULT reaches the group lookup's default")
    R.rule("C01.parse", "ValueType::parse maps INT/REAL/BOOLEAN/TEXT to i64/f64/bool::from_str and to_owned with no wildcard; BOOLEAN columns "
                        "mean the group's existence (Option::is_some) on both the captures and the split arm")
    R.rule("C01.pure", "the extraction subgraph has no write through its arguments and no interior mutability: a row is a function of "
                       "(definition, this line)")
    exf = R.need_fn(EXTRACT)
    pin = R.need_fn("sqlgrep::data_model::ParsingInput::new")
    reach = P.reachable([exf])
    # ---- index provenance
    eur = R.need_fn(EUR)
    # the lookups may sit in extract_using_regex itself or in a helper it calls (e.g. a `group(index)` accessor on the result type)
    gets = []
    for k in sorted(P.reachable([eur])):
        g = P.fns[k]
        if not g.spath.startswith("sqlgrep::data_model::"):
            continue
        for c in g.calls:
            ts = " ".join(c.func.get("res_targs") or c.targs)
            if short(c.name) == "regex::regex::string::Captures::get" or (short(c.name) == "core::slice::<impl [T]>::get" and "&str" in ts):
                gets.append((g, c))
    kinds = sorted(set(short(c.name).split("::")[-2] for g, c in gets))
    if not any("Captures" in k for k in kinds) or len(kinds) < 2:
        R.violation("C01.index", "extract_using_regex|lookups", "the single-group lookup no longer reads both a capture group (Captures::get) and a "
                                                                "split field (slice get): found %s" % kinds, [eur.loc()])
    for g, c in gets:
        leaves = F.origins_ip(P, g, c.args[1], depth=3)
        good = bool(leaves) and all(o.kind == "arg" and o.place is not None and "group_index" in place_fields(o.place) for h, o in leaves
                                    if not (o.kind == "call" and F.TRANSPARENT.search(short(o.call.name))))
        owner = g.spath.split("::")[-1]
        key = "extract_using_regex|" + short(c.name).split("::")[-2] + "::get" + ("" if g.key == eur.key else "@" + owner)
        if good:
            R.ok("C01.index", key, "index = pattern.group_index (unmodified)", c.loc())
        else:
            R.violation("C01.index", key, "the group / field index passed to %s is not the unmodified group_index of the column's reference (%s): "
                                          "a value would be taken from another group" % (short(c.name), [str(o) for h, o in leaves][:4]), [c.loc()])
    # ---- the column DEFAULT stands in only for a group that did not take part, never for text that failed to convert
    R.rule("C01.default", "DEFAULT replaces only a group / field that did not take part in the match: no use of the default is conditioned on "
                          "the outcome of ValueType::parse (text that is not a literal of the type yields NULL)")
    PARSE = "sqlgrep::model::ValueType::parse"
    darg = [a for a in range(1, eur.arg_count + 1) if eur.local_ty(a) == "sqlgrep::model::Value"]

    def has_parse(h, op):
        for h2, o in F.origins_ip(P, h, op, depth=2):
            if o.kind == "call":
                if short(o.call.name) == PARSE:
                    return True
                for ck in (o.call.func.get("closure_args") or []):
                    cf = P.fns.get(ck) or P.fns.get("bin/" + ck)
                    if cf is not None and any(short(c2.name) == PARSE for c2 in cf.calls):
                        return True
        return False
    n_def = 0
    for c in eur.calls:
        for ai, a in enumerate(c.args):
            if ai == 0 or a["k"] not in ("copy", "move"):
                continue
            if any(o.kind == "arg" and o.arg in darg for o in F.origins(eur, a, depth=6, through_calls=False)) and \
                    re.search(r"^core::(option::Option|result::Result)::(unwrap_or|unwrap_or_else|map_or|map_or_else|or|or_else)$", short(c.name)):
                n_def += 1
                if has_parse(eur, c.args[0]):
                    R.violation("C01.default", "extract_using_regex|%s" % short(c.name).split("::")[-1],
                                "the column default replaces the result of ValueType::parse (%s on a value that went through the conversion): "
                                "text that is not a literal of the column type yields the DEFAULT instead of NULL" % short(c.name).split("::")[-1],
                                [c.loc()])
                else:
                    R.ok("C01.default", "extract_using_regex|%s" % short(c.name).split("::")[-1], "default stands in for a missing group only", c.loc())
    for i, st in eur.stmts():
        if st["k"] != "assign" or st["rv"]["k"] != "use" or st["rv"]["op"]["k"] not in ("copy", "move"):
            continue
        src = st["rv"]["op"]["pl"]
        if src["l"] not in darg or src["p"] or st["pl"]["l"] != 0:
            continue
        n_def += 1
        bad = None
        for gsw, lab, tgt in F.guards_dominating(eur, i):
            info = F.switch_info(eur, gsw)
            if info and info[0] == "discr" and has_parse(eur, info[1]["pl"]):
                bad = gsw
            elif info and info[0] == "bool":
                d = eur.blocks[gsw]["term"]["discr"]
                if d["k"] in ("copy", "move") and has_parse(eur, d):
                    bad = gsw
        if bad is not None:
            R.violation("C01.default", "extract_using_regex|branch", "the column default is returned on a branch decided by the outcome of "
                                                                     "ValueType::parse: text that is not a literal of the type yields the DEFAULT "
                                                                     "instead of NULL", ["%s:%d" % (eur.file, st["line"])])
        else:
            R.ok("C01.default", "extract_using_regex|return@%d" % n_def, "default returned only where the group is absent", "%s:%d" % (eur.file, st["line"]),
                 nontrivial=(n_def <= 3))
    if n_def == 0:
        R.note("C01.default: no use of the default value recognised in extract_using_regex")
    # per-pattern results are addressed by the pattern's identity (its name), never by position
    pg = []
    for k in sorted(reach):
        g = P.fns[k]
        for c in g.calls:
            if re.search(r"(hash::map::HashMap|btree::map::BTreeMap)::get$", short(c.name)) and \
                    any("RegexResult" in t for t in (c.func.get("res_targs") or c.targs)):
                pg.append((g, c))
    # the per-line results live in a map keyed by the pattern's name (decided on the type of the field that holds them)
    pia = P.adts.get("sqlgrep::data_model::ParsingInput") or {"variants": []}
    holders = [(fl["name"], fl["ty"]) for v in pia["variants"] for fl in v["fields"] if "RegexResult" in fl["ty"]]
    keyed = [h for h in holders if re.match(r"^(std::collections::hash::map::HashMap|alloc::collections::btree::map::BTreeMap)<&?'?\w*\s?(alloc::string::String|str|&str)", h[1])]
    if holders and len(keyed) == len(holders):
        R.ok("C01.index", "ParsingInput::new|keyed-results", "results held in %s" % keyed[0][1][:70], pin.loc())
    else:
        R.violation("C01.index", "ParsingInput::new|positional-results",
                    "the per-line regex results are held in %s, not in a map keyed by the pattern's name: when an earlier pattern does not "
                    "match, later results shift and a column reads another pattern's groups" % ([h[1][:80] for h in holders] or "no field"),
                    [pin.loc()])
    if not pg:
        R.violation("C01.index", "extract|pattern-lookup-missing", "no lookup of a pattern's result by name in the extraction subgraph", [eur.loc()])
    # pg was collected on raw functions; when the lookup moved into a new accessor the view of extract_using_regex contains it
    pgv = [(eur, c) for c in eur.calls if re.search(r"(hash::map::HashMap|btree::map::BTreeMap)::get$", short(c.name)) and
           any("RegexResult" in t for t in (c.func.get("res_targs") or c.targs))]
    if pgv:
        pg = pgv
    for g, c in pg:
        if g.key != eur.key:
            R.violation("C01.index", "extract|pattern-lookup-elsewhere", "pattern results are looked up in %s instead of by the column's reference in "
                                                                         "extract_using_regex" % g.path, [c.loc()])
            continue
        leaves = F.origins_ip(P, eur, c.args[1], depth=2)
        os_ = [o for h, o in leaves if not (o.kind == "call" and F.TRANSPARENT.search(short(o.call.name)))]
        if (os_ and all(o.kind == "arg" and o.place is not None and "pattern_name" in place_fields(o.place) for o in os_)) or \
                ("pattern_name" in F.provenance_fields(eur, c.args[1]) and os_ and all(o.kind == "arg" for o in os_)):
            R.ok("C01.index", "extract_using_regex|pattern", "pattern lookup by pattern.pattern_name", c.loc())
        else:
            R.violation("C01.index", "extract_using_regex|pattern", "the pattern lookup does not use the reference's pattern_name", [c.loc()])
    # ---- regex API
    n_api = 0
    for k in sorted(reach):
        g = P.fns[k]
        for c in g.calls:
            sn = short(c.name)
            if sn.startswith("regex::"):
                n_api += 1
                if REGEX_API_OK.search(sn):
                    R.ok("C01.api", "%s|%s" % (g.spath.split("::")[-1], sn.split("::")[-1]), "listed regex API", c.loc(), nontrivial=False)
                else:
                    R.violation("C01.api", "%s|%s" % (g.spath.split("::")[-1], sn.split("::")[-1]),
                                "%s applies a pattern through %s: only the leftmost match (captures) and a complete split are specified"
                                % (g.path, sn), [c.loc()])
    # the patterns are compiled verbatim: Regex::new(pattern), no builder flags that change what `.`/anchors match
    tdn = R.need_fn("sqlgrep::data_model::TableDefinition::new")
    for k in sorted(P.reachable([tdn])):
        g = P.fns[k]
        for c in g.calls:
            sn = short(c.name)
            if sn.startswith("regex::"):
                if sn == "regex::regex::string::Regex::new":
                    R.ok("C01.api", "TableDefinition::new|Regex::new", "pattern compiled verbatim", c.loc())
                else:
                    R.violation("C01.api", "TableDefinition::new|" + sn.split("::")[-1],
                                "table patterns are compiled through %s: builder options (crlf, case_insensitive, multi_line, ...) change which text a "
                                "group captures" % sn, [c.loc()])
    sp = [c for c in pin.calls if short(c.name) == "regex::regex::string::Regex::split"]
    ad = [c for c in pin.calls if re.search(r"Iterator::(take|skip|step_by|filter|rev|take_while|skip_while)$", short(c.name))]
    if sp and not ad:
        R.ok("C01.api", "ParsingInput::new|split-complete", "split(line) collected completely", sp[0].loc())
    elif ad:
        R.violation("C01.api", "ParsingInput::new|split-adapter", "the split fields are filtered/limited by %s" % short(ad[0].name), [ad[0].loc()])
    if n_api < 4:
        R.violation("C01.api", "count", "fewer regex API calls than expected in the extraction subgraph (%d)" % n_api, [exf.loc()])
    total_paths(R, "C01.total")
    # ---- options read
    read_in = {}
    for k in sorted(reach):
        g = P.fns[k]
        for fld in OPTION_FIELDS:
            if PR.field_reads(g, fld):
                read_in.setdefault(fld, g)
    for fld in OPTION_FIELDS:
        if fld in read_in:
            R.ok("C01.options", fld, "read in %s" % read_in[fld].spath.split("::")[-1], read_in[fld].loc())
        else:
            R.violation("C01.options", fld, "column option `%s` is parsed but never read by the extraction subgraph (the modifier is ignored)" % fld,
                        [exf.loc()])
    # trim controls str::trim: in whichever function of the extraction subgraph the option is read
    trim_ok = None
    for k in sorted(reach):
        g = P.fns[k]
        tr = [c for c in g.calls if short(c.name) == "core::str::<impl str>::trim"]
        if not tr:
            continue
        trsw = []
        for (bb, st) in PR.field_reads(g, "trim"):
            if isinstance(st, dict) and st.get("switch"):
                trsw.append(bb)
                continue
            l = st["pl"]["l"]
            for sw in sorted(g.reach):
                t = g.blocks[sw]["term"]
                if t["k"] == "switch" and t["discr"]["k"] in ("copy", "move") and t["discr"]["pl"]["l"] == l and not t["discr"]["pl"]["p"]:
                    trsw.append(sw)
        # ... or tested through a copy of it (`if let (true, Value::String(s)) = (column.options.trim, &mut value)`, `let t = o.trim; if t`)
        true_edges = []
        for sw in sorted(g.reach):
            info = F.switch_info(g, sw)
            if not info or info[0] != "bool" or sw in trsw:
                continue
            for lab, tgt in info[2].items():
                pos, os_ = F.bool_edge_polarity(g, sw, lab)
                seen_pl = []
                for o in (os_ or []):
                    if o.place is not None and isinstance(o.place, dict) and "p" in o.place:
                        seen_pl.append(o.place)
                F.origins(g, info[1], depth=8, through_calls=False, visit=seen_pl.append)
                if pos and any("trim" in place_fields(pl) for pl in seen_pl) and \
                        not any(o.kind in ("binop", "unop") for o in F.origins(g, info[1], depth=8, through_calls=False)):
                    true_edges.append((sw, tgt))
        for c in tr:
            under = any(PR.dominated_by_edge(g, c.bb, sw, g.blocks[sw]["term"]["otherwise"]) for sw in trsw) or \
                any(PR.dominated_by_edge(g, c.bb, sw, tgt) for sw, tgt in true_edges)
            trim_ok = (trim_ok is not False) and under
            if not under:
                R.violation("C01.options", "trim->str::trim", "%s calls str::trim outside the TRIM option's branch: values of columns without TRIM "
                                                              "lose their surrounding whitespace" % g.path, [c.loc()])
            else:
                R.ok("C01.options", "trim->str::trim", "str::trim applied exactly under options.trim (in %s)" % g.spath.split("::")[-1], c.loc())
    if trim_ok is None:
        R.violation("C01.options", "trim->str::trim", "TRIM no longer controls a call to str::trim in the extraction subgraph", [exf.loc()])
    # default reaches extract_using_regex
    cpe = R.need_fn("sqlgrep::data_model::ColumnParsing::extract")
    calls = [c for c in cpe.calls if short(c.name) == EUR]
    withdef = [c for c in calls if any(o.kind == "call" and short(o.call.name).endswith("ColumnDefinition::default_value")
                                       for o in F.origins(cpe, c.args[3], depth=4))]
    if not withdef:
        # the default handed over lazily: a closure `|| column.default_value()` as the argument
        for c in calls:
            for ck in (c.func.get("closure_args") or []):
                g_ = P.fns.get(ck)
                if g_ is not None and any(short(x.name).endswith("ColumnDefinition::default_value") for x in g_.calls):
                    withdef.append(c)
    if withdef:
        R.ok("C01.options", "default->lookup", "single-group columns pass column.default_value() as the lookup default", withdef[0].loc())
    else:
        R.violation("C01.options", "default->lookup", "DEFAULT is not handed to the group lookup of single-group columns", [cpe.loc()])
    # ---- parse arm table
    pf = R.need_fn("sqlgrep::model::ValueType::parse")
    sws = A.enum_switches(pf, "model::ValueType")
    want = {"Int": r"<impl core::str::traits::FromStr for i64>::from_str$", "Float": r"<impl core::str::traits::FromStr for f64>::from_str$",
            "Bool": r"<impl core::str::traits::FromStr for bool>::from_str$|^<bool as core::str::traits::FromStr>::from_str$", "String": r"ToOwned for str>::to_owned$"}
    if not sws:
        R.violation("C01.parse", "parse|no-match", "ValueType::parse does not match on the type", [pf.loc()])
    else:
        arms_, wild, rest = A.arms(pf, sws[0])
        if wild:
            R.violation("C01.parse", "parse|wildcard", "ValueType::parse has a wildcard arm covering %s" % rest, [pf.loc(sws[0])])
        for vn, rx in want.items():
            if vn not in arms_:
                R.violation("C01.parse", "parse|" + vn, "no arm for %s" % vn, [pf.loc()])
                continue
            names = A.region_call_names(pf, arms_[vn][1])
            casts = [s for i, s in A.region_stmts(pf, arms_[vn][1]) if s["rv"]["k"] == "cast" and s["rv"]["ck"] in ("IntToInt", "FloatToInt", "IntToFloat")]
            if any(re.search(rx, n) for n in names) and not casts:
                R.ok("C01.parse", "parse|" + vn, "std parser of the declared type", pf.loc(arms_[vn][0]))
            else:
                R.violation("C01.parse", "parse|" + vn, "the %s arm of ValueType::parse does not use the type's own FromStr (callees %s, casts %d): "
                                                        "a value would be re-typed or altered" % (vn, names, len(casts)), [pf.loc(arms_[vn][0])])
    # BOOLEAN = existence on both arms
    bools = [(i, s) for i, s in eur.stmts() if s["k"] == "assign" and s["rv"]["k"] == "aggr" and s["rv"].get("variant") == "Bool"]
    okb = 0
    for i, s in bools:
        if any(o.kind == "call" and short(o.call.name) == "core::option::Option::is_some" for o in F.origins(eur, s["rv"]["ops"][0], depth=4)):
            okb += 1
    if okb >= 1 and okb == len(bools):
        R.ok("C01.parse", "bool-existence", "every Value::Bool built by the single-group lookup is group.is_some() (%d site(s))" % okb, eur.loc())
    else:
        R.violation("C01.parse", "bool-existence", "BOOLEAN columns do not mean `the group took part` on both arms (%d of %d)" % (okb, len(bools)),
                    [eur.loc()])
    bool_pattern_rule(R, "C01.parse")
    inline_pattern_rule(R, "C01.inline")
    # ---- purity
    impure = []
    for k in sorted(reach):
        g = P.fns[k]
        if g.derived:
            continue
        for i, s in g.stmts():
            if s["k"] != "assign":
                continue
            pl = s["pl"]
            if 1 <= pl["l"] <= g.arg_count and "*" in pl["p"]:
                impure.append((g, "write through argument %s" % g.local_name(pl["l"]), s["line"]))
            rv = s["rv"]
            if rv["k"] == "ref" and rv["bk"] == "mut" and 1 <= rv["pl"]["l"] <= g.arg_count and "*" in rv["pl"]["p"] and \
                    not g.local_ty(rv["pl"]["l"]).startswith("&mut "):
                impure.append((g, "&mut through shared argument", s["line"]))
            if rv["k"] == "tls":
                impure.append((g, "thread-local access", s["line"]))
    statics_mut = [s for s in P.statics if "Mutex" in s["ty"] or "RefCell" in s["ty"] or "Cell<" in s["ty"] or "Atomic" in s["ty"]]
    nonfreeze = []
    td = P.adts.get("sqlgrep::data_model::TableDefinition")
    for key in ("sqlgrep::data_model::TableDefinition", "sqlgrep::data_model::ColumnDefinition", "sqlgrep::data_model::ColumnOptions",
                "sqlgrep::data_model::ColumnParsing", "sqlgrep::data_model::JsonAccess"):
        a = P.adts.get(key)
        if a:
            for v in a["variants"]:
                for fl in v["fields"]:
                    if re.search(r"\b(Cell|RefCell|Mutex|RwLock|Atomic\w+|OnceCell|UnsafeCell)\b", fl["ty"]):
                        nonfreeze.append("%s.%s: %s" % (key.split("::")[-1], fl["name"], fl["ty"]))
    # &mut self methods reachable from extract on argument-derived state would show up as impure writes
    real = [(g, d, l) for g, d, l in impure if not g.local_ty(1).startswith("&mut ") or g.spath.endswith("TableDefinition::extract")]
    if real or nonfreeze:
        for g, d, l in real[:3]:
            R.violation("C01.pure", "%s|%s" % (g.spath.split("::")[-1], d), "%s in %s: extraction is no longer a function of (definition, line)"
                        % (d, g.path), ["%s:%d" % (g.file, l)])
        for nf in nonfreeze:
            R.violation("C01.pure", "interior|" + nf.split(":")[0], "interior mutability in the table definition: %s" % nf, ["src/data_model.rs"])
    else:
        R.ok("C01.pure", "extract-subgraph", "%d functions, no write through arguments, no interior mutability besides regex::Regex's cache" % len(reach),
             exf.loc())
    R.assume("regex::Regex::captures returns the leftmost match and its internal cache does not affect results; "
             "i64/f64/bool::from_str implement the literal grammars (std)")
    R.assume("array / TIMESTAMP assembly values and chrono's calendar validation are not decided (only positions, casts and options are)")


def total_paths(R, rid):
    pattern_skips(R, rid) if False else None
    _total_paths(R, rid)
    pattern_skips(R, rid)


def _total_paths(R, rid):
    """every line takes the same path: no exit of ParsingInput::new / TableDefinition::extract bypasses the pattern / column loop"""
    exf = R.need_fn(EXTRACT)
    pin = R.need_fn("sqlgrep::data_model::ParsingInput::new")
    R.rule(rid, "every line (also an empty one) is matched against every pattern and every column: no return of ParsingInput::new or "
                "TableDefinition::extract bypasses the loop over the table's patterns / columns (no input-dependent fast path)")
    for fn_, what in ((pin, "patterns"), (exf, "columns")):
        hdrs = []
        for c in fn_.calls:
            if short(c.name).endswith("Iterator>::next") and PR.loop_of(fn_, c.bb):
                lp_ = PR.loop_of(fn_, c.bb)
                hdrs.append(lp_[0])
        outer = [h for h in hdrs if not any(h in body and h != h2 for h2, body in fn_.loops().items())]
        # the same iteration written with adapters: a consuming call over slice::Iter of the table's vector, with no limiting adapter
        for c in fn_.calls:
            if re.search(r"Iterator::(collect|for_each|fold|try_fold|try_for_each|count|last|sum|unzip|partition)$|::from_iter$|::extend$", short(c.name)) \
                    and not PR.loop_of(fn_, c.bb):
                ty = " ".join(c.targs + (c.func.get("res_targs") or []))
                if "core::slice::iter::Iter<" in ty and not re.search(r"adapters::(take|skip|step_by|take_while|skip_while|map_while|peekable|fuse)::", ty):
                    outer.append(c.bb)
        nm = fn_.spath.split("::")[-2] + "::" + fn_.spath.split("::")[-1]
        if not outer:
            R.violation(rid, nm + "|no-loop", "%s has no loop over the table's %s" % (fn_.path, what), [fn_.loc()])
            continue
        good, badb = PR.all_paths_hit(fn_, 0, outer)
        if good:
            R.ok(rid, nm, "all paths pass the loop over the %s" % what, fn_.loc(outer[0]))
        else:
            R.violation(rid, nm + "|bypass",
                        "%s can return without matching the line against the table's %s (an input-dependent fast path): such a line yields NULLs "
                        "although a pattern matches it (e.g. the empty line and `(.*)`), i.e. the line never reaches the query"
                        % (fn_.path, what), [fn_.loc(badb)])


def pattern_skips(R, rid):
    """C01.total (second half): inside the loop over the table's patterns every pass applies the pattern to the line, or skips it
    only on a flag of the table definition that was computed from ALL references of every column"""
    P = R.prog
    pin = R.need_fn("sqlgrep::data_model::ParsingInput::new")
    apps = [c for c in pin.calls if re.search(r"^regex::regex::string::Regex::(captures|split|find|is_match)", short(c.name))]
    nxts = [c for c in pin.calls if short(c.name).endswith("Iterator>::next") and PR.loop_of(pin, c.bb)]
    if not apps or not nxts:
        return
    lp = None
    for c in nxts:
        l_ = PR.loop_of(pin, c.bb)
        if l_ and all(a.bb in l_[1] for a in apps):
            lp = (c, l_)
    if lp is None:
        return
    nx, (hdr, body) = lp
    g = PR.discr_guard(pin, nx, "Some")
    if g is None:
        return
    skipping = hdr in pin.reachable_from(g[1], avoid=set(a.bb for a in apps))
    if not skipping:
        R.ok(rid, "ParsingInput::new|every-pattern", "every pass of the pattern loop applies the pattern to the line", nx.loc())
        return
    # which guards let a pass skip the application?  They must depend on the table definition only, and that flag must have been
    # computed from every reference of every column
    line_args = [a for a in range(1, pin.arg_count + 1) if pin.local_ty(a) in ("&str", "&'a str", "&alloc::string::String")]
    T, sinks, _ = F.forward_taint(pin, lambda pl: pl.get("l") in line_args)
    skip_sw = [sw for sw in body if pin.blocks[sw]["term"]["k"] == "switch" and any(a.bb in pin.reachable_from(sw, avoid={hdr}) for a in apps)
               and hdr in pin.reachable_from(sw, avoid=set(a.bb for a in apps)) and sw != g[0]]
    if any(sw in sinks for sw in skip_sw):
        R.violation(rid, "ParsingInput::new|skip-depends-on-line", "a pattern is skipped depending on the text of the line (a fast path): "
                                                                   "its columns become NULL although the pattern may match", [pin.loc(skip_sw[0])])
        return
    # the summary of a column's references: functions of the data model that match on ColumnParsing and read the MultiRegex list
    partial = []
    for g_ in P.fns.values():
        if g_.target != "lib" or not g_.spath.startswith("sqlgrep::data_model::") or g_.kind == "Closure":
            continue
        if g_.spath.endswith("ColumnParsing::extract") or g_.spath.endswith("::fmt"):
            continue
        for sw in A.enum_switches(g_, "data_model::ColumnParsing"):
            arms_, _, _ = A.arms(g_, sw)
            if "MultiRegex" not in arms_:
                continue
            reg = arms_["MultiRegex"][1]
            names = [short(c.name) for c in g_.calls if c.bb in reg]
            picks = [n for n in names if re.search(r"slice::<impl \[T\]>::(first|last|get|first_mut|last_mut)$|Index<.*>>::index$|Iterator::(nth|last|next)$|Iterator>::next$", n)]
            walks = [n for n in names if re.search(r"Iterator::(any|all|for_each|fold|map|flat_map|filter|collect|count)$|IntoIterator>::into_iter$|::iter$", n)]
            if picks and not [n for n in walks if not n.endswith("::iter")]:
                partial.append((g_, picks[0], sw))
    if partial:
        g_, pick, sw = partial[0]
        R.violation(rid, "ParsingInput::new|skip-on-partial-summary",
                    "patterns are skipped on a flag of the table definition, and %s summarises a multi-group column by a single reference "
                    "(%s): a pattern that only later positions of an array / TIMESTAMP column refer to is never applied, so those parts are NULL"
                    % (g_.path, pick.split("::")[-1]), [g_.loc(sw), pin.loc(skip_sw[0]) if skip_sw else pin.loc()])
    else:
        R.ok(rid, "ParsingInput::new|every-referenced-pattern", "patterns are skipped only on a definition-level flag (no partial summary of "
                                                                "multi-group columns found)", nx.loc())
