"""C08 — DISTINCT emits each distinct output tuple once, at its first occurrence."""
import re
from .prog import short, place_fields
from . import flow as F
from . import pathrules as PR

SEL = "sqlgrep::execution::select_execution::SelectExecutionEngine::execute"
AGG = "sqlgrep::execution::aggregate_execution::AggregateExecutionEngine::execute_result"
ADD = r"^sqlgrep::execution::helpers::DistinctValues::add$"
TUPLE_TY = "alloc::vec::Vec<sqlgrep::model::Value>"


def _distinct_switches(f):
    res = []
    for (bb, s) in PR.field_reads(f, "distinct"):
        if isinstance(s, dict) and s.get("switch"):
            res.append(bb)
            continue
        l = s["pl"]["l"]
        for sw in sorted(f.reach):
            t = f.blocks[sw]["term"]
            if t["k"] == "switch" and t["discr"]["k"] in ("copy", "move") and t["discr"]["pl"]["l"] == l and not t["discr"]["pl"]["p"]:
                res.append(sw)
    return sorted(set(res))


def _is_distinct_flag(a):
    """the path fact reads the bool field of a SELECT / aggregate statement (its DISTINCT flag)"""
    if a.get("kind") != "place":
        return False
    fe = [e for e in a["place"]["p"] if isinstance(e, dict) and "f" in e]
    return bool(fe) and fe[-1].get("ty") == "bool" and re.search(r"model::(SelectStatement|AggregateStatement)$", fe[-1].get("adt") or "") is not None


def _emission_guarded(R, rid, f, emit_calls, key):
    """on every path to an emission either `distinct == false` holds or `DistinctValues::add(..) == true` (path facts; any spelling:
    nested ifs, `!distinct || add(..)`, a predicate helper, early returns)"""
    adds = PR.calls_matching(f, ADD)
    if len(adds) != 1:
        R.violation(rid, key + "|no-distinct-test", "%s does not call DistinctValues::add exactly once (%d add calls)" % (f.path, len(adds)),
                    [f.loc()])
        return None
    add = adds[0]
    def _is_filter_option(a):
        # `let filter = if distinct { Some(DistinctValues::new()) } else { None }; .. if let Some(f) = filter.as_mut()`: the flag lives on as
        # the variant of an Option around the set
        if a.get("kind") != "discr" or not isinstance(a.get("place"), dict):
            return False
        return any(tag in f.local_ty(a["place"]["l"]) for tag in ("DistinctValues", "FirstOccurrenceSet")) or \
            (a.get("call") is not None and any(tag in " ".join(a["call"].func.get("res_targs") or a["call"].targs or []) for tag in ("DistinctValues",)))
    fa = PR.facts(f, relevant=lambda a: _is_distinct_flag(a) or _is_filter_option(a) or (a.get("kind") == "call" and a.get("call") is add), tag="distinct")
    if not fa.ok:
        R.violation(rid, key + "|unanalysable", "%s: too many paths to establish the DISTINCT guard" % f.path, [f.loc()])
        return None

    def passes(a, val):
        if _is_distinct_flag(a) and val is False:
            return True
        if a.get("kind") == "call" and a.get("call") is add and val is True:
            return True
        return False
    ok = True
    for e in emit_calls:
        if not fa.every_path(e.bb, passes):
            ok = False
            R.violation(rid, key + "|unguarded-emission",
                        "%s: a result row can be emitted on a path on which neither `distinct == false` nor `DistinctValues::add(..) == true` "
                        "holds (DISTINCT is skipped, or a reported duplicate is emitted)" % f.path, [e.loc()])
    # the set is consulted only for DISTINCT statements (add() on a non-DISTINCT path would be harmless but its result must not matter)
    return add if ok else None


def distinct_add_fn(P):
    """the `add(&mut set, &tuple) -> bool` function of the DISTINCT memory: by its pinned name, or - after a rename / generalisation -
    the local bool-returning method, called by the SELECT engine, whose receiver type holds a hash set"""
    f = P.fn("sqlgrep::execution::helpers::DistinctValues::add")
    if f is not None:
        return f
    sel = P.fn(SEL)
    if sel is None:
        return None
    selv = sel        # the raw function: the method must still be visible as a call
    for c in selv.calls:
        for k in P.callee_keys(selv, c):
            g = P.fns[k]
            if g.kind == "Closure" or g.local_ty(0) != "bool" or g.arg_count < 2 or not g.local_ty(1).startswith("&mut "):
                continue
            adt_name = re.sub(r"<.*$", "", g.local_ty(1)[5:])
            a = P.adts.get(adt_name)
            if a and any(re.search(r"(hash::set::HashSet|btree::set::BTreeSet)<", fl["ty"]) for v in a["variants"] for fl in v["fields"]):
                return g
    return None


def _second_pass_form(R, f, pushes):
    """DISTINCT applied to the finished table: `if distinct { let mut seen = DistinctValues::new(); rows.retain(|r| seen.add(&r.columns)) }`.
    Vec::retain visits every element once, front to back, and keeps the order of what it keeps: the first occurrence of each tuple stays."""
    P = R.prog
    rets = [c for c in f.calls if short(c.name) == "alloc::vec::Vec::retain" and (c.func.get("res_targs") or c.targs)[:1] == ["sqlgrep::data_model::Row"]]
    if len(rets) != 1:
        return False
    rt = rets[0]
    cl = [P.fns.get(k) for k in (rt.func.get("closure_args") or [])]
    if len(cl) != 1 or cl[0] is None:
        return False
    g = PR.view(P, cl[0])
    adds = PR.calls_matching(g, ADD)
    if len(adds) != 1:
        return False
    add = adds[0]
    ret_os = F.origins(g, 0, depth=6, through_calls=False)
    problems = []
    if not (len(ret_os) == 1 and ret_os[0].kind == "call" and ret_os[0].call is add):
        problems.append(("agg|retain-predicate", "the retain predicate is not the answer of DistinctValues::add itself"))
    if "columns" not in F.source_fields(g, add.args[1], depth=8) or not any(o.kind == "arg" and o.arg == 2 for o in F.origins(g, add.args[1], depth=8)):
        problems.append(("agg|other-tuple", "DistinctValues::add is not applied to the columns of the row being kept or dropped"))
    fa = PR.facts(f, relevant=_is_distinct_flag, tag="distinct2")
    if not fa.ok or not fa.every_path(rt.bb, lambda a, val: _is_distinct_flag(a) and val is True):
        problems.append(("agg|retain-unguarded", "the second pass is not under `distinct == true`"))
    # the table filtered is the table the rows were pushed into
    def root(op):
        pl, n = op.get("pl"), 0
        while pl is not None and n < 8:
            n += 1
            defs = [st for _, st in F._assign_defs(f).get(pl["l"], []) if not st["pl"]["p"]]
            if len(defs) == 1 and defs[0]["rv"]["k"] == "use" and defs[0]["rv"]["op"].get("pl") is not None:
                pl = defs[0]["rv"]["op"]["pl"]
            elif len(defs) == 1 and defs[0]["rv"]["k"] in ("ref", "copy_for_deref", "rawptr"):
                pl = defs[0]["rv"]["pl"]
            else:
                break
        return pl["l"] if pl is not None else None
    if root(rt.args[0]) is None or any(root(p_.args[0]) != root(rt.args[0]) for p_ in pushes):
        problems.append(("agg|other-table", "the second pass filters another vector than the result rows"))
    # the memory is created in this call
    cap = [st for _, st in f.stmts() if st["k"] == "assign" and st["rv"]["k"] == "aggr" and st["rv"].get("ak") == "closure" and
           any(o.kind == "aggr" and o.place is not None and o.place.get("l") == st["pl"]["l"] for o in F.origins(f, rt.args[1], depth=4, through_calls=False))]
    srcs = [o for st in cap for op in st["rv"]["ops"] for o in F.origins(f, op, depth=6, through_calls=False)]
    if not cap or any(o.kind == "arg" for o in srcs) or not any(o.kind == "call" for o in srcs):
        problems.append(("agg|persistent-memory", "the DISTINCT set of the second pass is not created inside execute_result"))
    if any(PR.loop_of(f, rt.bb) is not None for _ in (0,)):
        problems.append(("agg|retain-in-loop", "the second pass runs inside a loop"))
    if problems:
        for k, msg in problems:
            R.violation("C08.agg", k, "execute_result: %s" % msg, [rt.loc()])
    else:
        R.ok("C08.agg", "agg", "DISTINCT as a second pass: rows.retain(|r| seen.add(&r.columns)) under distinct, on the pushed rows", rt.loc())
        R.ok("C08.agg", "agg|order", "only rows that passed HAVING are in the table the second pass records", rt.loc())
        R.ok("C08.agg", "agg|local-memory", "the DISTINCT set is created inside execute_result", rt.loc())
    return True


def run(R):
    # DISTINCT keeps a hash set of value tuples: "same tuple" is Value's Eq, found through Value's Hash - the two must agree
    from . import rules_c16
    rules_c16.float_key_agreement(R, "C08.keys")
    # every admitted line reaches the DISTINCT test on its own: no memo of the previous line in front of it
    from . import rules_c06
    rules_c06.line_memo_rule(R, "C08.memo")
    P = R.prog
    global ADD
    _af = distinct_add_fn(P)
    if _af is None:
        from .core import AnchorMissing
        raise AnchorMissing("the DISTINCT memory (a set type with an add(&tuple) -> bool method used by the SELECT engine) was not found")
    ADD = "^" + re.escape(_af.spath) + "$"
    R.rule("C08.select", "plain SELECT: a row is emitted only through `distinct == false` or `DistinctValues::add(projected tuple) == true`; "
                         "the tuple tested is the tuple emitted")
    R.rule("C08.agg", "aggregate result table: every pushed row passes the same two edges, independently of HAVING; the DISTINCT memory is local "
                      "to one result table")
    R.rule("C08.set", "DistinctValues::add is contains-then-insert on one set of whole value tuples and returns `!contains`")
    # ---- select
    KEEP = r"DistinctValues::|aggregate_execution::accept_group$|ExpressionExecutionEngine::|data_model::Row::new$|extract_result_rows_by_column$"
    f = PR.view(P, R.need_fn(SEL, raw=True), keep=KEEP, hold=ADD)
    rows = PR.calls_matching(f, r"^sqlgrep::data_model::Row::new$")
    add = _emission_guarded(R, "C08.select", f, rows, "select")
    if add is not None and rows:
        # the vector tested is the vector that becomes the row
        def roots(op):
            out = set()
            for o in F.origins(f, op, depth=10):
                if o.kind in ("place",) and o.place is not None:
                    out.add(("place", o.place["l"]))
                if o.kind == "call" and not F.TRANSPARENT.search(short(o.call.name)):
                    out.add(("call", o.call.bb))
                if o.kind == "aggr" and o.place is not None:
                    out.add(("aggr", o.place["l"]))
            return out
        a, b = roots(add.args[1]), roots(rows[0].args[0])
        if a & b:
            R.ok("C08.select", "select", "emission guarded; the tuple given to add() is the vector moved into the row", add.loc())
        else:
            R.violation("C08.select", "select|other-tuple", "DistinctValues::add is applied to a different value than the row that is emitted",
                        [add.loc()])
    # ---- aggregate
    f = PR.view(P, R.need_fn(AGG, raw=True), keep=KEEP, hold=ADD)
    pushes = [c for c in PR.calls_matching(f, r"^alloc::vec::Vec::push$")
              if (c.func.get("res_targs") or c.targs)[:1] == ["sqlgrep::data_model::Row"]]
    if not pushes:
        R.violation("C08.agg", "agg|no-push", "execute_result: no push of a result Row found", [f.loc()])
    elif not PR.calls_matching(f, ADD) and _second_pass_form(R, f, pushes):
        pass
    else:
        add = _emission_guarded(R, "C08.agg", f, pushes, "agg")
        if add is not None:
            R.ok("C08.agg", "agg", "every pushed row passes distinct==false or add()==true (with or without HAVING)", add.loc())
            # a tuple must be recorded only for a row that is emitted: no HAVING test after add() within one iteration
            lp = PR.loop_of(f, add.bb)
            later = [c for c in f.calls if short(c.name).endswith("aggregate_execution::accept_group") and
                     c.bb in f.reachable_from(add.bb, avoid={lp[0]} if lp else set())]
            if later:
                R.violation("C08.agg", "agg|recorded-before-having",
                            "execute_result records a tuple in the DISTINCT set before HAVING has accepted its group: a rejected group's tuple "
                            "suppresses a later accepted group with the same tuple", [add.loc()])
            else:
                R.ok("C08.agg", "agg|order", "the tuple is recorded only after HAVING accepted the group", add.loc())
            # the tuple that was tested is the tuple that is emitted: nothing writes into it between add() and the push of its row
            def _root(op):
                pl, n_ = op.get("pl"), 0
                while pl is not None and n_ < 8:
                    n_ += 1
                    defs = [st for _, st in F._assign_defs(f).get(pl["l"], []) if not st["pl"]["p"]]
                    if len(defs) == 1 and defs[0]["rv"]["k"] == "use" and defs[0]["rv"]["op"].get("pl") is not None:
                        pl = defs[0]["rv"]["op"]["pl"]
                    elif len(defs) == 1 and defs[0]["rv"]["k"] in ("ref", "copy_for_deref", "rawptr"):
                        pl = defs[0]["rv"]["pl"]
                    else:
                        break
                return pl["l"] if pl is not None else None
            tl = _root(add.args[1])
            after_add = f.reachable_from(add.bb, avoid={lp[0]} if lp else set())
            muts = [(i, st) for i, st in f.stmts() if i in after_add and i != add.bb and st["k"] == "assign" and st["rv"]["k"] == "ref" and
                    st["rv"].get("bk") in ("mut", "Mut") and st["rv"]["pl"]["l"] == tl and tl is not None] if tl is not None else []
            if muts:
                R.violation("C08.agg", "agg|changed-after-test", "execute_result changes the tuple after DistinctValues::add has seen it (a "
                            "mutable borrow of the tested vector at line %d): rows that differ only before the change are both emitted although "
                            "they print the same, or equal rows are tested as different" % muts[0][1]["line"],
                            ["%s:%d" % (f.file, muts[0][1]["line"])])
            else:
                R.ok("C08.agg", "agg|same-tuple", "the tested vector is not written between add() and the push of its row", add.loc(), nontrivial=False)
            # memory local to the call
            # the receiver of add() is a value created in this call (any constructor), not something reached through self
            recv_os = F.origins(f, add.args[0], depth=6, through_calls=False)
            set_ty = re.sub(r"<.*$", "", _af.local_ty(1)[5:])
            local_new = [o.call for o in recv_os if o.kind == "call" and o.call.dest is not None and
                         (set_ty in f.local_ty(o.call.dest["l"]) or "DistinctValues" in f.local_ty(o.call.dest["l"]))] if recv_os else []
            recv_self = any(o.kind == "arg" and o.arg == 1 for o in recv_os)
            built_here = [o for o in recv_os if o.kind in ("aggr", "call")]
            if (local_new or built_here) and not recv_self:
                local_new = local_new or [add]
                R.ok("C08.agg", "agg|local-memory", "the DISTINCT set is created inside execute_result", local_new[0].loc())
            else:
                R.violation("C08.agg", "agg|persistent-memory",
                            "execute_result tests DISTINCT against a set stored in the engine: rows shown by an earlier refresh are removed from "
                            "every later result table", [add.loc()])
    # ---- the set
    af = PR.view(P, _af)
    # a generic set (`Set<T>`) is instantiated by its callers: the element type is then read at the call sites in the engines
    inst = set()
    for g in P.fns.values():
        for c in g.calls:
            if _af.key in P.callee_keys(g, c):
                for t_ in (c.func.get("res_targs") or c.targs or []):
                    inst.add(t_)
    generic_elem = TUPLE_TY in inst
    names = [short(c.name) for c in af.calls]
    cont = PR.calls_matching(af, r"^std::collections::hash::set::HashSet::contains$")
    ins = PR.calls_matching(af, r"^std::collections::hash::set::HashSet::insert$")
    okset = len(cont) == 1 and len(ins) == 1
    # `match self.values.get(v) { Some(_) => false, None => { insert(v.clone()); true } }`: the membership test spelled with get()
    gets = PR.calls_matching(af, r"^std::collections::hash::set::HashSet::get$")
    if not cont and len(gets) == 1 and len(ins) == 1:
        gg = PR.discr_guard(af, gets[0], "Some")
        arg_ok = all(any(o.kind == "arg" and o.arg == 2 for o in F.origins(af, c.args[1], depth=8)) for c in gets + ins)
        t2 = (ins[0].func.get("res_targs") or ins[0].targs)[:1]
        if gg is not None and gg[2] and arg_ok and t2 == [TUPLE_TY]:
            none_ts = gg[2]
            ins_ok = any(af.dominates(nt, ins[0].bb) for nt in none_ts)
            rets = {}
            for i, st_ in af.stmts():
                if st_["k"] == "assign" and st_["pl"]["l"] == 0 and st_["rv"]["k"] == "use" and st_["rv"]["op"]["k"] == "const":
                    arm = "dup" if af.dominates(gg[1], i) else ("new" if any(af.dominates(nt, i) for nt in none_ts) else "?")
                    rets.setdefault(arm, set()).add(st_["rv"]["op"]["v"])
            if ins_ok and rets.get("dup") == {"false"} and rets.get("new") == {"true"} and "?" not in rets:
                R.ok("C08.set", "add", "get(tuple): Some -> false; None -> insert(clone) -> true; set of Vec<Value>", af.loc())
            else:
                R.violation("C08.set", "add|return", "DistinctValues::add (get-then-insert) returns %s / inserts under None: %s (expected false for a "
                            "duplicate, true and an insert for a new tuple)" % ({k: sorted(v) for k, v in rets.items()}, ins_ok), [af.loc()])
            R.assume("tuple equality/hash semantics are those of Value (decided by C16)")
            return
    # every path through add() consults the set of seen tuples, applied to the tuple handed in
    consult = [c.bb for c in cont + ins]
    if consult:
        good, badb = PR.all_paths_hit(af, 0, consult)
        if not good:
            R.violation("C08.set", "add|bypass", "DistinctValues::add can return without consulting the set of all tuples seen so far (e.g. it "
                                                 "remembers only the previous tuple): a tuple that recurs after other tuples is emitted again",
                        [af.loc(badb)])
            R.assume("tuple equality/hash semantics are those of Value (decided by C16)")
            return
        for c in cont + ins:
            if not any(o.kind == "arg" and o.arg == 2 for o in F.origins(af, c.args[1], depth=8)):
                R.violation("C08.set", "add|other-tuple", "%s in DistinctValues::add is not applied to the tuple handed in"
                            % short(c.name).split("::")[-1], [c.loc()])
                R.assume("tuple equality/hash semantics are those of Value (decided by C16)")
                return
    if len(ins) == 1 and not cont:
        # equivalent spelling: `self.values.insert(value.clone())` returns true exactly for a new tuple
        t2 = (ins[0].func.get("res_targs") or ins[0].targs)[:1]
        ret_from_insert = any(o.kind == "call" and o.call is ins[0] for o in F.origins(af, 0, depth=4, through_calls=False))
        if t2 != [TUPLE_TY] and not (t2 and re.fullmatch(r"[A-Z]\w*", t2[0]) and generic_elem):
            R.violation("C08.set", "add|element-type",
                        "the DISTINCT set stores %s instead of the whole value tuple (Vec<Value>): different tuples can collide and a row is dropped"
                        % t2, [af.loc()])
        elif ret_from_insert:
            R.ok("C08.set", "add", "insert(clone) of the whole tuple; returns insert's result", af.loc())
        else:
            R.violation("C08.set", "add|shape", "DistinctValues::add: unrecognised insert-only shape (callees %s)" % names, [af.loc()])
        R.assume("tuple equality/hash semantics are those of Value (decided by C16)")
        return
    if okset:
        t1 = (cont[0].func.get("res_targs") or cont[0].targs)[:1]
        t2 = (ins[0].func.get("res_targs") or ins[0].targs)[:1]
        if (t1 != [TUPLE_TY] or t2 != [TUPLE_TY]) and not (t1 == t2 and t1 and re.fullmatch(r"[A-Z]\w*", t1[0]) and generic_elem):
            R.violation("C08.set", "add|element-type",
                        "the DISTINCT set stores %s instead of the whole value tuple (Vec<Value>): different tuples can collide and a row is dropped"
                        % (t2 or t1), [af.loc()])
            okset = False
    if okset:
        g = PR.bool_guard(af, cont[0])
        if g is None or not PR.dominated_by_edge(af, ins[0].bb, g[0], g[2]):
            R.violation("C08.set", "add|insert-unguarded", "insert is not on the `contains == false` edge", [ins[0].loc()])
        else:
            # returned constants
            rets = {}
            afa = PR.facts(af)
            for i, s in af.stmts():
                if s["k"] == "assign" and s["pl"]["l"] == 0 and s["rv"]["k"] == "use" and s["rv"]["op"]["k"] == "const":
                    known = [val for call, val in afa.call_facts(i) if call is cont[0]]
                    arm = "dup" if known == [True] else ("new" if known == [False] else
                                                        ("dup" if af.dominates(g[1], i) else ("new" if af.dominates(g[2], i) else "?")))
                    rets[arm] = s["rv"]["op"]["v"]
            if "new" not in rets and any(o.kind == "call" and o.call is ins[0] for o in F.origins(af, 0, depth=6, through_calls=False)):
                rets["new"] = "true"      # `.. ; self.values.insert(value.clone())` as the tail: insert returns true for a new element
            # `let is_new = !contains(v); .. ; is_new` - the answer is the negated membership test itself
            if not rets:
                ro = F.origins(af, 0, depth=6, through_calls=False)
                if len(ro) == 1 and ro[0].kind == "unop" and ro[0].extra == "Not" and \
                        any(o.kind == "call" and o.call is cont[0] for o in F.origins(af, ro[0].place, depth=4, through_calls=False)):
                    rets = {"dup": "false", "new": "true"}
                elif len(ro) == 1 and ro[0].kind == "call" and ro[0].call is cont[0]:
                    rets = {"dup": "true", "new": "false"}
            if rets.get("dup") == "false" and rets.get("new") == "true":
                R.ok("C08.set", "add", "contains -> false; otherwise insert(clone) -> true; set of Vec<Value>", af.loc())
            else:
                R.violation("C08.set", "add|return", "DistinctValues::add returns %s (expected false for a duplicate, true for a new tuple)" % rets,
                            [af.loc()])
    elif not (len(cont) == 1 and len(ins) == 1):
        R.violation("C08.set", "add|shape", "DistinctValues::add is not contains-then-insert on a HashSet (callees %s)" % names, [af.loc()])
    R.assume("tuple equality/hash semantics are those of Value (decided by C16)")
