"""Path-sensitive branch facts.

`Facts(fn).at(bb)` is the set of atomic conditions that hold on EVERY path from the function entry to block `bb`:
(atom, value) pairs where an atom is a call result, a field / argument read, a comparison, or the discriminant of a place.
Unlike edge dominance it sees through boolean temporaries (`a && b`, `matches!`, a flag returned by an inlined predicate
function, `let keep = ...; if keep {..}`): the analysis enumerates abstract paths ("worlds": an environment of symbolic
booleans plus the facts assumed so far), follows only feasible edges of switches on known flags and intersects the facts of
all worlds reaching a block.  When the state space exceeds the cap the analysis gives up (`ok == False`) and callers fall
back to plain dominance."""
import re
from .prog import short, place_str, place_fields
from . import flow as F

CAP = 60000
WRAP = ("Ok", "Some", "Continue")
FAIL = ("Err", "None", "Break")


class Facts:
    def __init__(self, fn, cap=CAP, relevant=None):
        self.fn = fn
        self.relevant = relevant      # predicate(atom info): facts about other atoms are not recorded (keeps the state space small)
        self.atoms = {}
        self.ok = True
        self._at = {}
        self._worlds = {}
        self._back = {}        # loop header -> set of fact sets with which a back edge to it is taken (before widening)
        self._cap = cap
        self._call_at = {c.bb: c for c in fn.calls}
        self._run()

    # ---- atoms ---------------------------------------------------------
    def _atom(self, key, **info):
        if key not in self.atoms:
            self.atoms[key] = info
        return key

    def _place_key(self, pl):
        return "place:%d:%s" % (pl["l"], "/".join(e if isinstance(e, str) else (("f%s" % e["f"]) if "f" in e else (("d%s" % e["d"]) if "d" in e else
                                                 "x" + "".join("%s%s" % (k_, e[k_]) for k_ in sorted(e) if not isinstance(e[k_], (dict, list))))) for e in pl["p"]))

    def _canon_place(self, pl):
        """follow single-definition copies / borrows of an unprojected local back to the place it stands for"""
        fn = self.fn
        for _ in range(6):
            if pl["p"] and not all(e == "*" for e in pl["p"]):
                return pl
            if 1 <= pl["l"] <= fn.arg_count:
                return {"l": pl["l"], "p": [e for e in pl["p"] if e != "*"]}
            defs = F._assign_defs(fn).get(pl["l"], [])
            if len(defs) != 1 or F._call_defs(fn).get(pl["l"]):
                return pl
            rv = defs[0][1]["rv"]
            if rv["k"] == "use" and rv["op"]["k"] in ("copy", "move"):
                pl = rv["op"]["pl"]
            elif rv["k"] in ("ref", "copy_for_deref"):
                pl = rv["pl"]
            else:
                return pl
        return pl

    def _through_tuple(self, pl):
        """`(a, b).0` read back as `a`: a place that projects field i out of a local built as a tuple aggregate"""
        fn = self.fn
        flds = [e for e in pl["p"] if isinstance(e, dict) and "f" in e]
        if len(flds) != 1 or len(pl["p"]) != 1:
            return pl
        defs = F._assign_defs(fn).get(pl["l"], [])
        if len(defs) == 1 and defs[0][1]["rv"]["k"] == "aggr" and defs[0][1]["rv"].get("ak") == "tuple":
            ops = defs[0][1]["rv"]["ops"]
            i = flds[0]["f"]
            if i < len(ops) and ops[i]["k"] in ("copy", "move"):
                return ops[i]["pl"]
        return pl

    def _value_of_operand(self, op, env):
        """structured value (variant / wrap / fail / const) of an operand, unwrapping `(x as Some).0`-style payload reads"""
        if op["k"] == "const":
            if op.get("v") in ("true", "false"):
                return ("const", op["v"] == "true")
            return None
        if op["k"] not in ("copy", "move"):
            return None
        pl = op["pl"]
        v = env.get(pl["l"])
        if v is None:
            return None
        if not pl["p"]:
            return v
        proj = [e for e in pl["p"] if isinstance(e, dict)]
        if len(proj) == 2 and len(proj) == len(pl["p"]) and "d" in proj[0] and proj[0]["d"] in WRAP and "f" in proj[1] and v[0] == "wrap":
            return v[1]
        return None

    def _sym_of_operand(self, op, env):
        if op["k"] == "const":
            if op.get("v") in ("true", "false"):
                return ("const", op["v"] == "true")
            return None
        pl = op["pl"]
        if not pl["p"] and pl["l"] in env:
            return env[pl["l"]]
        if pl["p"] and pl["l"] in env:
            v0 = self._value_of_operand(op, env)
            if v0 is not None and v0[0] in ("const", "atom"):
                return v0
        cp = self._canon_place(self._through_tuple(pl))
        pk = self._place_key(cp)
        if pk not in self.atoms:
            # a payload read out of a call's result (`f(..)? == true`, `if let Some(b) = g() { if b ..`) is a fact about that call
            payload_of = self._discr_call(cp) if any(isinstance(e, dict) and "d" in e for e in cp["p"]) else None
            self._atom(pk, kind="place", place=cp, text=place_str(self.fn, cp), fields=place_fields(cp), call=payload_of)
        return ("atom", pk, True)

    # ---- transfer ------------------------------------------------------
    def _refresh(self, b, facts):
        """facts that talk about the previous value of something block b recomputes (the call in b, locals assigned in b) are dropped"""
        if not facts:
            return facts
        fn = self.fn
        t = fn.blocks[b]["term"]
        dead_calls = set()
        dead_roots = set()
        if t["k"] == "call":
            dead_calls.add(b)
            if t.get("dest") is not None and not t["dest"]["p"]:
                dead_roots.add(t["dest"]["l"])
        for s in fn.blocks[b]["stmts"]:
            if s["k"] == "assign" and not s["pl"]["p"]:
                dead_roots.add(s["pl"]["l"])
        out = set()
        for (k, v) in facts:
            a = self.atoms.get(k, {})
            kind = a.get("kind")
            if kind == "call" and a.get("bb") in dead_calls:
                continue
            if kind == "discr" and a.get("call") is not None and a["call"].bb in dead_calls:
                continue
            if kind in ("place", "discr") and a.get("place") is not None and a["place"]["l"] in dead_roots and not (1 <= a["place"]["l"] <= fn.arg_count):
                continue
            if kind == "binop" and a.get("bb") == b:
                continue
            out.add((k, v))
        return frozenset(out) if len(out) != len(facts) else facts

    def _step(self, b, env):
        fn = self.fn
        env = dict(env)
        for idx, s in enumerate(fn.blocks[b]["stmts"]):
            if s["k"] != "assign" or s["pl"]["p"]:
                continue
            l = s["pl"]["l"]
            rv = s["rv"]
            k = rv["k"]
            if fn.locals[l]["ty"] != "bool":
                # enum-valued locals: remember which variant was just built (a bool flag turned into a two-variant enum, an outcome
                # enum returned by an inlined helper) so that a later `match` on it follows only the feasible arm
                if k == "aggr" and rv.get("ak") == "adt" and rv.get("variant") and (rv.get("adt") or "").startswith("sqlgrep::"):
                    env[l] = ("variant", rv["variant"])
                elif k == "aggr" and rv.get("ak") == "adt" and rv.get("variant") in WRAP and len(rv["ops"]) == 1 and \
                        (rv.get("adt") or "").startswith("core::"):
                    inner = self._value_of_operand(rv["ops"][0], env)
                    env[l] = ("wrap", inner)
                elif k == "aggr" and rv.get("ak") == "adt" and rv.get("variant") in FAIL and (rv.get("adt") or "").startswith("core::"):
                    env[l] = ("fail",)
                elif k == "use" and rv["op"]["k"] in ("copy", "move"):
                    v0 = self._value_of_operand(rv["op"], env)
                    if v0 is not None and v0[0] in ("variant", "wrap", "fail"):
                        env[l] = v0
                    else:
                        env.pop(l, None)
                elif k in ("ref", "copy_for_deref") and not rv["pl"]["p"] and env.get(rv["pl"]["l"], (None,))[0] in ("variant", "wrap", "fail"):
                    # `&mut filter` handed to as_mut() / as_ref(): the reference stands for the value it points to
                    env[l] = env[rv["pl"]["l"]]
                elif l in env:
                    env.pop(l, None)
                continue
            if k == "use":
                v = self._sym_of_operand(rv["op"], env)
                if v is None:
                    env.pop(l, None)
                else:
                    env[l] = v
            elif k == "unop" and rv["op"] == "Not":
                v = self._sym_of_operand(rv["o"], env)
                if v is None:
                    env.pop(l, None)
                elif v[0] == "const":
                    env[l] = ("const", not v[1])
                else:
                    env[l] = ("atom", v[1], not v[2])
            elif k == "binop":
                key = self._atom("binop@%d:%d" % (b, idx), kind="binop", op=rv["op"], l=rv["l"], r=rv["r"], bb=b, line=s["line"])
                env[l] = ("atom", key, True)
            else:
                key = self._atom("def@%d:%d" % (b, idx), kind="other", bb=b, line=s["line"])
                env[l] = ("atom", key, True)
        t = fn.blocks[b]["term"]
        if t["k"] == "call" and t.get("dest") is not None and not t["dest"]["p"] and fn.locals[t["dest"]["l"]]["ty"] != "bool":
            nm = short(t["func"].get("res_path") or t["func"].get("path") or "")
            dl = t["dest"]["l"]
            if nm.endswith("Try>::branch") and t["args"]:
                v0 = self._value_of_operand(t["args"][0], env)
                if v0 is not None and v0[0] in ("wrap", "fail"):
                    env[dl] = v0
                else:
                    env.pop(dl, None)
                return env
            if nm.endswith("::from_residual"):
                env[dl] = ("fail",)
                return env
            if F.TRANSPARENT.search(nm) and t["args"] and not nm.endswith("Option::take"):
                # ok_or / map_err / as_ref / cloned ...: Some(x) stays a success carrying x, None / Err stays a failure
                v0 = self._value_of_operand(t["args"][0], env)
                if v0 is not None and v0[0] in ("wrap", "fail", "variant") and not re.search(r"::(map|and_then|filter)$", nm):
                    env[dl] = v0
                    return env
        if t["k"] == "call" and t.get("dest") is not None and not t["dest"]["p"]:
            dl = t["dest"]["l"]
            if fn.locals[dl]["ty"] == "bool":
                c = self._call_at.get(b)
                key = self._atom("call@%d" % b, kind="call", call=c, name=short(c.name) if c else "?", bb=b)
                env[dl] = ("atom", key, True)
            else:
                env.pop(dl, None)
        return env

    def _edges(self, b, env, facts):
        """feasible (successor, env, facts) triples"""
        fn = self.fn
        t = fn.blocks[b]["term"]
        succs = fn.succs(b)
        if t["k"] != "switch":
            return [(y, env, facts) for y in succs]
        d = t["discr"]
        out = []
        info = F.switch_info(fn, b)
        if d.get("ty") == "bool" and d["k"] in ("copy", "move"):
            v = env.get(d["pl"]["l"]) if not d["pl"]["p"] else self._sym_of_operand(d, env)
            if v is None:
                key = self._atom("local:%d" % d["pl"]["l"], kind="local", local=d["pl"]["l"])
                v = ("atom", key, True)
            zero = [bb for val, bb in t["targets"] if val == "0"]
            tt, ft = t["otherwise"], (zero[0] if zero else None)
            if v[0] == "const":
                tgt = tt if v[1] else ft
                return [(tgt, env, facts)] if tgt is not None and tgt in succs else []
            _, key, pos = v
            rel = self.relevant is None or self.relevant(self.atoms.get(key, {}))
            for tgt, val in ((tt, True), (ft, False)):
                if tgt is None or tgt not in succs:
                    continue
                fact = (key, val == pos)
                if (key, not fact[1]) in facts:
                    continue
                out.append((tgt, env, (facts | {fact}) if rel else facts))
            return out
        if info and info[0] == "discr":
            dpl = info[1]["pl"]
            # through `&x` / copies of an unprojected local whose variant is known on this path
            root = dpl
            for _ in range(4):
                if root["p"] and not all(e == "*" for e in root["p"]):
                    break
                known = env.get(root["l"])
                if known is not None and known[0] in ("wrap", "fail"):
                    names_ = {dv: n for dv, n in info[1].get("variants", [])}
                    want = WRAP if known[0] == "wrap" else FAIL
                    tg = [tgt for lab, tgt in info[2].items() if lab != "otherwise" and names_.get(lab) in want and tgt in succs]
                    if tg:
                        return [(tg[0], env, facts)]
                    listed_ = [names_.get(l2) for l2 in info[2] if l2 != "otherwise"]
                    if info[2]["otherwise"] in succs and any(n_ in want and n_ not in listed_ for n_ in names_.values()):
                        return [(info[2]["otherwise"], env, facts)]
                    break
                if known is not None and known[0] == "variant":
                    names_ = {dv: n for dv, n in info[1].get("variants", [])}
                    for lab, tgt in info[2].items():
                        if lab != "otherwise" and names_.get(lab) == known[1] and tgt in succs:
                            return [(tgt, env, facts)]
                    listed_ = [names_.get(l2) for l2 in info[2] if l2 != "otherwise"]
                    if known[1] not in listed_ and info[2]["otherwise"] in succs:
                        return [(info[2]["otherwise"], env, facts)]
                    break
                defs = F._assign_defs(fn).get(root["l"], [])
                if len(defs) == 1 and not F._call_defs(fn).get(root["l"]) and defs[0][1]["rv"]["k"] in ("ref", "copy_for_deref", "use"):
                    rv0 = defs[0][1]["rv"]
                    nxt = rv0["pl"] if rv0["k"] != "use" else (rv0["op"]["pl"] if rv0["op"]["k"] in ("copy", "move") else None)
                    if nxt is None:
                        break
                    root = nxt
                    continue
                break
            cp = self._canon_place(info[1]["pl"])
            key = self._atom("discr:" + self._place_key(cp)[6:], kind="discr", place=cp, text=place_str(fn, cp), adt=info[1].get("adt"),
                             call=self._discr_call(info[1]["pl"]))
            names = {dv: n for dv, n in info[1].get("variants", [])}
            listed = []
            if self.relevant is not None and not self.relevant(self.atoms.get(key, {})):
                return [(y, env, facts) for y in succs]
            for lab, tgt in info[2].items():
                if lab == "otherwise" or tgt not in succs:
                    continue
                vn = names.get(lab, lab)
                listed.append(vn)
                known = [v for (k2, v) in facts if k2 == key and isinstance(v, str) and not v.startswith("!")]
                if known and vn not in known:
                    continue
                out.append((tgt, env, facts | {(key, vn)}))
            ot = info[2]["otherwise"]
            if ot in succs:
                rest = [n for n in names.values() if n not in listed]
                if len(rest) == 1:
                    out.append((ot, env, facts | {(key, rest[0])}))
                else:
                    out.append((ot, env, facts | {(key, "!" + ",".join(sorted(listed)))}))
            return out
        return [(y, env, facts) for y in succs]

    def _discr_call(self, pl):
        """the call whose result (possibly through Try::branch / as_ref ..) this discriminant is read from"""
        for o in F.origins(self.fn, pl, depth=8):
            if o.kind == "call" and not F.TRANSPARENT.search(short(o.call.name)):
                return o.call
        for o in F.origins(self.fn, pl, depth=8):
            if o.kind == "call":
                return o.call
        return None

    def _loop_info(self):
        fn = self.fn
        loops = fn.loops()
        assigned = {}
        for h, body in loops.items():
            a = set()
            for b in body:
                for st in fn.blocks[b]["stmts"]:
                    if st["k"] == "assign":
                        a.add(st["pl"]["l"])
                t = fn.blocks[b]["term"]
                if t["k"] == "call" and t.get("dest") is not None:
                    a.add(t["dest"]["l"])
            assigned[h] = a
        return loops, assigned

    def _liveness(self):
        """live-in sets of bool locals per block (so that the symbolic value of a dead temporary does not keep worlds apart)"""
        fn = self.fn
        bools = set(range(len(fn.locals)))    # all locals: env also holds enum variants and Ok/Some wrappers
        use, deff = {}, {}

        def reads(o, acc):
            if isinstance(o, dict):
                if "l" in o and isinstance(o["l"], int) and "p" in o:
                    if o["l"] in bools:
                        acc.add(o["l"])
                for v in o.values():
                    reads(v, acc)
            elif isinstance(o, list):
                for v in o:
                    reads(v, acc)
        for b in fn.reach:
            u, d = set(), set()
            for st in fn.blocks[b]["stmts"]:
                if st["k"] != "assign":
                    continue
                r = set()
                reads(st["rv"], r)
                if st["pl"]["p"]:
                    reads(st["pl"], r)
                u |= (r - d)
                if not st["pl"]["p"] and st["pl"]["l"] in bools:
                    d.add(st["pl"]["l"])
            t = fn.blocks[b]["term"]
            r = set()
            for k in ("discr", "args", "cond", "ops", "pl"):
                if k in t:
                    reads(t[k], r)
            u |= (r - d)
            if t["k"] == "call" and t.get("dest") is not None and not t["dest"]["p"] and t["dest"]["l"] in bools:
                d.add(t["dest"]["l"])
            use[b], deff[b] = u, d
        live_in = {b: set(use[b]) for b in fn.reach}
        changed = True
        while changed:
            changed = False
            for b in fn.reach:
                out = set()
                for y in fn.succs(b):
                    out |= live_in.get(y, set())
                new = use[b] | (out - deff[b])
                if new != live_in[b]:
                    live_in[b] = new
                    changed = True
        return live_in

    def _run(self):
        """worklist over abstract worlds.  At a loop back edge the world is widened to `what held when the loop was entered`
        (facts established inside the body are re-established by the next pass; flags assigned in the body become unknown), so a
        loop is analysed as: first iteration + one generic iteration."""
        fn = self.fn
        loops, assigned = self._loop_info()
        live_in = self._liveness()
        seen = set()
        work = [(0, (), frozenset(), ())]
        n = 0
        while work:
            b, envt, facts, entries = work.pop()
            st = (b, envt, facts, entries)
            if st in seen:
                continue
            seen.add(st)
            n += 1
            if n > self._cap:
                self.ok = False
                return
            cur = self._at.get(b)
            self._at[b] = set(facts) if cur is None else (cur & facts)
            self._worlds.setdefault(b, set()).add(facts)
            env = self._step(b, dict(envt))
            facts = self._refresh(b, facts)
            for (y, env2, facts2) in self._edges(b, env, facts):
                ent = entries
                f2 = frozenset(facts2)
                lv = live_in.get(y, ())
                e2 = tuple(sorted((l, v) for l, v in env2.items() if l in lv))
                if y in loops:
                    if b in loops[y]:
                        # back edge: widen to the loop-entry state
                        self._back.setdefault(y, set()).add(frozenset(facts2))
                        got = [x for x in entries if x[0] == y]
                        if got:
                            f2 = got[0][1]
                            e2 = tuple((l, v) for (l, v) in got[0][2] if l not in assigned[y])
                        else:
                            f2, e2 = frozenset(), ()
                    else:
                        ent = tuple(x for x in entries if x[0] != y) + ((y, f2, e2),)
                work.append((y, e2, f2, ent))

    # ---- queries -------------------------------------------------------
    def at(self, bb):
        """facts on every path to bb (empty set when unknown)"""
        if not self.ok:
            return set()
        return self._at.get(bb, set())

    def backedge_worlds(self, header):
        """fact sets with which control returns to the given loop header from inside the loop (one per distinct abstract path)"""
        if not self.ok:
            return None
        return list(self._back.get(header, []))

    def worlds_at(self, bb):
        """the distinct fact sets with which bb is reached (for disjunctive queries: `every path satisfies A or B`)"""
        if not self.ok:
            return None
        return list(self._worlds.get(bb, []))

    def every_path(self, bb, pred):
        """True if on every path to bb at least one fact satisfies pred(atom_info, value)"""
        ws = self.worlds_at(bb)
        if ws is None or not ws:
            return False
        return all(any(pred(self.atoms.get(k, {}), v) for (k, v) in w) for w in ws)

    def describe(self, fact):
        key, val = fact
        a = self.atoms.get(key, {})
        k = a.get("kind")
        if k == "call":
            return "%s() == %s" % (a["name"].split("::")[-1], val)
        if k == "place":
            return "%s == %s" % (a["text"], val)
        if k == "discr":
            c = a.get("call")
            return "%s is %s" % ((short(c.name).split("::")[-1] + "()") if c else a["text"], val)
        if k == "binop":
            return "%s@%s == %s" % (a["op"], a["line"], val)
        return "%s == %s" % (key, val)

    def call_facts(self, bb):
        """[(Call, value)] for facts at bb about call results (bool calls: True/False; Option/Result calls: variant name)"""
        out = []
        for key, val in self.at(bb):
            a = self.atoms.get(key, {})
            if a.get("kind") == "call" and a.get("call") is not None:
                out.append((a["call"], val))
            elif a.get("kind") == "discr" and a.get("call") is not None:
                out.append((a["call"], val))
            elif a.get("kind") == "place" and a.get("call") is not None and isinstance(val, bool):
                out.append((a["call"], val))
        return out

    def place_facts(self, bb):
        """[(field names of the place, root local, value)] for facts about plain reads (fields, arguments)"""
        out = []
        for key, val in self.at(bb):
            a = self.atoms.get(key, {})
            if a.get("kind") == "place" and a.get("call") is None:
                out.append((a["fields"], a["place"]["l"], val))
            elif a.get("kind") == "discr" and a.get("call") is None:
                out.append((place_fields(a["place"]), a["place"]["l"], val))
        return out

    def binop_facts(self, bb):
        out = []
        for key, val in self.at(bb):
            a = self.atoms.get(key, {})
            if a.get("kind") == "binop":
                out.append((a, val))
        return out
