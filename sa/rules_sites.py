"""C09 / C14 (and the arithmetic clauses of C01, C03): site inventory with mechanical and
tabled discharges.  Every panic-capable, wrapping or truncating construct reachable from
the root set is one obligation."""
import json, os, re
from collections import Counter, defaultdict
from .core import VERIF, EngineError, AnchorMissing
from .prog import short, place_fields
from . import sites as S
from . import flow as F
from . import pathrules as PR

ROOTS = {
    "EXEC": [
        "sqlgrep::execution::execution_engine::ExecutionEngine::execute",
        "sqlgrep::execution::execution_engine::ExecutionEngine::execute_joined_table",
        "sqlgrep::execution::execution_engine::ExecutionEngine::with_executed_joined_table",
        "sqlgrep::executor::FileExecutor::execute",
        "sqlgrep::executor::FollowFileExecutor::new",
        "sqlgrep::executor::FollowFileExecutor::execute",
        "sqlgrep::executor::OutputPrinter::print",
        "sqlgrep::data_model::TableDefinition::extract",
        "sqlgrep::model::Value::json_value",
        "<sqlgrep::model::Value as core::fmt::Display>::fmt",
        "<sqlgrep::helpers::FollowFileIterator as core::iter::traits::iterator::Iterator>::next",
    ],
    "PARSE": [
        "sqlgrep::parsing::parse",
        "sqlgrep::parsing::parse_into_tree",
        "sqlgrep::parsing::tokenizer::TokenLocation::extract_near",
        "sqlgrep::data_model::TableDefinition::new",
        "sqlgrep::parsing::CommonParserError::location",
        "<sqlgrep::parsing::CommonParserError as core::fmt::Display>::fmt",
        "<sqlgrep::parsing::tokenizer::ParserErrorType as core::fmt::Display>::fmt",
        "<sqlgrep::parsing::parser_tree_converter::ConvertParserTreeErrorType as core::fmt::Display>::fmt",
    ],
}

_TABLE = None


def table():
    global _TABLE
    if _TABLE is None:
        with open(os.path.join(VERIF, "tables", "discharged.json")) as fh:
            _TABLE = json.load(fh)
    return _TABLE


def roots(R, name):
    fs = []
    for r in ROOTS[name]:
        fs.append(R.need_fn(r))
    return fs


# ---------------------------------------------------------------------------
# mechanical discharges

def _const_int(op):
    if op["k"] == "const" and "int" in op:
        return op["int"]
    return None


def mech_const_divisor(site):
    if site.kind == "divzero":
        # the assert's operand is the dividend; the divisor is the operand of the `Eq(divisor, 0)` that feeds the condition
        for o in F.origins(site.fn, site.term["cond"], depth=3, through_calls=False):
            if o.kind == "binop" and o.extra == "Eq":
                l, r = _const_int(o.place["l"]), _const_int(o.place["r"])
                if l is not None and r is not None and (l != 0 or r != 0) and (l == 0 or r == 0):
                    return "const-divisor (non-zero constant)"
    if site.kind == "overflow" and site.detail.split(" ")[0] in ("Div", "Rem"):
        d = _const_int(site.extra["ops"][1])
        if d is not None and d not in (0, -1):
            return "const-divisor (constant != -1: MIN / -1 impossible)"
    return None


def mech_counter(site):
    """unsigned/isize `x + c` / `x - c` guarded... only the Add of a small constant to an unsigned 64-bit
    value that does not derive from a cast of data: bounded by the number of iterations / bytes"""
    if site.kind != "overflow":
        return None
    op, tys = site.detail.split(" ")[:2]
    if op != "Add":
        return None
    t = tys.split(",")[0]
    if t not in ("usize", "u64", "isize"):      # (isize: token / element indexes; user data is i64)
        return None
    ops = site.extra["ops"]
    consts = [_const_int(o) for o in ops]
    if not any(c is not None and 0 <= c <= 4096 for c in consts):
        return None
    other = ops[0] if consts[0] is None else ops[1]
    if _const_int(other) is not None:
        return "constant arithmetic"
    for o in F.origins(site.fn, other, depth=8):
        if o.kind == "cast":
            return None
    return "counter (unsigned 64-bit + small constant, no data cast in provenance: bounded by iterations/bytes < 2^64)"


def mech_widened(site):
    """64-bit `x + c` / `x - c` / `x * c` where x was widened from a narrower integer type (`i64::from(u32)`, `n as i64` from <= 32 bits)
    and |c| <= 2^16: the result is below 2^49 in magnitude"""
    if site.kind != "overflow":
        return None
    parts = site.detail.split(" ")
    if len(parts) < 2 or parts[0] not in ("Add", "Sub", "Mul"):
        return None
    t = parts[1].split(",")[0]
    if t not in ("i64", "u64", "usize", "isize", "i128", "u128"):
        return None
    ops = site.extra["ops"]
    consts = [_const_int(o) for o in ops]
    if sum(c is not None for c in consts) != 1:
        return None
    c = [x for x in consts if x is not None][0]
    if abs(c) > 1 << 16:
        return None
    other = ops[0] if consts[0] is None else ops[1]
    if t.startswith("u") and parts[0] == "Sub":
        return None
    NARROW = ("u8", "u16", "u32", "i8", "i16", "i32")
    os_ = F.origins(site.fn, other, depth=6, through_calls=False)
    if not os_:
        return None
    for o in os_:
        if o.kind == "cast" and o.extra.split("->")[0] in NARROW:
            continue
        if o.kind == "call" and (re.search(r"^<(i64|u64|usize|isize|i128|u128) as core::convert::From<(%s)>>::from$" % "|".join(NARROW), short(o.call.name)) or
                                 re.search(r"^core::convert::num::<impl core::convert::From<(%s)> for (i64|u64|usize|isize|i128|u128)>::from$" % "|".join(NARROW),
                                           short(o.call.name))):
            continue
        return None
    return "widened narrow integer %s small constant (|result| < 2^49)" % {"Add": "+", "Sub": "-", "Mul": "*"}[parts[0]]


def mech_bounded_capacity(site):
    """`s.repeat(n)` / `with_capacity(n)` / `vec![x; n]` behind a size test: on every path to the site a comparison established that a
    checked product (or the count itself) involving this very `n` does not exceed a constant <= 2^32"""
    if site.kind != "api:capacity" or site.call is None or len(site.call.args) < 1:
        return None
    fn = site.fn
    cnt = site.call.args[-1]
    if cnt.get("k") not in ("copy", "move"):
        return None
    cid = _op_ident(fn, cnt)
    if cid is None:
        return None
    try:
        fa = PR.facts(fn)
        ws = fa.worlds_at(site.bb)
    except Exception:
        return None
    if not ws:
        return None

    def involves_count(op, depth=4):
        if op.get("k") not in ("copy", "move") or depth == 0:
            return False
        if _op_ident(fn, op) == cid:
            return True
        for o in F.origins(fn, op, depth=8):
            if o.kind == "call" and re.search(r"::(checked_mul|saturating_mul|checked_add|saturating_add)$", short(o.call.name)):
                if any(a.get("k") in ("copy", "move") and (_op_ident(fn, a) == cid or involves_count(a, depth - 1)) for a in o.call.args):
                    return True
        return False

    bound = None
    for w in ws:
        found = None
        for key_, val in w:
            a = fa.atoms.get(key_, {})
            if a.get("kind") != "binop" or a.get("op") not in ("Gt", "Ge", "Lt", "Le"):
                continue
            l, r = a["l"], a["r"]
            cl, cr = _const_int(l), _const_int(r)
            if (cl is None) == (cr is None):
                continue
            var, cv = (l, cr) if cr is not None else (r, cl)
            op = a["op"] if cr is not None else {"Gt": "Lt", "Lt": "Gt", "Ge": "Le", "Le": "Ge"}[a["op"]]
            # normalised: var OP const
            upper = (op in ("Gt", "Ge") and val is False) or (op in ("Lt", "Le") and val is True)
            if upper and cv is not None and 0 <= cv <= (1 << 32) and involves_count(var):
                found = cv if found is None else min(found, cv)
        if found is None:
            return None
        bound = found if bound is None else max(bound, found)
    return "size bounded on every path: a checked product / count involving the capacity argument was compared against the constant %d" % bound


def _field_of_deref_arg(fn, pl):
    """(adt, field name) when the place is a field of a struct reached through an argument (`state.depth`, `self.depth`)"""
    fl = [e for e in pl["p"] if isinstance(e, dict) and "f" in e]
    if len(fl) != 1 or not fl[0].get("adt") or not (1 <= pl["l"] <= fn.arg_count):
        return None
    return (fl[0]["adt"], fl[0]["n"])


def mech_balanced_counter(site):
    """`state.depth -= c` that undoes a dominating `state.depth += c` of the same function (an enter / leave pair around a recursive call):
    the field is written nowhere else in the crate except where the struct is built, and no other decrement lies between the pair, so
    by induction over the call depth the counter never drops below its value at function entry - the subtraction cannot underflow"""
    if site.kind != "overflow" or not site.detail.startswith("Sub "):
        return None
    fn = site.fn
    P = fn.prog
    ops = site.extra["ops"]
    c = _const_int(ops[1]) if len(ops) > 1 else None
    if c is None or c < 0 or ops[0].get("k") not in ("copy", "move"):
        return None
    sp = F.source_place(fn, ops[0])
    fld = _field_of_deref_arg(fn, sp) if sp else None
    if fld is None:
        return None

    def updates(g):
        """(block, 'Add'|'Sub', const) of `field = field +- const` statements of g on this struct field"""
        out = []
        for i, st in g.stmts():
            if st["k"] == "assign" and st["rv"]["k"] == "binop" and st["rv"]["op"].split("With")[0] in ("Add", "Sub"):
                l_, r_ = st["rv"]["l"], st["rv"]["r"]
                if l_.get("k") in ("copy", "move") and _const_int(r_) is not None:
                    sp2 = F.source_place(g, l_)
                    if sp2 and _field_of_deref_arg(g, sp2) == fld:
                        out.append((i, st["rv"]["op"].split("With")[0], _const_int(r_)))
        return out
    mine = updates(fn)
    incs = [(i, k) for i, op_, k in mine if op_ == "Add" and k >= c and i != site.bb and fn.dominates(i, site.bb)]
    if not incs:
        return None
    a_bb = max(incs, key=lambda x: len(fn.reachable_from(0)) - len(fn.reachable_from(x[0])))[0]
    between = fn.reachable_from(a_bb)
    for i, op_, k in mine:
        if op_ == "Sub" and i != site.bb and i in between and site.bb in fn.reachable_from(i):
            return None
    # who else writes the field
    for g in P.fns.values():
        if g.key == P.fns.get(fn.key, fn).key or g.derived:
            continue
        for i, st in g.stmts():
            if st["k"] != "assign":
                continue
            fl = [e for e in st["pl"]["p"] if isinstance(e, dict) and "f" in e]
            if fl and fl[-1].get("adt") == fld[0] and fl[-1].get("n") == fld[1]:
                return None
            if st["rv"]["k"] in ("ref", "rawptr") and st["rv"].get("bk") in ("mut", "Mut"):
                fl = [e for e in st["rv"]["pl"]["p"] if isinstance(e, dict) and "f" in e]
                if fl and fl[-1].get("adt") == fld[0] and fl[-1].get("n") == fld[1]:
                    return None
    return "leave of an enter / leave pair on %s.%s (dominating `+= %d`, no other decrement in between, field written nowhere else): " \
           "the counter never drops below its value at function entry" % (fld[0].split("::")[-1], fld[1], c)


TOTAL_CONSUMERS = re.compile(
    r"^core::slice::<impl \[T\]>::(get|get_mut|first|last)$|^alloc::vec::Vec::(get|get_mut)$|"
    r"^core::num::<impl (usize|u64|isize|i64)>::(saturating_add|saturating_sub|saturating_mul|checked_add|checked_sub|checked_mul|checked_div|"
    r"wrapping_add|wrapping_sub|min|max|clamp)$|^core::cmp::(Ord::)?(min|max)$|^core::cmp::Ord::(min|max|clamp)$|"
    r"<(usize|u64|isize|i64) as core::cmp::(Ord|PartialOrd|PartialEq)>::\w+$|^core::option::Option::(map|and_then|unwrap_or)$")


def mech_total_consumers(site):
    """a sign-changing / widening index cast (isize <-> usize, i64 -> usize ..) whose result is only ever compared, clamped, or handed to a
    checked accessor (`slice.get(i)`, `saturating_add`, `checked_*`): a wrapped value cannot panic or address an element - it is at worst
    `None` from `get`.  (A cast whose result is indexed with, or put into a value, stays an open site.)"""
    if site.kind != "cast" or site.stmt is None or site.stmt["pl"]["p"]:
        return None
    rv = site.stmt["rv"]
    if not (rv["from"] in ("isize", "usize", "i64", "u64") and rv["to"] in ("isize", "usize", "i64", "u64")):
        return None
    fn = site.fn
    work, seen, uses = [site.stmt["pl"]["l"]], set(), 0
    while work:
        l = work.pop()
        if l in seen:
            continue
        seen.add(l)
        for i, st in fn.stmts():
            if st["k"] != "assign":
                continue
            ops = [o for o in _stmt_operands(st) if o.get("k") in ("copy", "move") and o["pl"]["l"] == l]
            if st["rv"]["k"] in ("ref", "copy_for_deref") and st["rv"]["pl"]["l"] == l:
                ops = [st["rv"]["pl"]]
            if not ops:
                continue
            uses += 1
            k = st["rv"]["k"]
            if k in ("use", "ref", "copy_for_deref") and not st["pl"]["p"]:
                work.append(st["pl"]["l"])
            elif k == "binop" and st["rv"]["op"] in ("Eq", "Ne", "Lt", "Le", "Gt", "Ge"):
                continue
            else:
                return None
        for c in fn.calls:
            if any(a.get("k") in ("copy", "move") and a["pl"]["l"] == l for a in c.args):
                uses += 1
                if not TOTAL_CONSUMERS.search(short(c.name)):
                    return None
                if re.search(r"saturating_|checked_|wrapping_|::(min|max|clamp)$", short(c.name)) and c.dest is not None and not c.dest["p"]:
                    work.append(c.dest["l"])
        for b in fn.reach:
            t = fn.blocks[b]["term"]
            if t["k"] == "switch" and t["discr"].get("k") in ("copy", "move") and t["discr"]["pl"]["l"] == l:
                uses += 1
    if uses == 0:
        return None
    return "index cast consumed only by comparisons / saturating arithmetic / checked accessors (get): a wrapped value yields None, never a panic"


def _stmt_operands(st):
    rv = st["rv"]
    k = rv["k"]
    if k in ("use", "cast", "repeat"):
        return [rv["op"]]
    if k == "binop":
        return [rv["l"], rv["r"]]
    if k == "unop":
        return [rv["o"]]
    if k == "aggr":
        return [o for o in rv["ops"] if isinstance(o, dict)]
    return []


def _op_ident(fn, op):
    """identity of an operand for comparing `a - b` with a guard `a >= b`: the local it is a plain copy of, or its constant"""
    if op.get("k") == "const":
        return ("const", op.get("int"))
    if op.get("k") not in ("copy", "move"):
        return None
    pl = op["pl"]
    for _ in range(5):
        if pl["p"]:
            sp = F.source_place(fn, {"k": "copy", "pl": pl})
            return ("place", sp["l"], tuple(e if isinstance(e, str) else e.get("f", e.get("d")) for e in sp["p"])) if sp else None
        defs = F._assign_defs(fn).get(pl["l"], [])
        if len(defs) == 1 and not F._call_defs(fn).get(pl["l"]) and defs[0][1]["rv"]["k"] == "use" and \
                defs[0][1]["rv"]["op"]["k"] in ("copy", "move") and not fn.local_name(pl["l"]):
            pl = defs[0][1]["rv"]["op"]["pl"]
            continue
        if len(defs) == 1 and defs[0][1]["rv"]["k"] in ("ref", "copy_for_deref") and not fn.local_name(pl["l"]):
            pl = defs[0][1]["rv"]["pl"]
            continue
        break
    return ("local", pl["l"], tuple(e if isinstance(e, str) else e.get("f", e.get("d")) for e in pl["p"]))


def mech_guarded_sub(site):
    """unsigned `a - b` on a path where `a >= b` (or `a > b`, `!(a < b)`, `b <= a`, ...) is known for the same two operands"""
    if site.kind != "overflow" or not site.detail.startswith("Sub "):
        return None
    tys = site.detail.split(" ")[1]
    if tys.split(",")[0] not in ("usize", "u64", "u32", "u16", "u8", "u128"):
        return None
    ops = site.extra.get("ops") or []
    if len(ops) != 2:
        return None
    fn = site.fn
    a, b = _op_ident(fn, ops[0]), _op_ident(fn, ops[1])
    if a is None or b is None:
        return None
    try:
        fa = PR.facts(fn)
    except Exception:
        return None
    for at, val in fa.binop_facts(site.bb):
        l, r = _op_ident(fn, at["l"]), _op_ident(fn, at["r"])
        op = at["op"] if val else CMP_NEG.get(at["op"])
        if op is None:
            continue
        if (l, r) == (a, b) and op in ("Ge", "Gt"):
            return "subtraction under the path fact minuend %s subtrahend" % (">=" if op == "Ge" else ">")
        if (l, r) == (b, a) and op in ("Le", "Lt"):
            return "subtraction under the path fact subtrahend %s minuend" % ("<=" if op == "Le" else "<")
    return None


def mech_const_ctor(site):
    if site.kind == "api:chrono-ctor" and site.call is not None and site.call.args:
        v = _const_int(site.call.args[0])
        if v is not None and abs(v) < 2 ** 31:
            return "constant argument within range"
    return None


LEN_CALL = re.compile(r"::(len|count|capacity)$")


def _length_leaves(fn, op, depth=6):
    """True if the operand is a length (result of len()/count()), a small constant, or a sum of such: bounded by isize::MAX"""
    if op["k"] == "const":
        v = op.get("int")
        return v is not None and 0 <= v <= 4096
    if depth == 0 or op["pl"]["p"] and not all(isinstance(e, dict) and "f" in e for e in op["pl"]["p"]):
        return False
    l = op["pl"]["l"]
    cdefs = [c for c in fn.calls if c.dest is not None and c.dest["l"] == l and not c.dest["p"]]
    if cdefs:
        return all(LEN_CALL.search(short(c.name)) for c in cdefs)
    defs = [s_ for i_, s_ in fn.stmts() if s_["k"] == "assign" and s_["pl"]["l"] == l and not s_["pl"]["p"]]
    if len(defs) != 1:
        return False
    rv = defs[0]["rv"]
    if rv["k"] == "use":
        return _length_leaves(fn, rv["op"], depth - 1)
    if rv["k"] == "binop" and rv["op"] in ("Add", "AddWithOverflow"):
        return _length_leaves(fn, rv["l"], depth - 1) and _length_leaves(fn, rv["r"], depth - 1)
    return False


def mech_const_clamp(site):
    """x.clamp(lo, hi) with constant lo <= hi never panics"""
    if site.call is not None and short(site.call.name).endswith("::clamp") and len(site.call.args) == 3:
        vals = []
        for a in site.call.args[1:]:
            if a["k"] != "const":
                return None
            m = re.match(r"^(-?[0-9][0-9_]*(?:\.[0-9_]+)?(?:[eE][+-]?[0-9]+)?)_?(f64|f32|i\d+|u\d+|isize|usize)?$", a.get("v", ""))
            if not m:
                return None
            vals.append(float(m.group(1).replace("_", "")))
        if vals[0] <= vals[1]:
            return "clamp to constant bounds %s <= %s" % (vals[0], vals[1])
    return None


def _leaf_ids(fn, op, depth=10):
    out = set()
    if op.get("k") not in ("copy", "move"):
        return out
    for o in F.origins(fn, op, depth=depth):
        if o.kind == "arg":
            out.add(("arg", o.arg))
        elif o.kind == "place" and o.place is not None:
            out.add(("place", o.place["l"]))
        elif o.kind == "call" and not F.TRANSPARENT.search(short(o.call.name)) and \
                not re.search(r"::(iter|iter_mut|into_iter|enumerate|deref|as_slice|by_ref)$", short(o.call.name)):
            out.add(("call", o.call.bb))
    return out


def mech_full_range(site):
    """`v[..]` (RangeFull) cannot be out of bounds"""
    if site.kind == "api:index" and "core::ops::range::RangeFull" in site.detail:
        return "index with the full range `..`"
    return None


def mech_position_index(site):
    """`v[i]` where i was produced by `v.iter().position(..)` (or rposition) on the same, since unmodified, container: in bounds"""
    if site.kind != "api:index" or site.call is None or len(site.call.args) < 2:
        return None
    fn = site.fn
    idx = site.call.args[1]
    if idx.get("k") not in ("copy", "move"):
        return None
    pos_calls = [o.call for o in F.origins(fn, idx, depth=10)
                 if o.kind == "call" and re.search(r"Iterator>?::(position|rposition)$|::find_position$", short(o.call.name))]
    if not pos_calls:
        return None
    cont = _leaf_ids(fn, site.call.args[0])
    if not cont:
        return None
    for pc in pos_calls:
        if not (_leaf_ids(fn, pc.args[0]) & cont):
            return None
        # no mutable borrow of the container between finding the position and using it
        roots = set(x[1] for x in cont if x[0] in ("place", "arg"))
        after = fn.reachable_from(pc.bb)
        for i, st in fn.stmts():
            if i in after and st["k"] == "assign" and st["rv"]["k"] == "ref" and st["rv"].get("bk") == "mut" and st["rv"]["pl"]["l"] in roots:
                return None
    return "index returned by position() on the same container (in bounds by construction)"


def mech_range_index(site):
    """`v[i]` inside `for i in 0..v.len()` over the same container, with i unmodified: in bounds"""
    if site.kind != "api:index" or site.call is None or len(site.call.args) < 2:
        return None
    fn = site.fn
    idx = site.call.args[1]
    if idx.get("k") not in ("copy", "move") or idx.get("ty") != "usize":
        return None
    os_ = F.origins(fn, idx, depth=10, through_calls=False)
    if getattr(fn, "kind", None) == "Closure" and os_ and all(o.kind == "arg" and o.arg == 2 and not [e for e in (o.place or {}).get("p", []) if isinstance(e, dict)]
                                                            for o in os_):
        # `(0..v.len()).map(|i| .. v[i] ..)`: the closure's item is the range's item; the range is built where the closure is used
        P = fn.prog
        par = P.fns.get(fn.parent_key)
        if par is not None:
            for c0 in par.calls:
                if not re.search(r"Iterator::(map|for_each)$", short(c0.name)) or not c0.args or \
                        not any(fn.key == x or fn.key.endswith(x) or x == fn.raw.get("key") for x in (c0.func.get("closure_args") or [])):
                    continue
                for o in F.origins(par, c0.args[0], depth=10):
                    if o.kind != "aggr" or o.place is None:
                        continue
                    for _, st in F._assign_defs(par).get(o.place["l"], []):
                        rv = st["rv"]
                        if rv["k"] == "aggr" and (rv.get("adt") or "").endswith("ops::range::Range") and len(rv["ops"]) == 2 and \
                                rv["ops"][0].get("k") == "const" and rv["ops"][0].get("int") == 0 and rv["ops"][1].get("k") in ("copy", "move"):
                            his = F.origins(par, rv["ops"][1], depth=8, through_calls=False)
                            lens = [o2.call for o2 in his if o2.kind == "call"]
                            if len(lens) == 1 and short(lens[0].name) == "alloc::vec::Vec::len" and not any(o2.kind in ("binop", "const", "arg") for o2 in his) and \
                                    F.source_fields(par, lens[0].args[0], depth=8)[-1:] == F.source_fields(fn, site.call.args[0], depth=8)[-1:] != [] and \
                                    (lens[0].func.get("res_targs") or lens[0].targs or [None])[0] == (site.call.func.get("res_targs") or site.call.targs or [""])[0]:
                                return "index produced by `0..v.len()` (built where the closure is mapped) over the same field (in bounds by construction)"
        return None
    nxt = [o.call for o in os_ if o.kind == "call" and re.search(r"Iterator for core::ops::range::Range<A>>::next$", short(o.call.name))]
    if len(nxt) != 1 or any(o.kind in ("binop", "unop", "const", "cast", "arg") for o in os_) or \
            any(o.kind == "call" and o.call is not nxt[0] for o in os_):
        return None
    cont = _leaf_ids(fn, site.call.args[0])
    if not cont:
        return None
    # the range the iterator was built from
    rng = None
    for o in F.origins(fn, nxt[0].args[0], depth=10):
        if o.kind == "aggr" and o.place is not None:
            for _, st in F._assign_defs(fn).get(o.place["l"], []):
                if st["rv"]["k"] == "aggr" and (st["rv"].get("adt") or "").endswith("ops::range::Range") and len(st["rv"]["ops"]) == 2:
                    rng = st["rv"]["ops"]
    if rng is None:
        return None
    hi = rng[1]
    if hi.get("k") not in ("copy", "move"):
        return None
    lens = [o.call for o in F.origins(fn, hi, depth=8, through_calls=False) if o.kind == "call"]
    if len(lens) != 1 or not re.search(r"^alloc::vec::Vec::len$|^core::slice::<impl \[T\]>::len$", short(lens[0].name)) or \
            any(o.kind in ("binop", "const", "arg") for o in F.origins(fn, hi, depth=8, through_calls=False)):
        return None
    if not (_leaf_ids(fn, lens[0].args[0]) & cont) or \
            F.source_fields(fn, lens[0].args[0], depth=8) != F.source_fields(fn, site.call.args[0], depth=8):
        return None
    roots = set(x[1] for x in cont if x[0] in ("place", "arg"))
    after = fn.reachable_from(lens[0].bb)
    for i, st in fn.stmts():
        if i in after and st["k"] == "assign" and st["rv"]["k"] == "ref" and st["rv"].get("bk") == "mut" and st["rv"]["pl"]["l"] in roots and \
                not [e for e in st["rv"]["pl"]["p"] if isinstance(e, dict)]:
            return None
    return "index produced by `0..v.len()` over the same container (in bounds by construction)"


def mech_nonempty_vec(site):
    """`v.remove(0)` / `v[0]` on a local vector that was built with at least one element (`vec![x, ..]`, or a `push` that dominates the
    site) and that nothing shrinks anywhere in the function except this site"""
    if site.call is None or not site.call.args:
        return None
    sn = short(site.call.name)
    if site.kind == "api:vec-pos" and re.search(r"^alloc::vec::Vec::(remove|swap_remove)$", sn):
        idx = site.call.args[1] if len(site.call.args) > 1 else None
    elif site.kind == "api:index" and "Vec<T, A> as core::ops::index::Index" in sn:
        idx = site.call.args[1] if len(site.call.args) > 1 else None
    else:
        return None
    if idx is None or idx.get("k") != "const" or idx.get("int") != 0:
        return None
    fn = site.fn

    def root(op):
        pl, n = op.get("pl"), 0
        while pl is not None and n < 8:
            n += 1
            if [e for e in pl["p"] if isinstance(e, dict)]:
                return None
            defs = [st for _, st in F._assign_defs(fn).get(pl["l"], []) if not st["pl"]["p"]]
            if len(defs) == 1 and defs[0]["rv"]["k"] in ("ref", "copy_for_deref", "rawptr"):
                pl = defs[0]["rv"]["pl"]
            elif len(defs) == 1 and defs[0]["rv"]["k"] == "use" and defs[0]["rv"]["op"].get("pl") is not None and fn.local_ty(pl["l"]).startswith("&"):
                pl = defs[0]["rv"]["op"]["pl"]
            else:
                break
        return pl["l"] if pl is not None else None
    L = root(site.call.args[0])
    if L is None or 1 <= L <= fn.arg_count or not fn.local_ty(L).startswith("alloc::vec::Vec<"):
        return None
    grown = False
    for c in fn.calls:
        if c is site.call:
            continue
        n = short(c.name)
        if c.dest is not None and c.dest["l"] == L and not c.dest["p"]:
            if re.search(r"slice::<impl \[T\]>::into_vec$|^alloc::boxed::box_assume_init_into_vec_unsafe$", n) and c.args and re.search(r"\[[^;\]]+; [1-9]\d*\]", c.args[0].get("ty") or "") and \
                    fn.dominates(c.bb, site.bb):
                grown = True
            continue
        if not c.args or c.args[0].get("k") not in ("copy", "move") or root(c.args[0]) != L:
            continue
        if re.search(r"^alloc::vec::Vec::push$", n) and fn.dominates(c.bb, site.bb) and PR.loop_of(fn, c.bb) is None:
            grown = True
        elif re.search(r"^alloc::vec::Vec::(pop|remove|swap_remove|clear|truncate|drain|retain|retain_mut|split_off|dedup\w*|set_len)$|^core::mem::(take|replace|swap)$", n):
            return None
    # moved out / reassigned elsewhere
    if len([1 for _, st in F._assign_defs(fn).get(L, []) if not st["pl"]["p"]]) > 1:
        return None
    return "first element of a vector that was built with at least one element and is never shrunk before" if grown else None


def mech_len_minus_one(site):
    """`v.len() - 1` on a path where `v.ends_with(<non-empty literal>)` / `!v.is_empty()` is known for the same buffer: len >= 1"""
    if site.kind != "overflow" or not site.detail.startswith("Sub usize,usize"):
        return None
    ops = site.extra.get("ops") or []
    if len(ops) != 2 or ops[1].get("k") != "const" or ops[1].get("int") != 1 or ops[0].get("k") not in ("copy", "move"):
        return None
    fn = site.fn
    lens = [o.call for o in F.origins(fn, ops[0], depth=6, through_calls=False)
            if o.kind == "call" and re.search(r"^alloc::(vec::Vec|string::String)::len$|slice::<impl \[T\]>::len$|^core::str::<impl str>::len$", short(o.call.name))]
    if len(lens) != 1 or not lens[0].args:
        return None
    def ident(op):
        return (tuple(sorted(x for x in F.provenance_fields(fn, op, depth=10) if isinstance(x, str))), frozenset(_leaf_ids(fn, op)))
    buf = ident(lens[0].args[0])
    for g in _dominating_guards(site):
        if g["kind"] != "bool":
            continue
        for o in g["origins"]:
            if o.kind != "call" or not o.call.args:
                continue
            n = short(o.call.name)
            same = ident(o.call.args[0]) == buf and buf[1]
            if not same:
                continue
            if re.search(r"::ends_with$|::starts_with$", n) and g["edge"] == "true" and len(o.call.args) > 1:
                needle = o.call.args[1]
                txt = json.dumps(needle) + "".join(json.dumps(x.const) for x in F.origins(fn, needle, depth=4) if x.kind == "const" and x.const)
                if re.search(r'b?\\"[^\\"]+\\"|"int": \d+|\\\\n', txt) or needle.get("k") == "const":
                    return "len() - 1 under ends_with(<non-empty>) on the same buffer (len >= 1)"
            if re.search(r"::is_empty$", n) and g["edge"] == "false":
                return "len() - 1 under !is_empty() on the same buffer"
    return None


def mech_lengths(site):
    if site.kind == "cast" and site.stmt is not None:
        rv = site.stmt["rv"]
        if rv["from"] == "usize" and rv["to"] in ("i64", "u64", "isize", "i128", "u128") and _length_leaves(site.fn, rv["op"]):
            return "length cast (a len()/count() result is at most isize::MAX)"
    if site.kind == "api:capacity" and site.call is not None and site.call.args and \
            re.search(r"::(with_capacity|reserve|reserve_exact)$", short(site.call.name)):
        arg = site.call.args[-1]
        if arg["k"] == "const" and arg.get("int") is not None and arg["int"] <= 1 << 20:
            return "constant capacity"
        if arg["k"] in ("copy", "move") and _length_leaves(site.fn, arg):
            return "capacity = number of elements of a collection already in memory (cannot exceed the allocator's limit by itself)"
    if site.kind == "overflow" and site.detail.startswith("Add usize,usize"):
        ops = site.extra["ops"]
        if all(_length_leaves(site.fn, o) for o in ops):
            return "sum of lengths (each at most isize::MAX, so the usize sum cannot overflow)"
    if site.kind == "overflow" and site.detail.startswith("Add usize,usize"):
        # `self.counter += v.len()`: a field that counts elements which were all in memory at some time (the same argument as `+= 1`)
        ops = site.extra["ops"]
        lens = [o for o in ops if o.get("k") in ("copy", "move") and _length_leaves(site.fn, o)]
        flds = [o for o in ops if o.get("k") in ("copy", "move") and o not in lens and place_fields(F.source_place(site.fn, o) or {"p": []})]
        if len(lens) == 1 and len(flds) == 1:
            return "element counter (usize field += len(): bounded by the number of elements ever held in memory)"
    if site.kind == "overflow" and site.detail.startswith("Add u64,u64"):
        # `counter += v.len() as u64`: the counter is bounded by the number of elements that were materialised in memory one batch
        # after the other - 2^64 of them are out of reach (the same argument as for `+= 1`)
        for o in site.extra["ops"]:
            if o.get("k") not in ("copy", "move"):
                continue
            for og in F.origins(site.fn, o, depth=6, through_calls=False):
                if og.kind == "cast" and og.extra == "usize->u64" and og.place is not None and _length_leaves(site.fn, og.place):
                    return "element counter (u64 += len() as u64: bounded by the number of elements ever held in memory)"
    return None


def _variants_on_edge(info, lab):
    names = dict((dv, n) for dv, n in info[1].get("variants", []))
    if lab == "otherwise":
        listed = set(names.get(l2) for l2 in info[2] if l2 != "otherwise")
        return set(names.values()) - listed
    return {names.get(lab)}


def _enum_arg_guard(fn, bb, adt=None):
    """(variants, arg index, adt): the variants of an enum *argument* of fn under which block bb can run - for every switch on the
    discriminant of (a reference to / a copy of) an argument that dominates bb, the labels whose target reaches bb without passing the
    switch again (or-patterns and arms with bindings included); intersected over all such switches"""
    best = None
    for sw in sorted(fn.reach):
        if sw == bb or not fn.dominates(sw, bb):
            continue
        info = F.switch_info(fn, sw)
        if not info or info[0] != "discr" or not (info[1].get("adt") or "").startswith("sqlgrep::"):
            continue
        if adt is not None and info[1].get("adt") != adt:
            continue
        os_ = F.origins(fn, info[1]["pl"], depth=6, through_calls=False)
        if not (os_ and all(o.kind == "arg" for o in os_) and len(set(o.arg for o in os_)) == 1 and
                not [e for o in os_ for e in (o.place or {}).get("p", []) if isinstance(e, dict)]):
            continue
        vs = set()
        for lab, tgt in info[2].items():
            if fn.blocks[tgt]["term"]["k"] == "unreachable" and not fn.blocks[tgt]["stmts"]:
                continue
            if tgt == bb or bb in fn.reachable_from(tgt, avoid={sw}):
                vs |= _variants_on_edge(info, lab)
        key = (os_[0].arg, info[1]["adt"])
        if best is None:
            best = (vs, key[0], key[1])
        elif (best[1], best[2]) == key:
            best = (best[0] & vs, best[1], best[2])
    return best


def _variants_reaching(P, ctx, at, op, adt, depth=3):
    """the variants of enum `adt` the value of operand `op` can have at block `at` of function ctx, read from the enclosing match over the
    very same value; a captured variable is followed to where the closure was built, an argument of a helper that is new to the tree
    to every call of that helper.  None when the value is not pinned down by such a match."""
    if depth < 0 or op.get("k") not in ("copy", "move"):
        return None
    for _ in range(3):
        os_ = F.origins(ctx, op, depth=8, through_calls=False)
        if not os_ or not all(o.kind == "arg" for o in os_) or len(set(o.arg for o in os_)) != 1:
            return None
        if ctx.kind != "Closure":
            break
        if os_[0].arg != 1:
            return None
        flds = [e["f"] for e in (os_[0].place or {}).get("p", []) if isinstance(e, dict) and "f" in e]
        par = P.fns.get(ctx.parent_key)
        if par is None or not flds:
            return None
        made = [(i, st) for i, st in par.stmts() if st["k"] == "assign" and st["rv"]["k"] == "aggr" and st["rv"].get("ak") == "closure" and
                st["rv"].get("closure") == ctx.raw["key"] and len(st["rv"]["ops"]) > flds[0]]
        if len(made) != 1:
            return None
        at, op, ctx = made[0][0], made[0][1]["rv"]["ops"][flds[0]], par
    else:
        return None
    root_arg = os_[0].arg
    cg = _enum_arg_guard(ctx, at, adt)
    if cg is not None and cg[1] == root_arg:
        return cg[0]
    # no match here: a helper carved out of the function that matches - look at the helper's own callers
    if PR.pinned_fns() and ctx.spath not in PR.pinned_fns():
        base = P.fns.get(ctx.key, ctx)
        sites = [(h, c) for h in P.fns.values() for c in h.calls if base.key in P.callee_keys(h, c)]
        if not sites:
            return None
        out = set()
        for h, c in sites:
            if root_arg - 1 >= len(c.args):
                return None
            vs = _variants_reaching(P, h, c.bb, c.args[root_arg - 1], adt, depth - 1)
            if vs is None:
                return None
            out |= vs
        return out
    return None


def mech_excluded_variant(site):
    """panic!/unimplemented!/unreachable! in the arm of a match over an enum argument, where every call of the function sits in an arm of
    its caller's match over the very same value, for other variants: the arm cannot be entered"""
    if site.kind != "api:panic" or site.fn.kind == "Closure":
        return None
    fn = site.fn
    P = fn.prog
    base = P.fns.get(fn.key, fn)
    g = _enum_arg_guard(fn, site.bb)
    if g is None:
        return None
    vs, argidx, adt = g
    callers = [(h, c) for h in P.fns.values() for c in h.calls if base.key in P.callee_keys(h, c)]
    if not callers:
        return None
    seen_vs = set()
    for h, c in callers:
        if argidx - 1 >= len(c.args):
            return None
        cv = _variants_reaching(P, h, c.bb, c.args[argidx - 1], adt)
        if cv is None or (cv & vs):
            return None
        seen_vs |= cv
    return "arm for %s of a match over argument %d: every call of the function (%d) sits in a match arm of its caller over the same " \
           "value for other variants (%s)" % ("/".join(sorted(vs)), argidx, len(callers), "/".join(sorted(seen_vs)))


def _dominating_guards(site):
    fn = site.fn
    out = []
    for (sw, label, tgt) in F.guards_dominating(fn, site.bb):
        info = F.switch_info(fn, sw)
        if not info:
            continue
        kind, subj, targets = info
        if kind == "bool":
            pos, os_ = F.bool_edge_polarity(fn, sw, label)
            out.append({"sw": sw, "kind": "bool", "edge": "true" if pos else "false", "origins": os_})
        elif kind == "discr":
            vn = F.variant_of_label(subj, label)
            if vn is None and label == "otherwise":
                # otherwise edge of a 2-variant enum with one explicit target = the other variant
                listed = [F.variant_of_label(subj, l) for l in targets if l != "otherwise"]
                rest = [n for _, n in subj.get("variants", []) if n not in listed]
                if len(rest) == 1:
                    vn = rest[0]
            os_ = F.origins(fn, subj["pl"], depth=10)
            out.append({"sw": sw, "kind": "discr", "edge": (vn or label).lower(), "origins": os_, "adt": subj.get("adt")})
    return out


def _edge_matches(edge, want):
    """`x?` lowers to a match on ControlFlow: its Continue edge is the Some / Ok edge of x, its Break edge the None / Err edge"""
    if edge == want:
        return True
    if edge == "continue" and want in ("some", "ok"):
        return True
    if edge == "break" and want in ("none", "err"):
        return True
    return False


def req_guard_call(site, req):
    rx = re.compile(req["guard_call"])
    want = req.get("edge", "some").lower()
    for g in _dominating_guards(site):
        if not _edge_matches(g["edge"], want):
            continue
        for o in g["origins"]:
            if o.kind == "call" and rx.search(short(o.call.name)):
                return True
    return False


def _guard_identity(site, req):
    """the switch block of the (innermost) guard that satisfies a guard_call requirement"""
    if "guard_call" not in req:
        return None
    rx = re.compile(req["guard_call"])
    want = req.get("edge", "some").lower()
    best = None
    for g in _dominating_guards(site):
        if not _edge_matches(g["edge"], want):
            continue
        for o in g["origins"]:
            if o.kind == "call" and rx.search(short(o.call.name)):
                if best is None or site.fn.dominates(best, g["sw"]):
                    best = g["sw"]
    return best


CMP_NEG = {"Eq": "Ne", "Ne": "Eq", "Lt": "Ge", "Ge": "Lt", "Gt": "Le", "Le": "Gt"}


def req_guard_cmp(site, req):
    """a comparison `want_op` holds on the path to the site: either that operator's true edge or the negated operator's false edge
    (`if len == 1 {..}` and `if len != 1 { return }; ..` are the same guard); also read as a path fact through flags / inlined helpers"""
    want_op = req["guard_cmp"]
    want = req.get("edge", "true")
    holds = want_op if want == "true" else CMP_NEG.get(want_op, want_op)
    for g in _dominating_guards(site):
        if g["kind"] != "bool":
            continue
        for o in g["origins"]:
            if o.kind != "binop":
                continue
            eff = o.extra if g["edge"] == "true" else CMP_NEG.get(o.extra)
            if eff == holds:
                if "const" in req:
                    cs = [_const_int(o.place["l"]), _const_int(o.place["r"])]
                    if req["const"] not in cs:
                        continue
                return True
    # path facts (sees through `let ok = a == b && ..;` and early returns that have no single dominating edge)
    try:
        fa = PR.facts(site.fn)
        for a, val in fa.binop_facts(site.bb):
            eff = a["op"] if val else CMP_NEG.get(a["op"])
            if eff == holds:
                if "const" in req:
                    cs = [_const_int(a["l"]), _const_int(a["r"])]
                    if req["const"] not in cs:
                        continue
                return True
    except Exception:
        pass
    return False


def _recv_root(fn, call):
    """root local of the receiver (first argument) of a method call, through &mut / & temps"""
    if not call.args:
        return None
    for o in F.origins(fn, call.args[0], depth=4, through_calls=False):
        if o.kind in ("place", "arg") and o.place is not None:
            return o.place["l"]
    a = call.args[0]
    if a["k"] in ("copy", "move"):
        return a["pl"]["l"]
    return None


def req_len_guard(site, req):
    """Vec::remove(v, 0) / v[const i] inside a match arm guarded by `<vec>.len() == N`:
    (#removes on v that dominate the site, inclusive) + (const index) must stay within N"""
    fn = site.fn
    c = site.call
    if c is None:
        return False
    n = None
    guard_tgt = None
    for g in _dominating_guards(site):
        if g["kind"] != "bool" or g["edge"] != "true":
            continue
        for o in g["origins"]:
            if o.kind == "binop" and o.extra == "Eq":
                l, r = o.place["l"], o.place["r"]
                cv = _const_int(r) if _const_int(r) is not None else _const_int(l)
                other = l if _const_int(r) is not None else r
                if cv is None:
                    continue
                if any(oc.kind == "call" and short(oc.call.name) in ("alloc::vec::Vec::len", "core::slice::<impl [T]>::len")
                       for oc in F.origins(fn, other, depth=3, through_calls=False)):
                    if n is None or cv < n:
                        n = cv
                        guard_tgt = g["sw"]
    if n is None:
        # `match v.len() { 1 => .., 2 => .. }`: an integer switch on the length with the arm's label as N
        for (sw, lab, tgt) in F.guards_dominating(fn, site.bb):
            info = F.switch_info(fn, sw)
            if not info or info[0] != "int" or lab == "otherwise" or not lab.lstrip("-").isdigit():
                continue
            d = fn.blocks[sw]["term"]["discr"]
            if d["k"] in ("copy", "move") and any(oc.kind == "call" and short(oc.call.name) in ("alloc::vec::Vec::len", "core::slice::<impl [T]>::len")
                                                  for oc in F.origins(fn, d, depth=4, through_calls=False)):
                cv = int(lab)
                if n is None or cv < n:
                    n = cv
                    guard_tgt = tgt
    len_fact_at = None
    if n is None:
        # the guard of an or-pattern arm (`A | B if v.len() == 2 => ..`) is evaluated once per alternative: no single edge dominates
        # the arm, but `len == N` is a fact on every path into it
        try:
            fa = PR.facts(fn)

            def len_fact_at(bb):
                """N such that on every path to bb some test `<len> == N'` with N' >= N succeeded (each alternative of the or-pattern
                has its own copy of the test, so the fact is looked for per path)"""
                ws = fa.worlds_at(bb)
                if not ws:
                    return None
                overall = None
                for w in ws:
                    best_ = None
                    for key_, val in w:
                        a = fa.atoms.get(key_, {})
                        if a.get("kind") != "binop" or a.get("op") != "Eq" or val is not True:
                            continue
                        l, r = a["l"], a["r"]
                        cv = _const_int(r) if _const_int(r) is not None else _const_int(l)
                        other = l if _const_int(r) is not None else r
                        if cv is None or other.get("k") not in ("copy", "move"):
                            continue
                        if any(oc.kind == "call" and short(oc.call.name) in ("alloc::vec::Vec::len", "core::slice::<impl [T]>::len")
                               for oc in F.origins(fn, other, depth=3, through_calls=False)):
                            best_ = cv if best_ is None else min(best_, cv)
                    if best_ is None:
                        return None
                    overall = best_ if overall is None else min(overall, best_)
                return overall
            n = len_fact_at(site.bb)
        except Exception:
            n = None
    if n is None:
        return False
    recv = _recv_root(fn, c)
    removes = 0
    for c2 in fn.calls:
        if short(c2.name) == "alloc::vec::Vec::remove" and _recv_root(fn, c2) == recv:
            if guard_tgt is not None:
                inside = fn.dominates(guard_tgt, c2.bb)
            else:
                inside = len_fact_at is not None and len_fact_at(c2.bb) == n
            if c2.bb == c.bb or (fn.dominates(c2.bb, site.bb) and inside):
                removes += 1
    sn = short(c.name)
    if sn == "alloc::vec::Vec::remove":
        idx = _const_int(c.args[1])
        return idx == 0 and removes <= n
    if "Index" in sn:
        idx = _const_int(c.args[1])
        return idx is not None and idx + removes < n
    return False


def req_callee_arg_const(site, req):
    """argument <i> of the site's call is the given constant"""
    c = site.call
    if c is None:
        return False
    i = req["arg_const"][0]
    return i < len(c.args) and _const_int(c.args[i]) == req["arg_const"][1]


REQS = {"guard_call": req_guard_call, "guard_cmp": req_guard_cmp, "len_guard": req_len_guard,
        "arg_const": req_callee_arg_const}


def check_requires(site, req):
    for k, fnc in REQS.items():
        if k in req:
            if not fnc(site, req):
                return False
    return True


# ---------------------------------------------------------------------------

_FP = None


def fingerprints():
    global _FP
    if _FP is None:
        try:
            with open(os.path.join(VERIF, "tables", "fingerprints.json")) as fh:
                _FP = json.load(fh)
        except Exception:
            _FP = {}
    return _FP


def run_inventory(R, rid, root_name, desc, restrict=None):
    """restrict: optional predicate(site) selecting the sub-inventory a property cares about"""
    P = R.prog
    R.rule(rid, desc)
    rs = roots(R, root_name)
    reach = P.reachable(rs)
    tab = table()
    entries = defaultdict(list)
    for e in tab["discharged"]:
        entries[e["key"]].append(e)
    used = Counter()
    per_guard_sites = {}
    cg = P.callgraph()
    callers_of = defaultdict(set)
    for a_, bs_ in cg.items():
        fa = P.fns[a_]
        while fa.kind == "Closure" and fa.parent_key in P.fns:
            fa = P.fns[fa.parent_key]
        for b_ in bs_:
            if P.fns[b_].kind != "Closure":
                callers_of[b_].add(fa.key)
    unique_caller = {k_: next(iter(v_)) for k_, v_ in callers_of.items() if len(v_) == 1 and P.fns[k_].vis != "Public"}
    all_sites = []
    # sites are enumerated on *views*: a helper that did not exist on the pinned tree is inlined into the functions it was carved out
    # of, so its sites keep their old keys and are judged where the guards that license them are visible
    pinned = PR.pinned_fns()
    views = {}
    inlined_into = defaultdict(set)
    for k in sorted(reach):
        f = P.fns[k]
        if f.derived or f.kind == "Closure" or (pinned and f.spath not in pinned):
            continue
        v = PR.view(P, f)
        views[k] = v
        for nm in getattr(v, "inlined", []) or []:
            inlined_into[nm].add(k)
    for k in sorted(reach):
        f = P.fns[k]
        if f.derived:
            continue
        if f.kind != "Closure" and pinned and f.spath not in pinned and f.spath in inlined_into:
            # analysed inside every function it was inlined into - unless some caller could not inline it
            callers = callers_of.get(k, set())
            if callers and all(P.fns[c_].spath in pinned or P.fns[c_].spath in inlined_into for c_ in callers):
                continue
        f = views.get(k, f)
        for s in S.enumerate_sites(f):
            if restrict is None or restrict(s):
                all_sites.append(s)
    by_key = defaultdict(list)
    seen_inl = set()
    for s in all_sites:
        # a helper inlined at several call sites yields one copy of its sites per call site: they are one site of the source
        if s.fn.blocks[s.bb].get("inl"):
            ident = (s.key, s.file, s.line)
            if ident in seen_inl:
                continue
            seen_inl.add(ident)
        by_key[s.key].append(s)
    for key in sorted(by_key):
        ss = by_key[key]
        for idx, s in enumerate(sorted(ss, key=lambda s: (s.file, s.line))):
            how = mech_const_divisor(s) or mech_counter(s) or mech_const_ctor(s) or mech_lengths(s) or mech_const_clamp(s) or mech_position_index(s) or mech_range_index(s) or mech_nonempty_vec(s) or mech_guarded_sub(s) or mech_len_minus_one(s) or mech_full_range(s) or mech_excluded_variant(s) or mech_widened(s) or mech_total_consumers(s) or mech_bounded_capacity(s) or mech_balanced_counter(s)
            if how:
                R.ok(rid, key, "mechanical: " + how, s.loc(), nontrivial=False)
                continue
            done = False
            cand = list(entries.get(key, []))
            if not cand:
                # the site may have moved into a private helper with a single caller (extract-function refactoring):
                # rows of the (transitively unique) caller apply, their guards are still re-proved at the site
                ok_ = s.owner
                for _ in range(2):
                    cs_ = unique_caller.get(ok_.key)
                    if cs_ is None:
                        break
                    ok_ = P.fns[cs_]
                    k2 = "%s|%s|%s" % (ok_.spath, s.kind, s.detail)
                    if entries.get(k2):
                        cand = list(entries[k2])
                        break
            if not cand:
                # the function that held a tabled site was renamed (or its statements moved to a new function) and the old name is gone:
                # the row still applies to a site of the same kind and detail whose operands have the same name-independent fingerprint
                fp = S.fingerprint(s)
                for e2 in tab["discharged"]:
                    k_fn, k_kind, k_detail = (e2["key"].split("|") + ["", ""])[:3]
                    if k_kind != s.kind or k_detail != s.detail or P.fn(k_fn) is not None:
                        continue
                    if fp in fingerprints().get(e2["key"], []):
                        cand.append(e2)
                if cand:
                    R.note("%s: %s matched the row of the vanished function %s by fingerprint" % (rid, key, cand[0]["key"].split("|")[0]))
            for e in cand:
                if "requires" in e:
                    # mechanically re-proved per site: any number of sites may use the row, but a guard that licenses one
                    # use (`per_guard`) is consumed by the first site it dominates
                    if not check_requires(s, e["requires"]):
                        continue
                    pg = e["requires"].get("per_guard")
                    if pg is not None:
                        gsw = _guard_identity(s, e["requires"])
                        gk = (id(e), gsw)
                        prev = per_guard_sites.setdefault(gk, [])
                        # a second use on the same path from the guard (not on a mutually exclusive arm) is not licensed
                        clash = [b for b in prev if s.bb in s.fn.reachable_from(b, avoid={gsw}) or b in s.fn.reachable_from(s.bb, avoid={gsw})]
                        if len(clash) >= pg:
                            continue
                        prev.append(s.bb)
                elif used[id(e)] >= e.get("count", 1):
                    continue
                used[id(e)] += 1
                kind = "mechanical+table" if "requires" in e else "table"
                R.__dict__.setdefault("fp_log", []).append((e["key"], S.fingerprint(s)))
                R.ok(rid, key, "%s: %s" % (kind, e["reason"]), s.loc(), nontrivial=True)
                if "requires" not in e:
                    R.assume("discharged by reason (%s): %s" % (key.split("|")[0].split("::")[-1], e["reason"]))
                done = True
                break
            if done:
                continue
            chain = P.chain(reach, s.fn.key)
            failed = [e for e in entries.get(key, []) if "requires" in e]
            why = ""
            if failed:
                why = " (a tabled discharge exists but its guard %s no longer dominates the site)" % json.dumps(failed[0]["requires"])
            R.violation(rid, key,
                        "%s site in %s: %s%s" % (s.kind, s.fn.path, s.detail[:160], why),
                        [s.loc()],
                        {"entry_chain": " -> ".join(x.split("::")[-1] for x in chain[-6:]),
                         "why_dangerous": s.extra.get("why", {"overflow": "integer overflow panics (debug) or wraps (release)",
                                                               "divzero": "division by zero panics",
                                                               "cast": "narrowing/sign-changing `as` silently truncates or wraps",
                                                               "bounds": "index out of bounds panics"}.get(s.kind, ""))})
    # external callees reachable from the roots: the may-panic table is only complete for the APIs that were classified; any external callee
    # that is new relative to the frozen list is named in the evidence (assumed non-panicking unless it matches a may-panic pattern)
    ext = set()
    for k in reach:
        for c in P.fns[k].calls:
            if not (c.func.get("res_local") or c.func.get("local") or c.func.get("crate") == "sqlgrep") and c.func.get("key"):
                ext.add(short(c.name))
    known_ext = set()
    ep = os.path.join(VERIF, "tables", "external_callees.json")
    if os.path.exists(ep):
        with open(ep) as fh:
            known_ext = set(json.load(fh).get(root_name, []))
    new_ext = sorted(x for x in ext - known_ext if not x.startswith(("core::", "alloc::", "std::", "<core::", "<alloc::", "<std::", "<&")))
    R.note("%s: %d distinct external callees (%d third-party); new third-party callees relative to tables/external_callees.json: %s"
           % (root_name, len(ext), len([x for x in ext if not x.startswith(("core::", "alloc::", "std::", "<core::", "<alloc::", "<std::", "<&"))]),
              new_ext or "none"))
    R._ext = getattr(R, "_ext", {})
    R._ext[root_name] = sorted(ext)
    R.note("%s: %d functions reachable from %d roots; %d sites" % (root_name, len(reach), len(rs), len(all_sites)))
    return all_sites, reach


def run_thorough_release(R, rid, root_name):
    """thorough tier: second extraction with release semantics (overflow checks and debug assertions off).
    There the Overflow asserts are gone and the raw integer operators remain; per function the number of raw
    Add/Sub/Mul/Neg integer operators must equal the number of overflow-assert sites of the dev profile, so the
    inventory decided above also covers the profile in which an overflow wraps silently."""
    from . import extract as X
    from .prog import Prog
    facts2, info2 = X.extract(profile="release", fresh=True)
    P2 = Prog(facts2)
    P = R.prog
    R.rule(rid + ".release", "release-profile cross-check: per function, raw integer operators (wrapping) = overflow assert sites (panicking)")
    reach = P.reachable(roots(R, root_name))
    INT = set(S.INT_RANGES) - {"bool", "char"}
    mismatches = []
    n = 0
    for k in sorted(reach):
        f = P.fns[k]
        g = P2.fns.get(k)
        if f.derived:
            continue
        if g is None:
            mismatches.append((f.path, "missing in release facts"))
            continue
        dev = sum(1 for s_ in S.enumerate_sites(f) if s_.kind == "overflow" and s_.detail.split(" ")[0] in ("Add", "Sub", "Mul", "Neg", "Shl", "Shr"))
        rel = 0
        for i, st in g.stmts():
            rv = st["rv"]
            if rv["k"] == "binop" and rv["op"] in ("Add", "Sub", "Mul", "Shl", "Shr") and rv.get("lty") in INT:
                if rv["l"]["k"] == "const" and rv["r"]["k"] == "const":
                    continue
                rel += 1
            if rv["k"] == "unop" and rv["op"] == "Neg" and rv.get("oty") in INT:
                rel += 1
        devw = sum(1 for i, st in f.stmts() if st["rv"]["k"] == "binop" and st["rv"]["op"] in ("Add", "Sub", "Mul", "Shl", "Shr")
                   and st["rv"].get("lty") in INT and not (st["rv"]["l"]["k"] == "const" and st["rv"]["r"]["k"] == "const"))
        n += 1
        if rel != dev + devw:
            mismatches.append((f.path, "dev overflow sites %d (+%d unchecked ops) vs release raw operators %d" % (dev, devw, rel)))
    if mismatches:
        raise EngineError("release-profile cross-check disagrees with the dev-profile inventory: %s" % mismatches[:5])
    R.ok(rid + ".release", root_name, "%d functions: raw integer operators in the release MIR = overflow sites of the dev MIR" % n,
         sample={"release_tree_hash": info2.get("hash")})


def recursion_rule(R, rid, root_name, guard_roots=None):
    """every recursive cycle reachable from the roots is depth-guarded or follows a structure whose depth a guarded function bounds"""
    P = R.prog
    R.rule(rid, "stack depth: every recursive call-graph component reachable from the entry points passes through the parser's depth guard "
                "or recurses over a structure whose depth a guarded parser function bounds (tables/recursion.json)")
    with open(os.path.join(VERIF, "tables", "recursion.json")) as fh:
        tab = json.load(fh)["components"]
    reach = P.reachable(roots(R, root_name))
    own_reach = set(reach)
    if guard_roots:
        # the `bounded_by` entries lean on the depth guard of the expression parser: its component is checked here as well
        reach = P.reachable(roots(R, root_name) + roots(R, guard_roots))
    cg = P.callgraph()
    g = {a: set(b for b in cg.get(a, ()) if b in reach) for a in reach}
    # Tarjan (iterative)
    index, low, onst, st, comps = {}, {}, set(), [], []
    counter = [0]
    for root in sorted(g):
        if root in index:
            continue
        work = [(root, iter(sorted(g[root])))]
        index[root] = low[root] = counter[0]
        counter[0] += 1
        st.append(root)
        onst.add(root)
        while work:
            v, it = work[-1]
            adv = False
            for w in it:
                if w not in index:
                    index[w] = low[w] = counter[0]
                    counter[0] += 1
                    st.append(w)
                    onst.add(w)
                    work.append((w, iter(sorted(g[w]))))
                    adv = True
                    break
                elif w in onst:
                    low[v] = min(low[v], index[w])
            if adv:
                continue
            work.pop()
            if work:
                low[work[-1][0]] = min(low[work[-1][0]], low[v])
            if low[v] == index[v]:
                comp = []
                while True:
                    w = st.pop()
                    onst.discard(w)
                    comp.append(w)
                    if w == v:
                        break
                if len(comp) > 1 or v in g[v]:
                    comps.append(comp)

    def constructs_guard(fn):
        return any(s_["rv"]["k"] == "aggr" and s_["rv"].get("variant") == "TooDeepExpression" for _, s_ in fn.stmts())

    guard_fns = set(k for k, f in P.fns.items() if constructs_guard(f))
    guard_callers = set(guard_fns)
    in_cycle = set(k for comp in comps for k in comp)
    # functions that pass the guard on every call: they call a guard function, possibly through non-recursive helpers
    # (`enter_nesting()` -> `too_deep_error()`), bounded depth
    for _ in range(3):
        grew = False
        for k, f in P.fns.items():
            if k in guard_callers:
                continue
            for c in f.calls:
                ks = P.callee_keys(f, c)
                if any(k2 in guard_fns or (k2 in guard_callers and k2 not in in_cycle) for k2 in ks):
                    guard_callers.add(k)
                    grew = True
                    break
        if not grew:
            break
    for comp in comps:
        names = sorted(P.fns[k].spath for k in comp)
        named = [n for n in names if "{closure" not in n] or names
        key = named[0]
        ent = [e for e in tab if e["contains"] in names]
        if not ent:
            # the recursion of a tabled function moved into a function that only it calls (`json_value` delegating to an
            # `impl From<&Value> for serde_json::Value`): the same recursion over the same structure
            outside = set()
            for h in P.fns.values():
                if h.key in comp:
                    continue
                if any(k2 in comp for c in h.calls for k2 in P.callee_keys(h, c)):
                    o_ = h
                    while o_.kind == "Closure" and o_.parent_key in P.fns:
                        o_ = P.fns[o_.parent_key]
                    if o_.key not in comp:
                        outside.add(o_.spath)
            if len(outside) == 1:
                ent = [e for e in tab if e["contains"] in outside and P.fn(e["contains"]) is not None and
                       not any(P.fn(e["contains"]).key in c2 for c2 in comps)]
        loc = P.fns[comp[0]].loc()
        if not (set(comp) & own_reach) and not (ent and ent[0]["mode"] == "guarded"):
            continue
        if not ent and all(P.fns[k].derived for k in comp):
            # #[derive(Clone / PartialEq / Hash / Debug ..)] on a tree type recurses over a value of that type; values of the tree
            # types are only built by the parser / converter, i.e. under the depth guard
            gf = P.fn("sqlgrep::parsing::parser::Parser::enter_nesting")
            if gf is not None and gf.key in guard_callers:
                R.ok(rid, key, "derived impl over a tree value of guarded depth", loc, nontrivial=False)
                continue
        if not ent:
            R.violation(rid, "unbounded|" + key,
                        "recursive functions %s are reachable from the entry points without a depth bound: input that nests deeply enough overflows "
                        "the stack (abort, not an error)" % named[:4], [loc])
            continue
        e = ent[0]
        if e["mode"] == "guarded":
            # iteration also nests: a loop of the recursive-descent component that wraps its running result into a new tree node on
            # every pass (`lhs = Node(lhs, rhs)`) builds a left-deep tree as deep as the chain is long.  Every such pass must go
            # through the depth guard, or the functions that later recurse over the tree (conversion, drop) overflow the stack.
            for k_ in sorted(comp):
                g_ = P.fns[k_]
                if g_.kind == "Closure":
                    continue
                for hdr, body in g_.loops().items():
                    builds = [i for i, st in g_.stmts() if i in body and st["k"] == "assign" and st["rv"]["k"] == "aggr" and
                              re.search(r"ExpressionTreeData$|ExpressionTree$", st["rv"].get("adt") or "") and
                              any("alloc::boxed::Box<" in (o.get("ty") or "") for o in st["rv"]["ops"] if isinstance(o, dict))]
                    if not builds:
                        continue
                    guard_blocks = set(c.bb for c in g_.calls if any(k2 in guard_callers and k2 not in comp for k2 in P.callee_keys(g_, c)))
                    self_guard = any(s_["rv"]["k"] == "aggr" and s_["rv"].get("variant") == "TooDeepExpression" for i2, s_ in g_.stmts() if i2 in body)
                    unguarded_pass = [b_ for b_ in builds if hdr in g_.reachable_from(b_, avoid=guard_blocks) and
                                      b_ in g_.reachable_from(hdr, avoid=guard_blocks)]
                    keyl = "loop|" + g_.spath.split("::")[-1]
                    # the passes must accumulate: the counter the guard increments is not written (restored) inside the loop, neither
                    # directly nor by a helper other than the guard - otherwise every pass starts from the same depth again
                    cfields = set()
                    for gk in guard_callers:
                        gfn = P.fns[gk]
                        if gk in in_cycle or gfn.kind == "Closure":
                            continue
                        for _, st in gfn.stmts():
                            if st["k"] == "assign" and st["pl"]["l"] == 1 and st["pl"]["p"]:
                                cfields |= set(place_fields(st["pl"])[:1])
                    resets = [i for i, st in g_.stmts() if i in body and st["k"] == "assign" and st["pl"]["l"] == 1 and st["pl"]["p"] and
                              set(place_fields(st["pl"])[:1]) & cfields]
                    reset_calls = []
                    for c in g_.calls:
                        if c.bb not in body:
                            continue
                        for k2 in P.callee_keys(g_, c):
                            if k2 in guard_callers or k2 in comp:
                                continue
                            if any(st["k"] == "assign" and st["pl"]["l"] == 1 and st["pl"]["p"] and set(place_fields(st["pl"])[:1]) & cfields
                                   for _, st in P.fns[k2].stmts()):
                                reset_calls.append(c)
                    if (resets or reset_calls) and not self_guard:
                        R.violation(rid, "reset-in-" + keyl,
                                    "%s writes the depth counter (%s) inside the loop that nests the tree one level deeper per pass: the passes no "
                                    "longer accumulate towards the limit, so a long flat chain (`a OR a OR a ...`) yields a tree deeper than any "
                                    "bound and the recursive passes over it (conversion, evaluation, drop) overflow the stack"
                                    % (g_.path, ", ".join(sorted(cfields))), [g_.loc(resets[0]) if resets else reset_calls[0].loc()])
                        continue
                    if unguarded_pass and not self_guard:
                        R.violation(rid, "unguarded-" + keyl,
                                    "%s grows the expression tree by one level per loop pass without passing the depth guard: a long flat "
                                    "chain (`a + a + a + ...`) yields a tree deeper than any bound, and the recursive passes over it "
                                    "(conversion, drop) overflow the stack" % g_.path, [g_.loc(unguarded_pass[0])])
                    else:
                        R.ok(rid, keyl, "every pass that nests the tree one level deeper goes through the depth guard", g_.loc(hdr), nontrivial=False)
            rest = set(comp) - guard_callers
            # is the rest acyclic?
            sub = {a: set(b for b in g[a] if b in rest) for a in rest}
            cyc = _has_cycle(sub)
            if not cyc and (set(comp) & guard_callers):
                R.ok(rid, key, "every cycle passes the depth guard (%d functions)" % len(comp), loc, sample={"reason": e["reason"]})
            else:
                cn = [P.fns[k].spath.split("::")[-1] for k in (cyc or [])]
                R.violation(rid, "unguarded|" + "->".join(sorted(set(cn))) if cn else "unguarded|" + key,
                            "the recursion %s -> %s never passes the depth guard: input nested deeply enough along it overflows the stack "
                            "(abort, not an error)" % (" -> ".join(cn), cn[0] if cn else "?"),
                            [P.fns[cyc[0]].loc() if cyc else loc])
        else:
            gf = P.fn(e["guard_in"])
            if gf is not None and (gf.key in guard_callers):
                R.ok(rid, key, "bounded through %s" % e["guard_in"].split("::")[-1], loc, sample={"reason": e["reason"]})
            else:
                R.violation(rid, "bound-missing|" + key,
                            "%s recurses over a structure whose depth %s was supposed to bound, but that function no longer enforces the bound"
                            % (named[:3], e["guard_in"]), [loc])


def _has_cycle(g):
    """a cycle of g as a list of nodes, or None"""
    color = {}
    for s in sorted(g):
        if s in color:
            continue
        stack = [(s, iter(sorted(g[s])))]
        color[s] = 1
        while stack:
            v, it = stack[-1]
            adv = False
            for w in it:
                if color.get(w) == 1:
                    path = [x for x, _ in stack]
                    return path[path.index(w):]
                if w not in color:
                    color[w] = 1
                    stack.append((w, iter(sorted(g[w]))))
                    adv = True
                    break
            if not adv:
                color[v] = 2
                stack.pop()
    return None
