"""Property -> rule modules."""
from .core import EngineError

# floors counted by the engine on the pinned tree (fail closed if the extractor sees less)
FLOOR_LIB_BODIES = 600
FLOOR_BIN_BODIES = 35


def floors(R):
    t = {x["target"]: x["bodies"] for x in R.prog.targets}
    if t.get("lib", 0) < FLOOR_LIB_BODIES or t.get("bin", 0) < FLOOR_BIN_BODIES:
        raise EngineError("analysed-function count below floor: %s" % t)


CHECKS = {
    "C18": {
        "modules": ["rules_c18"],
        "explanation": "Effect analysis over the MIR of every function of the lib and bin targets: all calls to "
                       "nondeterminism sources (iteration over RandomState-hashed containers - hasher read from the resolved "
                       "generic arguments -, clocks, threads, environment, addresses, random hashers) are enumerated; each is "
                       "discharged by a mechanical loop-body order-insensitivity check or by a tabled reason with a "
                       "who-may-call constraint; anything else is reported with file:line.",
        "trusted": ["rustc nightly front end (MIR, trait resolution)", "dependencies are deterministic",
                    "tables/nondet_allow.json rows (each with a reason)"],
        "technique": "static effect analysis on MIR: enumeration of nondeterminism-source call sites with resolved hasher types, loop-body order-insensitivity check, who-may-call table",
        "level_text": "Exhaustive over all paths of all functions of the lib and bin targets: no unlisted nondeterminism source can "
                      "reach output. Decides the structural clause (no hash-seed/clock/thread/address dependence), from which the "
                      "behavioural property follows under the trusted base; it does not compare outputs of runs.",
        "level_note": "Trusted: rustc's MIR and trait resolution; dependencies deterministic; each allow-table row's reason "
                      "(interactive listing/completion, run statistics, now()).",
    },
}
