"""Property -> rule modules."""
from .core import EngineError

# floors counted by the engine on the pinned tree (fail closed if the extractor sees less)
FLOOR_LIB_BODIES = 600
FLOOR_BIN_BODIES = 35


def floors(R):
    t = {x["target"]: x["bodies"] for x in R.prog.targets}
    if t.get("lib", 0) < FLOOR_LIB_BODIES or t.get("bin", 0) < FLOOR_BIN_BODIES:
        raise EngineError("analysed-function count below floor: %s" % t)


CHECKS = {
    "C18": {
        "modules": ["rules_c18"],
        "explanation": "Effect analysis over the MIR of every function of the lib and bin targets: all calls to "
                       "nondeterminism sources (iteration over RandomState-hashed containers - hasher read from the resolved "
                       "generic arguments -, clocks, threads, environment, addresses, random hashers) are enumerated; each is "
                       "discharged by a mechanical loop-body order-insensitivity check or by a tabled reason with a "
                       "who-may-call constraint; anything else is reported with file:line. Calls through fn pointers are resolved by address-taken analysis (the local fn items / closures coerced to that pointer type); a pointer type whose target set is not closed is reported.",
        "trusted": ["rustc nightly front end (MIR, trait resolution)", "dependencies are deterministic",
                    "tables/nondet_allow.json rows (each with a reason)"],
        "technique": "static effect analysis on MIR: enumeration of nondeterminism-source call sites with resolved hasher types, loop-body order-insensitivity check, who-may-call table",
        "level_text": "Exhaustive over all paths of all functions of the lib and bin targets: no unlisted nondeterminism source can "
                      "reach output. Decides the structural clause (no hash-seed/clock/thread/address dependence), from which the "
                      "behavioural property follows under the trusted base; it does not compare outputs of runs.",
        "level_note": "Trusted: rustc's MIR and trait resolution; dependencies deterministic; each allow-table row's reason "
                      "(interactive listing/completion, run statistics, now()).",
    },
    "C09": {
        "modules": ["rules_c09"],
        "thorough_modules": ["rules_c09"],
        "explanation": "Site inventory over the MIR of every function reachable from the execution entry points (call graph with "
                       "closure attribution and class-hierarchy resolution of trait calls on generic parameters): arithmetic "
                       "Assert terminators (overflow, division by zero, bounds), calls into the may-panic API table (unwrap/expect, "
                       "panic!/unreachable!/unimplemented!, Index on Vec/str/HashMap, Vec::remove/insert/drain, i64::pow/abs, chrono's "
                       "panicking constructors and operators, sort on a non-total Ord) and narrowing/sign-changing `as` casts. Each site is "
                       "an obligation: discharged mechanically, by a tabled reason whose guard is re-proved by edge dominance on every run, "
                       "listed as known finding, or reported with file:line. The depth bound the recursive evaluators lean on is re-checked: every cycle of the expression parser passes the depth guard, and a loop that nests the tree one level per pass neither skips the guard nor writes the depth counter.",
        "trusted": ["rustc nightly MIR + trait resolution", "tables/may_panic_api.json is complete for the APIs this crate calls",
                    "tables/discharged.json rows without a `requires` clause are assumptions (listed in the evidence)"],
        "technique": "static site inventory on MIR over the call-graph closure of the entry points; edge-dominance guard re-proving; tabled discharges",
        "level_text": "Absence claim decided over all paths: no unlisted panic / wrap / truncation construct is reachable from the execution entry "
                      "points. Does not decide termination, stack depth or panics inside dependencies.",
        "level_note": "Trusted: MIR of the nightly front end; may-panic API table; each reason-only discharge row.",
    },
    "C14": {
        "modules": ["rules_c14"],
        "thorough_modules": ["rules_c14"],
        "explanation": "Same site inventory as C09, rooted at the parsing entry points (parse, parse_into_tree, TableDefinition::new, "
                       "TokenLocation::extract_near, error Display impls).",
        "trusted": ["rustc nightly MIR + trait resolution", "tables/may_panic_api.json", "reason-only rows of tables/discharged.json"],
        "technique": "static site inventory on MIR over the call-graph closure of the parsing entry points; edge-dominance guard re-proving; tabled discharges",
        "level_text": "Absence claim decided over all paths of the parser/tokenizer/converter: no unlisted panic-capable construct is reachable. "
                      "Recursion depth (stack exhaustion) and error-position correctness are not decided.",
        "level_note": "Trusted: MIR of the nightly front end; may-panic API table; each reason-only discharge row.",
    },
    "C16": {
        "modules": ["rules_c16"],
        "explanation": "Impl-provenance analysis: the key types (local types reaching ordered/hashed containers, sorts, min/max and comparison "
                       "calls under the execution and parsing entry points, closed under field containment) are enumerated from resolved "
                       "generic arguments; for each, the PartialEq/Eq/PartialOrd/Ord/Hash impls are read from the type-checked program "
                       "(#[automatically_derived] or manual). Types without a float must be all-derived; a float-bearing type must build "
                       "eq/partial_cmp/cmp/hash on one canonical total key, which is checked on the MIR of the four methods (callees, absence of "
                       "IEEE comparison BinaryOps, shared key function, NaN/-0.0 canonicalisation). Plus: no ad-hoc comparators on value "
                       "types, and the WHERE comparison converts INT to REAL before ordering. The Compare arm of evaluate constructs no operand value except the INT -> REAL widening (a cast of the Int payload): WHERE compares with the same equality / order that the key containers use. partial_cmp of the REAL wrapper builds no None and every Some(ordering) comes from cmp. Outside the Hash impls nothing feeds a Value / Float / GroupKey / Row into a hasher of its own (containers hold values, not digests).",
        "trusted": ["rustc nightly MIR + is_automatically_derived", "std/chrono leaf types are lawful", "derive output is lawful over lawful fields"],
        "technique": "static impl-provenance and sibling-agreement analysis of the comparison/hash trait impls on type-checked MIR",
        "level_text": "Decides the structural necessary-and-sufficient condition for the order laws given lawful leaves: all five impls of every "
                      "key type come from one definition. Does not execute comparisons.",
        "level_note": "Trusted: lawfulness of std/chrono leaf impls and of #[derive] output; f64::total_cmp is a total order.",
    },
    "C06": {
        "modules": ["rules_c06"],
        "explanation": 'Must-pass-through (edge dominance) on the MIR CFG of the three per-line entry points of ExecutionEngine: every call into the select/aggregate/join engines and every write through self is dominated by the true edge of the branch on Row::any_result() applied (provenance-checked) to the row that TableDefinition::extract returned for this line; who-may-call rule for extract; structural check of the admission predicate (any_result body; NOT NULL cut in extract clears the row on every path from the cut edge; NULL test applied after DEFAULT substitution); join file routed through the same entry; LIMIT counter written only in update_limit. A Value::Bool is built in extract_using_regex only where the result of the pattern was found, so a line no pattern matches has no value in any column.',
        "trusted": ["rustc nightly MIR + trait resolution", "dependencies behave as documented"],
        "technique": 'static must-pass-through / edge-dominance analysis on MIR CFGs (helper functions inlined), effect (inert-field) analysis, who-may-call over the resolved call graph, path enumeration of the admission predicate and the NOT NULL cut',
        "level_text": 'Decides the structural clause: no path lets a non-admitted line reach engine state, and the admission predicate has the stated shape; the behavioural invariance under noise insertion follows given purity of extraction (C01). Exhaustive over all paths of the anchored functions.',
        "level_note": 'Trusted: MIR of the nightly front end; extraction purity (C01.pure); pure-callee list in rules_c06.py.',
    },
    "C12": {
        "modules": ["rules_c12"],
        "explanation": "Path and type rules on the MIR of FileExecutor::execute and JoinedTableData::execute: the line loop iterates io::Lines<BufReader<File>> (type read from resolved generic arguments) with no iterator/reader adapter; the Err item of the iterator reaches an error return through Try::branch/FromResidual (or the loop continues), never a silent loop exit; on the Ok path every CFG path from the item back to the loop header passes through the single ExecutionEngine::execute call whose line argument is (by backward provenance) this iteration's item, moved unmodified; the reader list is built order-preservingly.",
        "trusted": ["rustc nightly MIR + trait resolution", "dependencies behave as documented"],
        "technique": 'static path (must-pass-through), provenance and resolved-type rules on MIR CFGs of the two input loops',
        "level_text": "Decides the structural clauses (no adapter, no silent error exit, one execute per item on every path, order-preserving construction). The behaviour of BufRead::lines itself (CRLF, last line) is std's and trusted.",
        "level_note": 'Trusted: std::io::Lines semantics; MIR of the nightly front end.',
    },
    "C19": {
        "modules": ["rules_c19"],
        "explanation": 'CFG rules on the MIR of FileExecutor::execute, FollowFileExecutor::execute and JoinedTableData::execute: the AtomicBool::load of the running flag (receiver provenance-checked) lies after the line is read, its running==true edge dominates ExecutionEngine::execute and OutputPrinter::print of that line, from its false edge no input-consuming call is reachable, the interrupt path constructs no Err and still passes the final aggregate result/print; constant extraction of the sampling interval in the join loader (<= 10); who-may-write enumeration of all atomic stores in lib and bin. No line is executed or printed after execute_joined_table (which returns quietly, half loaded, on an interrupt) without the flag sampled in between.',
        "trusted": ["rustc nightly MIR + trait resolution", "dependencies behave as documented"],
        "technique": 'static path-fact (path-sensitive guard) analysis, reachability and who-may-write rules on MIR with local helpers inlined',
        "level_text": 'Decides where the flag is sampled relative to reading/executing/printing on every path, and who writes it. Signal timing and the prefix relation are not decided.',
        "level_note": 'Trusted: MIR of the nightly front end; SeqCst atomics behave as documented.',
    },
    "C07": {
        "modules": ["rules_c07"],
        "explanation": "CFG and who-may-read rules on the MIR of both executors and ExecutionEngine::{execute, update_limit}: from the reached_limit edge no input-consuming call is reachable (all loops are left); reached_limit is tested on every path from executing a line back to the loop header; the counter is fed from Vec::len of the emitted rows (no filtered count); execute_select is reached only through `limit is None` or `num_output_rows < limit` and the rows of one line are truncated before being counted; the batch aggregate table is cut in ExecutionEngine::execute, and no other function of the execution engines reads the statement's limit. The optional LIMIT is never collapsed into a plain number by a default other than usize::MAX (no sentinel that a legitimate LIMIT n could equal). An update-only aggregate line (batch mode) reaches neither a writer of the LIMIT counter nor with_reached_limit.",
        "trusted": ["rustc nightly MIR + trait resolution", "dependencies behave as documented"],
        "technique": 'static reachability, edge-dominance, callee-shape and who-may-read rules on MIR',
        "level_text": "Decides the mechanism clauses (loop exit, pre-test, truncation, counting, single place of application). The two-run relation 'first n of the unlimited result' is not decided.",
        "level_note": 'Trusted: MIR of the nightly front end.',
    },
    "C10": {
        "modules": ["rules_c10"],
        "explanation": 'Abstract interpretation of FollowFileIterator::next on its MIR: every acyclic path of one loop iteration is executed over a symbolic content domain (sequences of pending(field) and read#i atoms, with aliasing of borrows, take/replace/clone/append/clear/pop transfer functions and correlation of repeated ends_with tests) and checked for content conservation: retry keeps pending+read once and in order, delivery yields pending+read minus exactly one newline that a dominating test proved present, carries are empty afterwards, None only on a read error. Plus: the accumulating read is byte-level; the --head/--tail seek arms; the executor feeds each delivered item once, unmodified, to the engine.',
        "trusted": ["rustc nightly MIR + trait resolution", "dependencies behave as documented"],
        "technique": "abstract interpretation (symbolic content domain) over all acyclic MIR paths of the iterator's loop body; arm/constant and provenance rules",
        "level_text": "Decides the buffer mechanism that every writer/reader schedule relies on, for all paths of the iterator; the interleaving quantifier itself and BufReader's EOF behaviour (std) are not enumerated.",
        "level_note": 'Trusted: std BufReader::read_until semantics at EOF; MIR of the nightly front end; transfer-function table for std String/Vec APIs in rules_c10.py.',
    },
    "C08": {
        "modules": ["rules_c08"],
        "explanation": 'Must-pass-through rules on the MIR of SelectExecutionEngine::execute and AggregateExecutionEngine::execute_result: every emission (Row::new / push of a result Row) is reachable only through the distinct==false edge or the DistinctValues::add(..)==true edge (edge-cut reachability, so a test nested under HAVING is detected), a duplicate is never emitted, the tuple tested is the tuple emitted (provenance), the aggregate DISTINCT memory is local to one result table; DistinctValues::add is contains-then-insert on a HashSet whose element type (resolved generic argument) is the whole Vec<Value> tuple and returns false/true accordingly. The hand-written Eq / Ord / Hash of the REAL wrapper are re-decided here (one canonical key), because `same tuple` in the DISTINCT hash set is Value`s Eq found through Value`s Hash.',
        "trusted": ["rustc nightly MIR + trait resolution", "dependencies behave as documented"],
        "technique": 'static path-fact analysis (every path to an emission satisfies distinct==false or add()==true), must-pass-through, provenance and resolved-type rules on MIR with local helpers inlined',
        "level_text": "Decides the structural clauses of DISTINCT (where the test sits, what it is applied to, what the set stores). Value equality itself is C16's subject.",
        "level_note": 'Trusted: std HashSet semantics; MIR of the nightly front end.',
    },
    "C11": {
        "modules": ["rules_c11"],
        "explanation": 'Composition, arm-table and effect rules on MIR: AggregateExecutionEngine::execute is execute_update followed, exactly when it returned true, by execute_result; ExecutionEngine::execute dispatches the three aggregate entry points under the (update,result) guard table read from the dominating branches on config fields; effect analysis of the result phase: every &mut borrow of an engine field in execute_result goes to a listed repeatable use (iter_mut for update_value, get_group followed by an overwrite), update_value only sorts, no reachable callee writes through &mut self; the SELECT path reads no config; ExecutionOutput constructors store the result row unmodified.',
        "trusted": ["rustc nightly MIR + trait resolution", "dependencies behave as documented"],
        "technique": 'static effect (write-set) analysis of the result phase, guard-table extraction and composition checks on MIR',
        "level_text": 'Decides the state discipline that makes follow and batch runs execute the same computation; equality of the produced tables is not compared.',
        "level_note": 'Trusted: MIR of the nightly front end; listed repeatable uses in rules_c11.py.',
    },
    "C17": {
        "modules": ["rules_c17"],
        "explanation": "Path counting and arm-table rules on MIR: over all acyclic paths of the row loop of OutputPrinter::print the number of Printer::println calls is exactly 1 (0+2 on the CSV first-line edge), after the loop at most one separator guarded by multiple_rows && !single_result; first_line typestate (constructor true, cleared on every row path, single reader); in the three format closures the value index is the unmodified enumerate index; Value::json_value arm table (variant -> JSON kind, no coercing cast, no wildcard, recursion on array elements); records serialised by serde_json::to_string on a Map and the preserve_order feature read from Cargo.toml; FileExecutor prints each line's result at most once. Names: the iterators the format closures are mapped over start at ResultRow.columns and the JSON key is that element cloned.",
        "trusted": ["rustc nightly MIR + trait resolution", "dependencies behave as documented"],
        "technique": 'static path counting over acyclic MIR paths, path-fact guard analysis, variant-to-JSON-kind table from path facts, provenance of indexes, build-configuration check (MIR with local helpers inlined)',
        "level_text": 'Decides record multiplicity, header typestate, name/value pairing and the JSON kind mapping on every path. Number/escape fidelity inside serde_json and Display formats are not decided.',
        "level_note": 'Trusted: serde_json serialisation; MIR of the nightly front end.',
    },
    "C13": {
        "modules": ["rules_c13"],
        "explanation": "Constant and shape extraction from the MIR of the table-driven parser: the (operator, precedence) pairs of BinaryOperators::new (operator aggregate and BinaryOperator::new argument of each insert call) and the constants returned per token variant by Parser::get_token_precedence are checked against the property's ordering chain; the climbing loop's two comparisons are '<' and the right operand is parsed at token_precedence + 1; the constant levels at which parse_unary_operator parses the operands of NOT and unary minus lie in the required intervals of the extracted table; every construction of Operator::Dual in the tokenizer is dominated by a test that constrains the second character; the IN arms have no ExpectedTuple rejection. Every iteration of the climbing loop reads its right side with the operand parser; an iteration that bypasses it calls no parser routine that can advance behind a test for `[`.",
        "trusted": ["rustc nightly MIR + trait resolution", "dependencies behave as documented"],
        "technique": 'static constant extraction through path facts, semantic normalisation of the two precedence comparisons, edge-cut reachability and arm-table rules on MIR of the tokenizer / parser',
        "level_text": 'Decides that the precedence tables, the climbing loop and the prefix levels realise the stated precedence and associativity, and that operator fusion is constrained. That table-driven climbing equals the reference grammar given a correct table is the standard result, not re-proved.',
        "level_note": 'Trusted: MIR of the nightly front end.',
    },
    "C20": {
        "modules": ["rules_c20"],
        "explanation": 'Sibling-agreement and shape rules on the MIR of the tokenizer, parser and converter: every name-lookup site (HashMap::get / HashSet::contains on the static keyword/function/aggregate tables, ValueType::from_str, string equality between a literal and a non-literal) has an operand whose backward provenance passes through to_lowercase; the clause dispatch of parse_select (WHERE/INNER/OUTER/GROUP/HAVING/LIMIT arms read from the Keyword discriminant switch) sits in one loop and every arm returns to it; the statement types carry no TokenLocation; characters inside string literals are pushed unmodified and no case folding precedes the literal branch. Token-list rule: tokenize only appends tokens, rewrites the last token only into IS NOT / NOT IN / :: / => / a two-character operator, and removes a token only behind `last token is the operator --` (comment start). No cut of the input text in tokenize is addressed by a counter that advances by one per character (byte offsets and character counts differ for non-ASCII text in comments / literals).',
        "trusted": ["rustc nightly MIR + trait resolution", "dependencies behave as documented"],
        "technique": 'static provenance (def-use) analysis of lookup operands, arm-table / loop-membership rule, type-containment rule on MIR',
        "level_text": 'Decides the structural necessary conditions: no case-sensitive name lookup, order-free clause dispatch, no layout data in statements, verbatim literals. The relation between pairs of texts is not compared.',
        "level_note": 'Trusted: MIR of the nightly front end; identifier-vs-identifier comparisons (table/column names) are case-sensitive by design.',
    },
    "C01": {
        "modules": ["rules_c01"],
        "explanation": "Rules on the MIR of the extraction subgraph rooted at TableDefinition::extract: site inventory (no narrowing cast / unchecked arithmetic / panic-capable construct on captured values); provenance of the group and pattern lookups (unmodified group_index / pattern_name of the column's reference); who-may-call rule for the regex API (captures, split, Captures::get, Match::as_str only; split collected completely); writer/reader agreement for the five column options (each read in the subgraph, TRIM controls str::trim, DEFAULT reaches the lookup); arm table of ValueType::parse (std FromStr of the declared type, no wildcard, no cast) and BOOLEAN = Option::is_some on both arms; purity of the subgraph (no write through arguments, no interior mutability).",
        "trusted": ["rustc nightly MIR + trait resolution", "dependencies behave as documented"],
        "technique": 'static site inventory, def-use provenance, who-may-call, arm-table and purity (effect) rules on MIR',
        "level_text": 'Decides the structural clauses: which group a value is read from, that it is not cast/wrapped, which regex API is applied, that options take effect and that extraction is pure. The converted values themselves (regex engine, std parsers, chrono) are trusted.',
        "level_note": 'Trusted: regex leftmost-match semantics, std FromStr, chrono date validation; MIR of the nightly front end.',
    },
    "C02": {
        "modules": ["rules_c02"],
        "explanation": "Arm-table and provenance rules on MIR: ValueType::convert_from_json maps every declared type to the serde_json accessor of the same kind (callee set per arm, no numeric cast, no wildcard, element-wise recursion for arrays); in the JSON arm of ColumnParsing::extract DEFAULT is applied only on the path-absent edge of get_value and the CONVERT branch goes as_str -> ValueType::parse while the other goes convert_from_json; JsonAccess::get_value follows Field steps with Value::get(name) and Array steps with as_array + get(index) with the step's own unmodified name/index, recursing on the inner step, and uses no other serde_json accessor; the per-line JSON parse happens once, outside any loop, under any_json_columns, and is consumed by unwrap_or(Null). Every non-NULL value convert_from_json produces lies under exactly one declared type and wraps a JSON value whose kind was established by the matching accessor or a match on the serde_json variant; the per-line parsing input is only shared-borrowed in the extraction subgraph (no &mut ParsingInput / &mut serde_json::Value parameter, no &mut borrow in the column loop), so one column cannot change what the next one reads. Inside the column loop the row being built is write-only (push / len / reserve): no column's value is read back from it.",
        "trusted": ["rustc nightly MIR + trait resolution", "dependencies behave as documented"],
        "technique": 'static arm-table extraction, def-use provenance and who-may-call rules on MIR',
        "level_text": "Decides the structural clauses (which accessor per type, no coercion, how the path is walked, when DEFAULT applies, totality of the parse). serde_json's own number model and parser are trusted.",
        "level_note": 'Trusted: serde_json accessors behave as documented; MIR of the nightly front end.',
    },
    "C03": {
        "modules": ["rules_c03"],
        "explanation": 'Rules on the MIR of ExpressionExecutionEngine::evaluate and SelectExecutionEngine::execute: site inventory rooted at evaluate (no unchecked arithmetic, narrowing cast or panicking call on evaluated data; guards re-proved); exhaustiveness of the top-level match (no wildcard); CompareOperator -> comparison primitive arm table with operand order checked by provenance (left, right), accepting the spelling through one Ordering; NULL-test dominance of the comparison dispatch and of the IN element comparison; ArithmeticOperator -> checked_add/sub/mul/div (INT closure, no raw integer operator) and + - * / (REAL closure); AND / OR short-circuit shape; `*` expanded from ColumnProvider::keys, exactly one push per projection on every path, one Row per call. A cast parses the operand`s own text: the string handed to ValueType::parse has, by backward provenance, no string-transforming call on the way. Literals: an ExpressionTree::Value built by the converter wraps the parse tree`s own value with no function in between. Consumers of ColumnProvider::get in the execution modules never turn None (unknown column) into a value.',
        "trusted": ["rustc nightly MIR + trait resolution", "dependencies behave as documented"],
        "technique": 'static site inventory, arm-table extraction through closures, operand provenance and guard-dominance rules on MIR',
        "level_text": 'Decides the operator <-> primitive tables, NULL guards, error discipline of arithmetic and the projection shape on every path. Whether each function computes its documented value is not decided.',
        "level_note": "Trusted: std comparison/arithmetic primitives; Value's derived order (C16); MIR of the nightly front end.",
    },
    "C05": {
        "modules": ["rules_c05"],
        "explanation": 'Rules on the MIR of join.rs and the converter: error discipline (results of File::open, get_table, index_for and the per-line execute reach the caller through Try::branch/FromResidual and are not swallowed by ok()/unwrap_or); the join index insert and lookup are dominated by a NOT NULL test of the key; in execute_join every partner row yields exactly one execute call and one merge on every path back to the loop header (path counting), the loop is left early only by error returns, partners are traversed as a plain slice of a Vec<Row> bucket; the OUTER row is vec![NULL; number of joined columns] on the no-partner arm under is_outer && allow_outer; transform_join maps both ON orientations consistently (field provenance of the two JoinClause constructions). The joined table is loaded in execute_joined_table on every path with a join clause, by no other caller, and the per-line entry cannot reach the load (call graph), so a missing joined file / column is an error whatever the input contains. Order: the join module never sorts / reverses / dedups a container of rows. Line text: between reading a line of the joined file and ExecutionEngine::execute the text is only converted; a cut needs a dominating test for the terminator. FileExecutor::execute loads the joined table before its input loops on every path.',
        "trusted": ["rustc nightly MIR + trait resolution", "dependencies behave as documented"],
        "technique": 'static error-discipline (swallowed-result) analysis, path-fact guard analysis, path counting, key-provenance (lossy conversion) and field-type rules on MIR with local helpers inlined',
        "level_text": 'Decides the structural clauses of the join mechanism (errors reported, NULL keys excluded, every pair executed and merged once in file order, outer row shape, side mapping). The resulting set of pairs as values is not computed.',
        "level_note": 'Trusted: std HashMap/Vec semantics; MIR of the nightly front end.',
    },
    "C04": {
        "modules": ["rules_c04"],
        "explanation": "Rules on the MIR of aggregate_execution.rs: path counting shows that every per-column loop over the group table pushes exactly one value per group on every path (rectangular result table); the group table's field types are BTreeMap<GroupKey,..> and NULL is the first variant of Value's derived Ord; every group access in update_aggregate is addressed by (group_key.clone(), aggregate_index) unmodified (provenance); the HAVING aggregate index aggregates.len()+k is computed identically by its writer and its reader; MIN/MAX compare through Value's order for every type (no numeric-only fold); GroupAggregator::is_null only tests the running values for NULL; COUNT adds the constant 1. GroupAggregator::update_value constructs Some(value) only behind a test of the accumulated state (or hands on the Option of an accessor), so an aggregator without input publishes nothing. MIN / MAX store the row's value only on paths where it was established non-NULL (path facts). The HAVING row: accept_group fills the GroupKey scope only from parts of the group's key and the GroupValue scope only from the group's aggregate values.",
        "trusted": ["rustc nightly MIR + trait resolution", "dependencies behave as documented"],
        "technique": 'static path counting, type/impl facts, argument provenance, sibling agreement and arm-table rules on MIR',
        "level_text": 'Decides the structural clauses (rectangularity, ordering container, group isolation, index agreement, type coverage of MIN/MAX). Numerical values of aggregate cells are not computed. One engine limit pinned by the existing tests (groups without any aggregate entry are not shown) is a recorded known finding.',
        "level_note": 'Trusted: std BTreeMap ordering; derived Ord of Value (C16); MIR of the nightly front end.',
    },
    "C15": {
        "modules": ["rules_c15"],
        "explanation": "Only the structural necessary conditions of order-insensitivity are decided, on the MIR of aggregate_execution.rs: the MIN/MAX fold compares through Value's order for every value type (a fold that silently ignores a type keeps the first value seen, i.e. depends on arrival order); the running sum is sum + value for INT (checked), REAL and INTERVAL (checked); a lazily created aggregator depends on the first value only through default_value() (its type); PERCENTILE sorts before indexing and COUNT(DISTINCT) inserts into a HashSet<Value>. MIN / MAX lean on one total order: the REAL wrapper's partial_cmp builds no None and answers only what cmp said (same analysis as C16.float, re-decided under C15.order).",
        "trusted": ["rustc nightly MIR + trait resolution", "dependencies behave as documented"],
        "technique": 'static arm-table / callee-shape and argument-provenance rules on MIR (necessary conditions only)',
        "level_text": 'Decides necessary structural conditions: no fold keeps or seeds from the first value, and order-erasing containers are used. The algebraic law over runtime values (every permutation / partition gives the same table) is not decided by static analysis.',
        "level_note": "Trusted: std sort / HashSet; Value's order (C16); MIR of the nightly front end.",
    },
}
