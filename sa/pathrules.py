"""P-DOM helpers shared by the path rules (C06, C07, C08, C10, C12, C17, C19)."""
import re
from .prog import short, place_fields
from . import flow as F


def calls_matching(fn, pattern):
    rx = re.compile(pattern) if isinstance(pattern, str) else pattern
    return [c for c in fn.calls if rx.search(short(c.name))]


def origin_has_call(fn, op, pattern, depth=10):
    rx = re.compile(pattern) if isinstance(pattern, str) else pattern
    for o in F.origins(fn, op, depth):
        if o.kind == "call" and rx.search(short(o.call.name)):
            return o.call
    return None


def bool_guard(fn, call):
    """the switch testing the bool result of `call`: returns (switch_bb, true_target, false_target) or None.
    Handles negation (`!x`)."""
    if call.dest is None:
        return None
    dl = call.dest["l"]
    for sw in sorted(fn.reach):
        t = fn.blocks[sw]["term"]
        if t["k"] != "switch" or t["discr"].get("ty") != "bool":
            continue
        pos = True
        cur = t["discr"]
        ok = False
        for _ in range(4):
            if cur["k"] in ("copy", "move") and cur["pl"]["l"] == dl and not cur["pl"]["p"]:
                ok = True
                break
            os_ = F.origins(fn, cur, depth=2, through_calls=False)
            if len(os_) == 1 and os_[0].kind == "unop" and os_[0].extra == "Not":
                pos = not pos
                cur = os_[0].place
                continue
            if len(os_) == 1 and os_[0].kind == "call" and os_[0].call is call:
                ok = True
            break
        if not ok:
            continue
        zero = [b for v, b in t["targets"] if v == "0"]
        if not zero:
            continue
        f_t, t_t = zero[0], t["otherwise"]
        if not pos:
            f_t, t_t = t_t, f_t
        return (sw, t_t, f_t)
    return None


def discr_guard(fn, call, variant):
    """switch on the discriminant of the result of `call` (Option/Result): returns (switch_bb, target for `variant`, other targets)"""
    if call.dest is None:
        return None
    for sw in sorted(fn.reach):
        info = F.switch_info(fn, sw)
        if not info or info[0] != "discr":
            continue
        kind, rv, targets = info
        hit = False
        for o in F.origins(fn, rv["pl"], depth=8):
            if o.kind == "call" and o.call is call:
                hit = True
        if not hit:
            continue
        tgt = None
        others = []
        names = {dv: n for dv, n in rv.get("variants", [])}
        listed = set()
        for lab, b in targets.items():
            if lab == "otherwise":
                continue
            listed.add(names.get(lab))
            if names.get(lab) == variant:
                tgt = b
            else:
                others.append(b)
        rest = [n for n in names.values() if n not in listed]
        unreachable_otherwise = fn.blocks[targets["otherwise"]]["term"]["k"] == "unreachable"
        if tgt is None and variant in rest and len(rest) == 1:
            tgt = targets["otherwise"]
        elif not unreachable_otherwise:
            others.append(targets["otherwise"])
        if tgt is not None:
            return (sw, tgt, others)
    return None


def dominated_by_edge(fn, bb, sw, tgt):
    """bb lies in the region of edge sw->tgt (tgt has sw as only predecessor and dominates bb)"""
    return F.edge_target_unique(fn, sw, tgt) and fn.dominates(tgt, bb)


def all_paths_hit(fn, start, hit_blocks, stop_blocks=None):
    """every path from `start` to a function exit (or a stop block) passes through one of hit_blocks"""
    hit = set(hit_blocks)
    if start in hit:
        return True, None
    reach = fn.reachable_from(start, avoid=hit)
    ends = set(fn.exits()) | set(stop_blocks or ())
    bad = sorted(reach & ends)
    return (not bad), (bad[0] if bad else None)


def self_writes(fn):
    """(bb, description, line) of statements that write through the first argument (`self`) or borrow it mutably"""
    res = []
    for i, s in fn.stmts():
        if s["k"] != "assign":
            continue
        pl = s["pl"]
        if pl["l"] == 1 and pl["p"]:
            res.append((i, "assignment to self." + ".".join(place_fields(pl)), s["line"]))
        rv = s["rv"]
        if rv["k"] == "ref" and rv["bk"] == "mut" and rv["pl"]["l"] == 1 and len(rv["pl"]["p"]) > 1:
            res.append((i, "&mut self." + ".".join(place_fields(rv["pl"])), s["line"]))
    return res


def loop_of(fn, bb):
    """innermost natural loop (header, body) containing bb"""
    cands = [(h, body) for h, body in fn.loops().items() if bb in body]
    if not cands:
        return None
    return min(cands, key=lambda x: len(x[1]))


def field_reads(fn, field):
    """blocks+statements that read a place whose projection contains the named field"""
    res = []
    for i, s in fn.stmts():
        if s["k"] != "assign":
            continue
        rv = s["rv"]
        pls = []
        if rv["k"] in ("use", "cast") and rv["op"]["k"] in ("copy", "move"):
            pls.append(rv["op"]["pl"])
        if rv["k"] in ("ref", "copy_for_deref", "discr"):
            pls.append(rv["pl"])
        if rv["k"] == "unop" and rv["o"]["k"] in ("copy", "move"):
            pls.append(rv["o"]["pl"])
        for pl in pls:
            if field in place_fields(pl):
                res.append((i, s))
    # switch directly on a field
    for i in sorted(fn.reach):
        t = fn.blocks[i]["term"]
        if t["k"] == "switch" and t["discr"]["k"] in ("copy", "move") and field in place_fields(t["discr"]["pl"]):
            res.append((i, {"switch": True, "line": t["span"]["line"]}))
    return res


def all_paths_hit_flags(fn, start, hit_blocks, stop_blocks=None):
    """like all_paths_hit, but path-sensitive on boolean locals that are only ever assigned constants along the path:
    a branch on such a flag follows only the feasible edge (so `valid = false; ...; if !valid { clear }` is understood)."""
    hit = set(hit_blocks)
    ends = set(fn.exits()) | set(stop_blocks or ())
    bool_locals = set(l for l, d in enumerate(fn.locals) if d["ty"] == "bool")

    def step_state(state, b):
        st = dict(state)
        for s in fn.blocks[b]["stmts"]:
            if s["k"] != "assign" or s["pl"]["p"]:
                continue
            l = s["pl"]["l"]
            if l not in bool_locals:
                continue
            rv = s["rv"]
            if rv["k"] == "use" and rv["op"]["k"] == "const" and rv["op"].get("v") in ("true", "false"):
                st[l] = rv["op"]["v"] == "true"
            elif rv["k"] == "use" and rv["op"]["k"] in ("copy", "move") and not rv["op"]["pl"]["p"] and rv["op"]["pl"]["l"] in st:
                st[l] = st[rv["op"]["pl"]["l"]]
            elif rv["k"] == "unop" and rv["op"] == "Not" and rv["o"]["k"] in ("copy", "move") and not rv["o"]["pl"]["p"] and rv["o"]["pl"]["l"] in st:
                st[l] = not st[rv["o"]["pl"]["l"]]
            else:
                st.pop(l, None)
        t = fn.blocks[b]["term"]
        if t["k"] == "call" and t["dest"] is not None and not t["dest"]["p"]:
            st.pop(t["dest"]["l"], None)
            # a &mut borrow of a flag handed to a call makes it unknown: conservatively drop flags whose address is taken in this block
        for s in fn.blocks[b]["stmts"]:
            if s["k"] == "assign" and s["rv"]["k"] == "ref" and s["rv"]["bk"] == "mut" and not s["rv"]["pl"]["p"]:
                st.pop(s["rv"]["pl"]["l"], None)
        return st

    seen = set()
    work = [(start, ())]
    while work:
        b, stt = work.pop()
        if (b, stt) in seen:
            continue
        seen.add((b, stt))
        if b in hit:
            continue
        if b in ends:
            return False, b
        st = step_state(dict(stt), b)
        t = fn.blocks[b]["term"]
        succs = fn.succs(b)
        if t["k"] == "switch" and t["discr"]["k"] in ("copy", "move") and not t["discr"]["pl"]["p"] and t["discr"]["pl"]["l"] in st:
            val = st[t["discr"]["pl"]["l"]]
            zero = [bb for v, bb in t["targets"] if v == "0"]
            succs = [t["otherwise"]] if val else zero
        key = tuple(sorted(st.items()))
        for y in succs:
            work.append((y, key))
    return True, None


def field_bool_switches(fn, field):
    """switches that test a bool field (directly, through a copy, or negated): [(switch_bb, true_target, false_target)]"""
    out = []
    cands = {}
    for (bb, st) in field_reads(fn, field):
        if isinstance(st, dict) and st.get("switch"):
            t = fn.blocks[bb]["term"]
            zero = [b for v, b in t["targets"] if v == "0"]
            if zero:
                out.append((bb, t["otherwise"], zero[0]))
            continue
        cands[st["pl"]["l"]] = True
    # propagate through copies and Not
    changed = True
    while changed:
        changed = False
        for i, st in fn.stmts():
            if st["k"] != "assign" or st["pl"]["p"] or st["pl"]["l"] in cands:
                continue
            rv = st["rv"]
            if rv["k"] == "use" and rv["op"]["k"] in ("copy", "move") and not rv["op"]["pl"]["p"] and rv["op"]["pl"]["l"] in cands:
                cands[st["pl"]["l"]] = cands[rv["op"]["pl"]["l"]]
                changed = True
            elif rv["k"] == "unop" and rv["op"] == "Not" and rv["o"]["k"] in ("copy", "move") and not rv["o"]["pl"]["p"] and rv["o"]["pl"]["l"] in cands:
                cands[st["pl"]["l"]] = not cands[rv["o"]["pl"]["l"]]
                changed = True
    for sw in sorted(fn.reach):
        t = fn.blocks[sw]["term"]
        if t["k"] == "switch" and t["discr"]["k"] in ("copy", "move") and not t["discr"]["pl"]["p"] and t["discr"]["pl"]["l"] in cands \
                and t["discr"].get("ty") == "bool":
            zero = [b for v, b in t["targets"] if v == "0"]
            if not zero:
                continue
            pos = cands[t["discr"]["pl"]["l"]]
            tt, ft = (t["otherwise"], zero[0]) if pos else (zero[0], t["otherwise"])
            if not any(o[0] == sw for o in out):
                out.append((sw, tt, ft))
    return out


_PINNED = None


def pinned_fns():
    """named functions that existed on the pinned tree (tables/pinned_fns.json)"""
    global _PINNED
    if _PINNED is None:
        import json, os
        try:
            with open(os.path.join(os.path.dirname(os.path.dirname(os.path.abspath(__file__))), "tables", "pinned_fns.json")) as fh:
                _PINNED = set(json.load(fh)["fns"])
        except Exception:
            _PINNED = set()
    return _PINNED


def pinned_owner(P, f, hops=3):
    """the function of the pinned tree a piece of code belongs to: a closure belongs to its parent; a helper that did not exist on the
    pinned tree belongs to the function it is (only) called from - the function it was carved out of"""
    owner = f
    while owner.kind == "Closure" and owner.parent_key in P.fns:
        owner = P.fns[owner.parent_key]
    pinned = pinned_fns()
    n = 0
    while pinned and owner.spath not in pinned and n < hops:
        callers = set()
        for h in P.fns.values():
            if h.target == owner.target and any(owner.key in P.callee_keys(h, c) for c in h.calls):
                o2 = h
                while o2.kind == "Closure" and o2.parent_key in P.fns:
                    o2 = P.fns[o2.parent_key]
                if o2.key != owner.key:
                    callers.add(o2.key)
        if len(callers) != 1:
            break
        owner = P.fns[next(iter(callers))]
        n += 1
    return owner


def desugared(P, fv):
    """the view with Option / Result / bool combinators rewritten into the matches they stand for (closure bodies spliced in); cached"""
    from . import inline as I
    cache = P.__dict__.setdefault("_desugared", {})
    k = id(fv)
    if k not in cache:
        cache[k] = (fv, I.desugar(P, fv))
    return cache[k][1]


def view(P, f, keep=None, hold=None):
    """f with local helper functions inlined (cached).
    keep = regex of callees the rule wants to keep as calls: everything else that is helper-like is inlined.
    keep = None ("auto"): exactly the functions that did not exist on the pinned tree are inlined - a helper extracted by a later
    refactoring disappears from the rule's point of view, while every function the rules know by name stays a call."""
    from . import inline as I
    cache = P.__dict__.setdefault("_views", {})
    k = (f.key, keep, hold)
    hold_rx = re.compile(hold) if hold else None
    if k not in cache:
        if keep is None:
            pinned = pinned_fns()
            base = I.helper_like(P, None, max_blocks=400, allow_recursive=True)   # one (bounded) unfolding of a new helper that calls back is fine
            sel = lambda g: base(g) and g.spath not in pinned and not (hold_rx and hold_rx.search(g.spath))
        else:
            pinned = pinned_fns()
            base = I.helper_like(P, keep)
            # new (unpinned) helpers are always looked through, also when they happen to match `keep` - except those in `hold`
            # (a function the rule discovered structurally and wants to see as a call)
            auto = I.helper_like(P, None, max_blocks=400, allow_recursive=True)
            sel = lambda g: (base(g) or (auto(g) and g.spath not in pinned)) and not (hold_rx and hold_rx.search(g.spath))
        v = I.inline(P, f, sel)
        cache[k] = v if v.inlined else f
        if not hasattr(f, "inlined"):
            f.inlined = []
    return cache[k]


def closures_of(P, fv):
    """closure functions belonging to a view: those of the function itself and of every helper inlined into it (transitively)"""
    out, seen = [], set()
    roots = [fv.key] + [g.key for g in P.fns.values() if g.kind != "Closure" and g.spath in set(getattr(fv, "inlined", []) or [])]
    st = []
    for r in roots:
        st.extend(P.children.get(r, []))
    while st:
        ch = st.pop()
        if ch.key in seen:
            continue
        seen.add(ch.key)
        out.append(ch)
        st.extend(P.children.get(ch.key, []))
    return out


def facts(fn, relevant=None, tag=None):
    """path facts of fn (cached); `relevant` restricts the recorded facts (use a `tag` to cache a restricted analysis)"""
    from . import facts as FA
    cache = fn.__dict__.setdefault("_facts_cache", {})
    if tag not in cache:
        cache[tag] = FA.Facts(fn, relevant=relevant)
    return cache[tag]


def flag_reach(fn, start, env0=None, cap=200000, avoid=()):
    """blocks reachable from `start` when switches on *known* flags follow only their feasible edge.
    Known = a bool local last assigned a constant, an enum local last assigned a fieldless-or-not variant of a crate enum (an outcome
    enum such as `LineOutcome::Stop`), or such a value wrapped in Ok / Some / Continue and unwrapped again through `?`.
    This is what makes `let stop = ..; if stop { break }` and `match process_line()? { Stop => break, .. }` read like a direct break."""
    env0 = env0 or {}
    seen = set()
    out = set()
    work = [(start, tuple(sorted(env0.items(), key=lambda x: x[0])))]
    n = 0
    WRAP = ("Ok", "Some", "Continue")
    FAIL = ("Err", "None", "Break")
    avoid = set(avoid)

    def val_of(op, env):
        if op["k"] == "const":
            if op.get("v") in ("true", "false"):
                return ("const", op["v"] == "true")
            if "promoted" in op and op["promoted"] < len(fn.promoted):
                # a promoted constant such as `&FollowControl::Stop`
                for pb in fn.promoted[op["promoted"]]["blocks"]:
                    for ps in pb["stmts"]:
                        if ps["k"] == "assign" and ps["rv"]["k"] == "aggr" and ps["rv"].get("variant") and \
                                (ps["rv"].get("adt") or "").startswith("sqlgrep::") and not ps["rv"]["ops"]:
                            return ("variant", ps["rv"]["variant"])
            return None
        pl = op["pl"]
        v = env.get(pl["l"])
        if v is None:
            return None
        # payload projection: (x as Ok).0 unwraps one layer
        proj = [e for e in pl["p"] if isinstance(e, dict)]
        if not pl["p"]:
            return v
        if len(proj) == 2 and "d" in proj[0] and proj[0]["d"] in WRAP and "f" in proj[1] and v[0] == "wrap" and \
                all(isinstance(e, dict) for e in pl["p"]):
            return v[1]      # may be None: wrapped value unknown
        return None

    while work:
        b, envt = work.pop()
        if (b, envt) in seen:
            continue
        seen.add((b, envt))
        n += 1
        if n > cap:
            return None
        if b in avoid:
            continue
        out.add(b)
        env = dict(envt)
        for s in fn.blocks[b]["stmts"]:
            if s["k"] != "assign" or s["pl"]["p"]:
                continue
            l = s["pl"]["l"]
            rv = s["rv"]
            k = rv["k"]
            v = None
            if k == "use":
                v = val_of(rv["op"], env)
            elif k in ("ref", "copy_for_deref") and not [e for e in rv["pl"]["p"] if e != "*"]:
                v = env.get(rv["pl"]["l"])       # a borrow of a known value is that value (read-only use)
            elif k == "unop" and rv["op"] == "Not":
                x = val_of(rv["o"], env)
                v = ("const", not x[1]) if x and x[0] == "const" else None
            elif k == "aggr" and rv.get("ak") == "adt" and rv.get("variant"):
                if rv["variant"] in WRAP and len(rv["ops"]) == 1:
                    x = val_of(rv["ops"][0], env)
                    v = ("wrap", x) if x is not None else ("wrap", None)
                elif rv["variant"] in FAIL and (rv.get("adt") or "").startswith("core::"):
                    v = ("fail",)
                elif (rv.get("adt") or "").startswith("sqlgrep::"):
                    v = ("variant", rv["variant"])
            if v is None:
                env.pop(l, None)
            else:
                env[l] = v
        t = fn.blocks[b]["term"]
        succs = fn.succs(b)
        if t["k"] == "call" and t.get("dest") is not None and not t["dest"]["p"]:
            dl = t["dest"]["l"]
            nm = short(t["func"].get("res_path") or t["func"].get("path") or "")
            if nm.endswith("Try>::branch") and t["args"]:
                x = val_of(t["args"][0], env)
                if x is not None:
                    env[dl] = x
                else:
                    env.pop(dl, None)
            elif nm.endswith("::from_residual"):
                env[dl] = ("fail",)        # the `?` error path builds the Err / None that is returned
            elif F.TRANSPARENT.search(nm) and t["args"] and not re.search(r"::(map|and_then|filter|take)$", nm):
                x = val_of(t["args"][0], env)
                if x is not None and x[0] in ("wrap", "fail", "variant"):
                    env[dl] = x
                else:
                    env.pop(dl, None)
            elif re.search(r"PartialEq(<.*>)?>?::(eq|ne)$", nm) and len(t["args"]) == 2:
                a_, b_ = val_of(t["args"][0], env), val_of(t["args"][1], env)
                if a_ is not None and b_ is not None and a_[0] == "variant" and b_[0] == "variant":
                    same = a_[1] == b_[1]
                    env[dl] = ("const", same if nm.endswith("eq") else not same)
                else:
                    env.pop(dl, None)
            else:
                env.pop(dl, None)
        if t["k"] == "switch":
            d = t["discr"]
            v = None
            if d["k"] in ("copy", "move"):
                if d.get("ty") == "bool":
                    v = val_of(d, env)
                else:
                    # discriminant temp: find `d = discriminant(place)` in this block
                    for s in fn.blocks[b]["stmts"]:
                        if s["k"] == "assign" and s["pl"]["l"] == d["pl"]["l"] and s["rv"]["k"] == "discr":
                            src = s["rv"]["pl"]
                            base = env.get(src["l"]) if not [e for e in src["p"] if e != "*"] else None
                            names = {dv: nme for dv, nme in s["rv"].get("variants", [])}
                            if base is not None and base[0] == "variant":
                                v = ("label", [lab for lab, nme in names.items() if nme == base[1]])
                            elif base is not None and base[0] == "wrap":
                                v = ("label", [lab for lab, nme in names.items() if nme in WRAP])
                            elif base is not None and base[0] == "fail":
                                v = ("label", [lab for lab, nme in names.items() if nme in FAIL])
            if v is not None and v[0] == "const":
                zero = [bb for val, bb in t["targets"] if val == "0"]
                succs = [t["otherwise"]] if v[1] else zero
            elif v is not None and v[0] == "label" and v[1]:
                tg = [bb for val, bb in t["targets"] if val in v[1]]
                succs = tg if tg else [t["otherwise"]]
        key = tuple(sorted(env.items(), key=lambda x: x[0]))
        for y in succs:
            if y in fn.succs(b):
                work.append((y, key))
    return out
