"""C15 — order-insensitive aggregates ignore line order and input split (structural clause only)."""
from . import rules_c04


def run(R):
    rules_c04.run_c15(R)
    # MIN / MAX commute only if the comparison they fold with is one total order: partial_cmp (what `<` and `>` call) agrees with cmp
    from . import rules_c16
    rules_c16.float_key_agreement(R, "C15.order")
