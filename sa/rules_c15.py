"""C15 — order-insensitive aggregates ignore line order and input split (structural clause only)."""
from . import rules_c04


def run(R):
    rules_c04.run_c15(R)
