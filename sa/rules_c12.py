"""C12 — every line of every input file reaches the query exactly once, in order."""
import re
from .prog import short
from . import flow as F
from . import pathrules as PR
from . import rules_exec_loops as L

BUFREADER_FILE = "std::io::buffered::bufreader::BufReader<std::fs::File>"


LAYER = re.compile(r"^([A-Za-z0-9_:]+)<(.*)>$")
CLOSURE_AT = re.compile(r"\{closure@([^:]+):(\d+):(\d+): ")
PASS_THROUGH = re.compile(r"^core::result::Result::(map_err|or_else)$|^core::convert::Into::into$|^<.* as core::convert::From<.*>>::from$")


def _split_targs(sx):
    out, depth, cur = [], 0, ""
    for ch in sx:
        if ch in "<({[":
            depth += 1
        elif ch in ">)}]":
            depth -= 1
        if ch == "," and depth == 0:
            out.append(cur.strip())
            cur = ""
        else:
            cur += ch
    if cur.strip():
        out.append(cur.strip())
    return out


DYN_BUFREAD = "alloc::boxed::Box<dyn std::io::BufRead>"


def _dyn_bufread_closed(P):
    """every `Box<dyn BufRead>` of the program is a boxed BufReader<File> (unsizing coercions enumerated): a reader behind the trait
    object is still the std buffered file reader, whose `lines()` is the trusted line source"""
    srcs = set()
    for f in P.fns.values():
        for _, st in f.stmts():
            if st["k"] == "assign" and st["rv"]["k"] == "cast" and "Unsize" in str(st["rv"].get("ck")) and st["rv"].get("to") == DYN_BUFREAD:
                srcs.add(st["rv"].get("from"))
    return bool(srcs) and srcs <= {"alloc::boxed::Box<" + BUFREADER_FILE + ">", DYN_BUFREAD}


def _line_source_problem(P, ity):
    """None if the iterator type is io::Lines<BufReader<File>> under only Enumerate and Map layers whose closure passes the line through"""
    t = ity
    for _ in range(8):
        if t == "std::io::Lines<" + BUFREADER_FILE + ">":
            return None
        if t == "std::io::Lines<" + DYN_BUFREAD + ">" and _dyn_bufread_closed(P):
            return None
        m = LAYER.match(t)
        if not m:
            return "is not built on io::Lines<BufReader<File>>"
        head, inner = m.group(1), _split_targs(m.group(2))
        if head == "core::iter::adapters::enumerate::Enumerate" and len(inner) == 1:
            t = inner[0]
            continue
        if head == "core::iter::adapters::map::Map" and len(inner) == 2:
            cm = CLOSURE_AT.search(inner[1])
            cl = None
            if cm:
                for g in P.fns.values():
                    if g.kind == "Closure" and g.file == cm.group(1) and g.line == int(cm.group(2)) and g.raw["span"].get("col") == int(cm.group(3)):
                        cl = g
            if cl is None:
                return "is mapped through a function the engine cannot resolve"
            other = [short(c.name) for c in cl.calls if not PASS_THROUGH.search(short(c.name))]
            if other:
                return "is mapped through a closure that calls %s: the line may be altered before it reaches the query" % other[0]
            t = inner[0]
            continue
        if head == "core::iter::adapters::flatten::FlatMap" and len(inner) == 3:
            # files.into_iter().flat_map(|r| r.lines()): the concatenation of every file's lines in file order
            outer_ok = inner[0] == "alloc::vec::into_iter::IntoIter<" + BUFREADER_FILE + ">"
            inner_ok = inner[1] == "std::io::Lines<" + BUFREADER_FILE + ">"
            cm = CLOSURE_AT.search(inner[2])
            cl = None
            if cm:
                for g in P.fns.values():
                    if g.kind == "Closure" and g.file == cm.group(1) and g.line == int(cm.group(2)) and g.raw["span"].get("col") == int(cm.group(3)):
                        cl = g
            if outer_ok and inner_ok and cl is not None and [short(c.name) for c in cl.calls] == ["std::io::BufRead::lines"]:
                return None
            return "flattens %s through a closure that is not `|reader| reader.lines()`" % inner[0][:60]
        return "contains the adapter %s, which can drop, merge or reorder lines" % head
    return "is nested too deeply to analyse"


def _enum_of_files(l):
    """Enumerate over the vector of input files / readers (a file index for diagnostics), not over lines"""
    t0 = ((l.next.func.get("res_targs") or l.next.targs) or [""])[0]
    return bool(re.search(L.ENUM_NEXT, short(l.next.name))) and t0.startswith("alloc::vec::into_iter::IntoIter<") and "std::io::Lines<" not in t0


def _line_loop(R, f):
    loops = [l for l in L.input_loops(f) if (L.is_line_loop(l) or re.search(L.ENUM_NEXT, short(l.next.name))) and not _enum_of_files(l)]
    if len(loops) != 1 or not loops[0].ok:
        return None
    return loops[0]


def run(R):
    P = R.prog
    R.rule("C12.err", "the Err item of the line iterator is returned as an error (or the loop continues with the next line); it never "
                      "reaches a silent loop exit")
    R.rule("C12.once", "on the Ok path every way back to the loop header passes through exactly one ExecutionEngine::execute call that "
                       "receives this line (moved, unmodified)")
    R.rule("C12.iter", "the iterated types are vec::IntoIter<BufReader<File>> and io::Lines<BufReader<File>> with no adapter in between; "
                       "the readers are built in argument order")
    for name in (L.FILE_EXEC, L.JOIN_EXEC):
        f = L.exec_view(R, name)
        short_name = f.spath.split("::")[-2] + "::" + f.spath.split("::")[-1]
        lp = _line_loop(R, f)
        if lp is None:
            R.violation("C12.iter", short_name + "|no-line-loop",
                        "%s no longer has exactly one loop over io::Lines (or Enumerate<Lines>) of the input" % f.path, [f.loc()])
            continue
        # ---- iterator types: Lines<BufReader<File>>, optionally under Enumerate / a content-preserving Map (revealed opaque types included)
        ity = (lp.next.targs or [""])[0]
        bad_src = _line_source_problem(P, ity)
        if bad_src:
            R.violation("C12.iter", short_name + "|line-source", "the line iterator %s: %s" % (ity[:160], bad_src), [lp.next.loc()])
        else:
            R.ok("C12.iter", short_name + "|line-source", ity[:120], lp.next.loc())
        # adapters applied to the readers / line iterators themselves (an adapter over result rows is none of C12's business)
        ad = [c for c in f.calls if L.ADAPTERS.search(short(c.name)) and
              re.search(r"std::io::Lines<|std::io::buffered::bufreader::BufReader<|std::fs::File|FollowFileIterator", " ".join(c.targs + (c.func.get("res_targs") or [])))]
        ad = [c for c in ad if not (short(c.name).endswith("Iterator::flat_map") and bad_src is None)]
        if ad:
            for c in ad:
                R.violation("C12.iter", short_name + "|adapter|" + short(c.name).split("::")[-1],
                            "iterator / reader adapter %s in %s can drop, merge or reorder lines" % (short(c.name), f.path), [c.loc()])
        else:
            R.ok("C12.iter", short_name + "|no-adapter", "no skip/take/filter/rev/chain/... on the input", f.loc())
        # ---- error discipline on the line item
        _check_err(R, f, lp, short_name)
        # ---- exactly-once delivery
        ex = [c for c in L.calls_reaching(f, L.ENGINE_EXEC) if c.bb in lp.body]
        if len(ex) != 1:
            R.violation("C12.once", short_name + "|count", "%d ExecutionEngine::execute calls inside the line loop of %s (expected 1)"
                        % (len(ex), f.path), [f.loc(lp.header)])
            continue
        e = ex[0]
        if not any(o.kind == "call" and o.call is lp.next for o in F.origins(f, e.args[1], depth=14)):
            R.violation("C12.once", short_name + "|other-line", "the line passed to ExecutionEngine::execute does not come from this "
                                                                "iteration's item", [e.loc()])
            continue
        mods = [o for o in F.origins(f, e.args[1], depth=14)
                if o.kind == "call" and not F.TRANSPARENT.search(short(o.call.name)) and o.call is not lp.next
                and not re.search(r"Result::map_err$|Try>::branch$", short(o.call.name))]
        if mods:
            R.violation("C12.once", short_name + "|modified", "the line is transformed by %s before it reaches the query"
                        % short(mods[0].call.name), [mods[0].call.loc()])
            continue
        # every path Some-edge -> header passes through the execute call
        reach = PR.flag_reach(f, lp.some, avoid={e.bb})
        if reach is None:
            reach = f.reachable_from(lp.some, avoid={e.bb})
        if lp.header in reach:
            R.violation("C12.once", short_name + "|skipped", "there is a path from reading a line back to the loop header of %s that does "
                                                             "not execute the line" % f.path, [e.loc()])
        else:
            R.ok("C12.once", short_name, "one execute per line item on every path back to the loop header; line moved unmodified", e.loc())
    # readers built in order
    wf = R.need_fn("sqlgrep::executor::FileExecutor::with_output_printer")
    names = [short(c.name) for c in wf.calls]
    if any(L.ADAPTERS.search(n) or n.endswith(("::sort", "::reverse", "::sort_by", "::dedup", "::swap")) for n in names):
        R.violation("C12.iter", "with_output_printer|reorder", "the reader list is reordered/filtered when it is built", [wf.loc()])
    elif any(n.endswith("Iterator::map") for n in names) and any(n.endswith("Iterator::collect") for n in names):
        R.ok("C12.iter", "with_output_printer", "readers = files.into_iter().map(BufReader::new).collect() (order preserving)", wf.loc())
    elif [st for i_, st in wf.stmts() if st["k"] == "assign" and st["rv"]["k"] == "aggr" and (st["rv"].get("adt") or "").endswith("FileExecutor") and
          any(op.get("ty") == "alloc::vec::Vec<std::fs::File>" and
              all(o.kind == "arg" for o in F.origins(wf, op, depth=6, through_calls=False)) for op in st["rv"]["ops"] if isinstance(op, dict))]:
        R.ok("C12.iter", "with_output_printer", "the file list is stored as it was passed in", wf.loc())
    else:
        R.violation("C12.iter", "with_output_printer|shape", "unrecognised construction of the reader list: %s" % names, [wf.loc()])
    # outer loop over the readers
    f = L.exec_view(R, L.FILE_EXEC)
    outer = [l for l in L.input_loops(f) if re.search(L.READERS_NEXT, short(l.next.name))]
    flat = [l for l in L.input_loops(f) if "adapters::flatten::FlatMap<alloc::vec::into_iter::IntoIter<" + BUFREADER_FILE in (l.next.targs or [""])[0]
            and _line_source_problem(P, (l.next.targs or [""])[0]) is None]
    enum_outer = [l for l in L.input_loops(f) if _enum_of_files(l)]
    part_drain = [c for c in f.calls if short(c.name) == "alloc::vec::Vec::drain" and
                  "core::ops::range::RangeFull" not in (c.func.get("res_targs") or c.targs or [])]
    if len(outer) == 1 and "drain::Drain" in short(outer[0].next.name) and part_drain:
        R.violation("C12.iter", "FileExecutor::execute|file-loop", "the loop over the input files drains only a part of the reader list",
                    [part_drain[0].loc()])
    elif len(outer) == 1 and ((outer[0].next.func.get("res_targs") or [""])[0] in (BUFREADER_FILE, "std::fs::File") or
                              ((outer[0].next.func.get("res_targs") or [""])[0] == DYN_BUFREAD and _dyn_bufread_closed(P))):
        R.ok("C12.iter", "FileExecutor::execute|file-loop", "for reader in readers.into_iter()", outer[0].next.loc())
    elif not outer and len(enum_outer) == 1 and re.match(r"^alloc::vec::into_iter::IntoIter<(%s|std::fs::File)(, [^<>]*)?>$" % re.escape(BUFREADER_FILE),
                                                         ((enum_outer[0].next.func.get("res_targs") or enum_outer[0].next.targs) or [""])[0]):
        R.ok("C12.iter", "FileExecutor::execute|file-loop", "for (index, reader) in readers.into_iter().enumerate()", enum_outer[0].next.loc())
    elif not outer and len(flat) == 1:
        R.ok("C12.iter", "FileExecutor::execute|file-loop", "readers.into_iter().flat_map(|r| r.lines()): files in order, lines in order",
             flat[0].next.loc())
    else:
        R.violation("C12.iter", "FileExecutor::execute|file-loop", "the loop over the input files is not a plain traversal of Vec<BufReader<File>>",
                    [f.loc()])
    # command-line order: the CLI opens the files in argument order (push in a plain loop, no sorting / reversing / dedup)
    for bf in [g for g in P.fns.values() if g.target == "bin" and g.kind != "Closure"]:
        opens = [c for c in bf.calls if short(c.name) == "std::fs::File::open"]
        pushes = [c for c in bf.calls if short(c.name) == "alloc::vec::Vec::push" and (c.func.get("res_targs") or c.targs)[:1] == ["std::fs::File"]]
        if not opens or not pushes:
            continue
        reorder = [c for c in bf.calls if re.search(r"::(sort|sort_by|sort_by_key|sort_unstable|reverse|dedup|dedup_by_key|swap|rotate_left|rotate_right|retain)$|"
                                                    r"Iterator::(rev|skip|step_by)$", short(c.name))]
        lp = PR.loop_of(bf, pushes[0].bb)
        if lp and not reorder:
            R.ok("C12.iter", "cli|" + bf.spath.split("::")[-1], "files opened and pushed in argument order", pushes[0].loc())
        else:
            R.violation("C12.iter", "cli|" + bf.spath.split("::")[-1] + "|order",
                        "the CLI reorders / filters the input files (%s): lines are not presented in command-line order"
                        % [short(c.name).split("::")[-1] for c in reorder], [bf.loc()])
    # every query reads its files from the first byte: the handles come from File::open for this query, never from a handle that an
    # earlier query has already advanced (`try_clone` shares the cursor of the handle it clones)
    R.rule("C12.fresh", "the File handles given to a FileExecutor are opened (File::open) by the function that builds the executor for this "
                        "query; File::try_clone, whose clones share one cursor, is not used")
    clones = [(g, c) for g in P.fns.values() for c in g.calls if short(c.name) == "std::fs::File::try_clone"]
    if clones:
        g, c = clones[0]
        R.violation("C12.fresh", "try_clone|%s" % E_owner_name(P, g), "%s hands out File::try_clone handles: all clones share the cursor of the "
                    "file they were cloned from, so a second query over the same files starts where the first one stopped and misses lines"
                    % g.path, [c.loc()])
    builders = [g for g in P.fns.values() if g.target == "bin" and
                any(re.search(r"executor::FileExecutor::(new|with_output_printer)$", short(c.name)) for c in g.calls)]
    for g in builders:
        owner_name = E_owner_name(P, g)
        for c in g.calls:
            if not re.search(r"executor::FileExecutor::(new|with_output_printer)$", short(c.name)):
                continue
            fa_ = [a_ for a_ in c.args if "alloc::vec::Vec<std::fs::File>" in (a_.get("ty") or "")]
            if not fa_:
                continue
            os_ = F.origins(g, fa_[0], depth=10)
            if any(o.kind == "arg" for o in os_):
                R.violation("C12.fresh", "%s|files-from-outside" % owner_name, "%s builds the executor from File handles it received (opened "
                            "elsewhere, possibly read before) instead of opening them for this query" % g.path, [c.loc()])
            elif not clones:
                R.ok("C12.fresh", owner_name, "the executor's files are opened in the function that builds it", c.loc())
    from . import rules_c01
    rules_c01.total_paths(R, "C12.present")
    R.floor("C12.once", 2)
    R.floor("C12.err", 2)
    R.assume("BufRead::lines yields every line once, in order, including a final line without newline, CRLF and empty lines (std)")


def E_owner_name(P, g):
    while g.kind == "Closure" and g.parent_key in P.fns:
        g = P.fns[g.parent_key]
    return g.spath.split("::")[-1]


def _check_err(R, f, lp, short_name):
    """the Result item: Err must reach an error return (Try::branch -> from_residual) or the loop header; not a plain loop exit"""
    # (1) `?`-style: a Try::branch whose operand comes from this item
    for c in PR.calls_matching(f, r"Try>::branch$"):
        if c.bb in lp.body and any(o.kind == "call" and o.call is lp.next for o in F.origins(f, c.args[0], depth=12)):
            g = PR.discr_guard(f, c, "Break")
            if g and any(short(c2.name).endswith("::from_residual") for c2 in f.calls if c2.bb in f.reachable_from(g[1])):
                R.ok("C12.err", short_name, "Err item is returned through `?` (FromResidual)", c.loc())
                return
    # (2) explicit match / if let on the item's discriminant
    for sw in sorted(lp.body):
        info = F.switch_info(f, sw)
        if not info or info[0] != "discr" or not (info[1].get("adt") or "").endswith("result::Result"):
            continue
        if not any(o.kind == "call" and o.call is lp.next for o in F.origins(f, info[1]["pl"], depth=12)):
            continue
        names = {dv: n for dv, n in info[1].get("variants", [])}
        err_t = None
        for lab, b in info[2].items():
            if names.get(lab) == "Err":
                err_t = b
        if err_t is None:
            err_t = info[2]["otherwise"]
        # follow the Err edge inside the line loop: it may continue with the next line (header) or leave the loop;
        # every way of leaving must be an error return (FromResidual / Err(..)), not a normal exit or an outer iteration
        inside = f.reachable_from(err_t, avoid={lp.header}) & lp.body if err_t in lp.body else set()
        leaving = set()
        if err_t not in lp.body:
            leaving.add(err_t)
        for x in inside:
            for y in f.succs(x):
                if y not in lp.body:
                    leaving.add(y)
        outer_headers = {h for h, body in f.loops().items() if sw in body and h != lp.header}
        leaves_silently = False
        for x in leaving:
            reg = f.reachable_from(x, avoid=outer_headers)
            is_err = any(short(c.name).endswith("::from_residual") for c in f.calls if c.bb in reg) or \
                any(s_["rv"]["k"] == "aggr" and s_["rv"].get("variant") == "Err" for i, s_ in f.stmts() if i in reg)
            hits_outer = any(y in outer_headers for z in reg for y in f.succs(z)) or x in outer_headers
            if hits_outer or (not is_err and any(e in reg for e in f.exits())):
                leaves_silently = True
        if leaves_silently:
            R.violation("C12.err", short_name + "|silent-break",
                        "%s: the Err item of the line iterator (e.g. invalid UTF-8) leaves the line loop without an error: every later "
                        "line of the file is dropped silently" % f.path, [f.loc(sw)], {"err_edge": "bb%d" % err_t})
        else:
            R.ok("C12.err", short_name, "Err item is reported or skipped (loop continues)", f.loc(sw))
        return
    R.violation("C12.err", short_name + "|unhandled-shape", "%s: could not find where the Result item of the line iterator is tested" % f.path,
                [lp.next.loc()])
