"""P-FLOW / P-DOM helpers: backward provenance of MIR locals, guard (edge) dominance."""
import re, json
from .prog import short, place_str

TRANSPARENT = re.compile(
    r"^core::option::Option::(map|as_ref|as_mut|cloned|copied|as_deref|as_deref_mut|take|and_then|filter|ok_or|ok_or_else)$|"
    r"^core::result::Result::(map|as_ref|as_mut|ok|map_err|cloned|copied)$|"
    r"^<.* as core::ops::deref::Deref(Mut)?>::deref(_mut)?$|^<.* as core::clone::Clone>::clone$|^core::clone::Clone::clone$|"
    r"^<.* as core::convert::(AsRef|AsMut|Into|From)<.*>>::(as_ref|as_mut|into|from)$|"
    r"^<.* as core::borrow::Borrow(Mut)?<.*>>::borrow(_mut)?$|"
    r"^<.* as core::ops::try_trait::Try>::branch$|^alloc::string::String::as_str$|^alloc::vec::Vec::as_slice$|"
    r"^<.* as core::iter::traits::collect::IntoIterator>::into_iter$|^core::iter::traits::iterator::Iterator::(enumerate|peekable|by_ref)$|"
    r"^core::slice::<impl \[T\]>::iter(_mut)?$|^<.* as alloc::borrow::ToOwned>::to_owned$|"
    r"^alloc::slice::<impl \[T\]>::(to_vec|into_vec)$|^alloc::vec::Vec::(as_mut_slice|into_boxed_slice)$")


class Origin:
    __slots__ = ("kind", "call", "const", "place", "arg", "extra")

    def __init__(self, kind, call=None, const=None, place=None, arg=None, extra=None):
        self.kind = kind    # call | const | arg | place | binop | unop | cast | aggr | unknown
        self.call = call
        self.const = const
        self.place = place
        self.arg = arg
        self.extra = extra

    def __repr__(self):
        if self.kind == "call":
            return "call(%s)" % short(self.call.name)
        if self.kind == "const":
            return "const(%s)" % self.const.get("v")
        if self.kind == "arg":
            return "arg(%d)" % self.arg
        return "%s(%s)" % (self.kind, self.extra)


def _call_defs(fn):
    m = getattr(fn, "_call_by_dest", None)
    if m is None:
        m = {}
        for c in fn.calls:
            if c.dest is not None and not c.dest["p"]:
                m.setdefault(c.dest["l"], []).append(c)
        fn._call_by_dest = m
    return m


def _assign_defs(fn):
    m = getattr(fn, "_assign_by_local", None)
    if m is None:
        m = {}
        for i, s in fn.stmts():
            if s["k"] == "assign" and not s["pl"]["p"]:
                m.setdefault(s["pl"]["l"], []).append((i, s))
        fn._assign_by_local = m
    return m


KEEP_SELECTORS = re.compile(
    r"Clone>::clone$|^core::clone::Clone::clone$|Deref(Mut)?>::deref(_mut)?$|Borrow(Mut)?<.*>>::borrow(_mut)?$|"
    r"^core::option::Option::(as_ref|as_mut|cloned|copied|as_deref|as_deref_mut|take|ok_or|ok_or_else)$|"
    r"^core::result::Result::(as_ref|as_mut|ok|cloned|copied)$|Try>::branch$|ToOwned>::to_owned$|"
    r"(AsRef|AsMut)<.*>>::(as_ref|as_mut)$|^alloc::slice::<impl \[T\]>::(to_vec|into_vec)$")


def origins(fn, op, depth=10, through_calls=True, _seen=None, visit=None, _pend=()):
    """backward provenance of an operand (or {'l':..,'p':..} place / int local):
    follows copies, moves, refs, derefs, field projections, no-op casts, tuple/adt aggregates and
    (optionally) transparent adapter calls; returns a list of Origin leaves.
    Field sensitive: the field / downcast selectors of the place asked for are carried along the copies (`_pend`) and select the one
    operand of an aggregate they name - `let S { left, right } = S::new(a, b)` traces `left` to `a` only."""
    if _seen is None:
        _seen = set()
    if isinstance(op, int):
        place = {"l": op, "p": []}
    elif "k" in op and op["k"] == "const":
        return [Origin("const", const=op)]
    elif "k" in op and op["k"] in ("copy", "move"):
        place = op["pl"]
    elif "l" in op:
        place = op
    else:
        return [Origin("unknown", extra=str(op)[:60])]
    l = place["l"]
    if visit is not None:
        visit(place)
    sel = tuple(e for e in place["p"] if isinstance(e, dict)) + tuple(_pend)
    key = (l, len(place["p"]), len(_pend))
    if key in _seen or depth <= 0:
        return [Origin("unknown", extra="depth")]
    _seen = _seen | {key}
    full = place if not _pend else {"l": l, "p": list(place["p"]) + list(_pend)}
    if 1 <= l <= fn.arg_count:
        return [Origin("arg", arg=l, place=full)]
    res = []
    adefs = _assign_defs(fn).get(l, [])
    cdefs = _call_defs(fn).get(l, [])
    if not adefs and not cdefs:
        return [Origin("place", place=full, extra=place_str(fn, place))]
    for (_, s) in adefs:
        rv = s["rv"]
        k = rv["k"]
        if k == "use":
            res += origins(fn, rv["op"], depth - 1, through_calls, _seen, visit, sel)
        elif k in ("ref", "copy_for_deref", "rawptr"):
            res += origins(fn, rv["pl"], depth - 1, through_calls, _seen, visit, sel)
        elif k == "cast":
            if rv["ck"] in ("IntToInt", "FloatToInt", "IntToFloat", "FloatToFloat") and rv["from"] != rv["to"]:
                res.append(Origin("cast", extra="%s->%s" % (rv["from"], rv["to"]), place=rv["op"]))
            else:
                res += origins(fn, rv["op"], depth - 1, through_calls, _seen, visit, sel)
        elif k == "aggr":
            # the first field selector picks one operand of the aggregate; what follows it applies to that operand
            fi = None
            for n_, e in enumerate(sel):
                if "f" in e:
                    fi = n_
                    break
            if fi is not None and sel[fi]["f"] < len(rv["ops"]) and rv.get("ak") in ("tuple", "adt", "closure"):
                res += origins(fn, rv["ops"][sel[fi]["f"]], depth - 1, through_calls, _seen, visit, sel[fi + 1:])
            else:
                res.append(Origin("aggr", extra=rv.get("ak"), place=place))
                for o in rv["ops"]:
                    res += origins(fn, o, depth - 1, through_calls, _seen, visit)
        elif k == "binop":
            res.append(Origin("binop", extra=rv["op"], place={"l": rv["l"], "r": rv["r"]}))
        elif k == "unop":
            res.append(Origin("unop", extra=rv["op"], place=rv["o"]))
        elif k == "discr":
            res.append(Origin("discr", place=rv["pl"], extra=rv))
        else:
            res.append(Origin("unknown", extra=k))
    for c in cdefs:
        res.append(Origin("call", call=c))
        if through_calls and TRANSPARENT.search(short(c.name)) and c.args:
            res += origins(fn, c.args[0], depth - 1, through_calls, _seen, visit, sel if KEEP_SELECTORS.search(short(c.name)) else ())
    return res


def origin_calls(fn, op, depth=10):
    return [o.call for o in origins(fn, op, depth) if o.kind == "call"]


def switch_info(fn, bb):
    """for a switch block: (kind, subject operand/place, {label: target}) where kind in bool|discr|int"""
    t = fn.blocks[bb]["term"]
    if t["k"] != "switch":
        return None
    d = t["discr"]
    targets = {v: b for v, b in t["targets"]}
    targets["otherwise"] = t["otherwise"]
    if d.get("ty") == "bool":
        return ("bool", d, targets)
    # discriminant read?
    if d["k"] in ("copy", "move") and not d["pl"]["p"]:
        for (_, s) in _assign_defs(fn).get(d["pl"]["l"], []):
            if s["rv"]["k"] == "discr":
                return ("discr", s["rv"], targets)
    return ("int", d, targets)


def edge_target_unique(fn, src, tgt):
    """the edge src->tgt identifies tgt's region: tgt has src as its only predecessor"""
    ps = fn.preds(tgt)
    return len(ps) == 1 and ps[0] == src


def _edge_guards(fn, bb):
    res = []
    idom = fn.dom()
    x = bb
    chain = []
    while x is not None:
        chain.append(x)
        x = idom.get(x)
    for t in chain:
        for (p, lab) in fn.pred[t]:
            if p in fn.reach and lab.startswith("sw:") and edge_target_unique(fn, p, t):
                res.append((p, lab[3:], t))
    return res


def _flag_value_blocks(fn, local, depth=3):
    """{True: [blocks], False: [blocks]} where a bool local is assigned a constant (directly or by copying / negating another such
    flag); None when it has any other definition"""
    out = {True: [], False: []}
    if _call_defs(fn).get(local):
        return None
    defs = _assign_defs(fn).get(local, [])
    if not defs:
        return None
    for (b, st) in defs:
        rv = st["rv"]
        if rv["k"] == "use" and rv["op"]["k"] == "const" and rv["op"].get("v") in ("true", "false"):
            out[rv["op"]["v"] == "true"].append(b)
        elif depth > 0 and rv["k"] == "use" and rv["op"]["k"] in ("copy", "move") and not rv["op"]["pl"]["p"]:
            sub = _flag_value_blocks(fn, rv["op"]["pl"]["l"], depth - 1)
            if sub is None:
                return None
            out[True] += sub[True]
            out[False] += sub[False]
        elif depth > 0 and rv["k"] == "unop" and rv["op"] == "Not" and rv["o"]["k"] in ("copy", "move") and not rv["o"]["pl"]["p"]:
            sub = _flag_value_blocks(fn, rv["o"]["pl"]["l"], depth - 1)
            if sub is None:
                return None
            out[True] += sub[False]
            out[False] += sub[True]
        else:
            return None
    return out


def _variant_value_blocks(fn, local, depth=3):
    """{variant name: [blocks]} where an enum-typed local is assigned an aggregate of that variant (directly or by copying another
    such local); None if it has any other definition"""
    out = {}
    for c in _call_defs(fn).get(local, []):
        # the error path of `?` builds the failure value: it never contributes a `Some` / `Ok`
        if short(c.name).endswith("::from_residual"):
            out.setdefault("None", []).append(c.bb)
            out.setdefault("Err", []).append(c.bb)
        else:
            return None
    defs = _assign_defs(fn).get(local, [])
    if not defs and not out:
        return None
    for (b, st) in defs:
        if st["pl"]["p"]:
            continue
        rv = st["rv"]
        if rv["k"] == "aggr" and rv.get("ak") == "adt" and rv.get("variant"):
            out.setdefault(rv["variant"], []).append(b)
        elif depth > 0 and rv["k"] == "use" and rv["op"]["k"] in ("copy", "move") and not rv["op"]["pl"]["p"]:
            sub = _variant_value_blocks(fn, rv["op"]["pl"]["l"], depth - 1)
            if sub is None:
                return None
            for k_, v_ in sub.items():
                out.setdefault(k_, []).extend(v_)
        else:
            return None
    return out


def guards_dominating(fn, bb, through_flags=True, _depth=2):
    """all (switch_bb, label, target) edges whose target dominates bb (edge-sensitive guards).
    With through_flags, a guard that tests a constant-valued flag (`matches!(..)`, `let ok = a && b;`, the result of an inlined
    predicate) also contributes the guards common to all places where the flag gets the value required on that edge."""
    res = _edge_guards(fn, bb)
    if not through_flags or _depth <= 0:
        return res
    extra = []
    for (sw, lab, tgt) in res:
        t = fn.blocks[sw]["term"]
        d = t["discr"]
        info = switch_info(fn, sw)
        if info and info[0] == "discr" and not [e for e in info[1]["pl"]["p"] if e != "*"]:
            # `if let Some(x) = tmp` where tmp was assigned `Some(..)` / `None` in the arms of an earlier match (the result of an
            # inlined helper such as `fn merged(..) -> Option<Token>`): the guards common to all `Some` assignments hold here
            names = {dv: n for dv, n in info[1].get("variants", [])}
            want_v = names.get(lab)
            if want_v is None and lab == "otherwise":
                listed = [names.get(l2) for l2 in info[2] if l2 != "otherwise"]
                rest = [n for n in names.values() if n not in listed]
                want_v = rest[0] if len(rest) == 1 else None
            if want_v is not None:
                vb = _variant_value_blocks(fn, info[1]["pl"]["l"])
                blocks = (vb or {}).get(want_v)
                if blocks:
                    for g in _common_guards(fn, blocks, _depth):
                        if g not in res and g not in extra:
                            extra.append(g)
            continue
        if d.get("ty") != "bool" or d["k"] not in ("copy", "move") or d["pl"]["p"]:
            continue
        vb = _flag_value_blocks(fn, d["pl"]["l"])
        if vb is None:
            continue
        want = (lab != "0")
        blocks = vb[want]
        if not blocks:
            continue
        for g in _common_guards(fn, blocks, _depth):
            if g not in res and g not in extra:
                extra.append(g)
    return res + extra


def _guard_meaning(fn, g):
    """what a guard edge tests, independent of the switch block that tests it: two arms of a tuple match each test `t.1 is Some` in a
    switch of their own"""
    sw, lab, tgt = g
    info = switch_info(fn, sw)
    if not info:
        return ("sw", sw, lab)
    if info[0] == "discr":
        names = {dv: n for dv, n in info[1].get("variants", [])}
        vn = names.get(lab)
        if vn is None and lab == "otherwise":
            listed = [names.get(l2) for l2 in info[2] if l2 != "otherwise"]
            rest = [n for n in names.values() if n not in listed]
            vn = rest[0] if len(rest) == 1 else None
        if vn is None:
            return ("sw", sw, lab)
        return ("discr", json.dumps(info[1]["pl"], sort_keys=True), vn)
    return ("sw", sw, lab)


def _common_guards(fn, blocks, _depth):
    """guards that hold at every one of the blocks, compared by what they test"""
    per = []
    for b in blocks:
        gs = guards_dominating(fn, b, True, _depth - 1)
        per.append({_guard_meaning(fn, g): g for g in gs})
    if not per:
        return []
    keys = set(per[0])
    for m in per[1:]:
        keys &= set(m)
    return sorted(per[0][k] for k in keys)


def bool_edge_polarity(fn, sw_bb, label):
    """for a bool switch, returns (positive: bool, origins of the tested value); handles Not"""
    t = fn.blocks[sw_bb]["term"]
    d = t["discr"]
    pos = (label != "0")
    cur = d
    for _ in range(4):
        os_ = origins(fn, cur, depth=3, through_calls=False)
        if len(os_) == 1 and os_[0].kind == "unop" and os_[0].extra == "Not":
            pos = not pos
            cur = os_[0].place
            continue
        return pos, os_
    return pos, []


def variant_of_label(rv_discr, label):
    for dv, name in rv_discr.get("variants", []):
        if dv == label:
            return name
    return None


def source_fields(fn, op, depth=4):
    """field names of the place an operand was (transitively) copied/moved/borrowed from, keeping projections"""
    from .prog import place_fields
    if op["k"] not in ("copy", "move"):
        return []
    pl = op["pl"]
    own = place_fields(pl)
    if own or depth == 0:
        return own
    defs = _assign_defs(fn).get(pl["l"], [])
    if len(defs) != 1:
        return []
    rv = defs[0][1]["rv"]
    if rv["k"] == "use":
        return source_fields(fn, rv["op"], depth - 1)
    if rv["k"] in ("ref", "copy_for_deref"):
        return place_fields(rv["pl"]) or source_fields(fn, {"k": "copy", "pl": rv["pl"]}, depth - 1)
    return []


def forward_taint(fn, is_source_place):
    """flow-insensitive forward taint inside one body: locals that (transitively) hold a value read from a source place.
    Propagates through assignments, borrows, aggregates (closure captures) and from call arguments to call results.
    Returns (tainted locals, [switch blocks whose discriminant is tainted], [first source statement line])."""
    from .prog import operands_of_stmt
    T = set()
    first = []

    def place_tainted(pl):
        return pl["l"] in T or is_source_place(pl)

    def op_tainted(op):
        return op.get("k") in ("copy", "move") and place_tainted(op["pl"])

    changed = True
    while changed:
        changed = False
        for i, s in fn.stmts():
            if s["k"] != "assign":
                continue
            rv = s["rv"]
            hit = any(op_tainted(o) for o in operands_of_stmt(s))
            if not hit and "pl" in rv and isinstance(rv["pl"], dict) and "l" in rv["pl"]:
                hit = place_tainted(rv["pl"])
            if hit:
                if is_source_place(rv.get("pl") or {"l": -1, "p": []}) or any(o.get("k") in ("copy", "move") and is_source_place(o["pl"])
                                                                               for o in operands_of_stmt(s)):
                    first.append(s["line"])
                l = s["pl"]["l"]
                if l not in T and not is_source_place(s["pl"]):
                    T.add(l)
                    changed = True
        for c in fn.calls:
            if c.dest is None or c.dest["l"] in T:
                continue
            if any(op_tainted(a) for a in c.args) and fn.local_ty(c.dest["l"]) != "()":
                T.add(c.dest["l"])
                changed = True
    sinks = []
    for b in sorted(fn.reach):
        t = fn.blocks[b]["term"]
        if t["k"] == "switch" and t["discr"]["k"] in ("copy", "move") and place_tainted(t["discr"]["pl"]):
            sinks.append(b)
    return T, sinks, sorted(set(first))


def origins_ip(P, fn, op, depth=3, _seen=None):
    """origins() that follows a parameter of a (non-closure) function to the matching argument at every call site of that function,
    and a closure parameter to the receiver of the combinator call the closure is handed to.  Returns [(function, Origin)] leaves;
    a parameter of a function without callers stays an `arg` leaf."""
    _seen = _seen if _seen is not None else set()
    out = []
    for o in origins(fn, op, depth=12):
        if o.kind != "arg" or depth <= 0:
            out.append((fn, o))
            continue
        if fn.kind == "Closure":
            if o.arg < 2:
                out.append((fn, o))
                continue
            owner = fn
            while owner.kind == "Closure" and owner.parent_key in P.fns:
                owner = P.fns[owner.parent_key]
            hosts = [owner]
            st = list(P.children.get(owner.key, []))
            while st:
                ch = st.pop()
                hosts.append(ch)
                st.extend(P.children.get(ch.key, []))
            raw_key = fn.key[4:] if fn.key.startswith("bin/") else fn.key
            found = False
            for h in hosts:
                for c in h.calls:
                    if raw_key in (c.func.get("closure_args") or []) and c.args and (h.key, id(c)) not in _seen:
                        _seen.add((h.key, id(c)))
                        found = True
                        out.append((h, Origin("call", call=c)))
                        out += origins_ip(P, h, c.args[0], depth - 1, _seen)
            if not found:
                out.append((fn, o))
            continue
        callers = [(g, c2) for g in P.fns.values() if g.target == fn.target for c2 in g.calls if fn.key in P.callee_keys(g, c2)]
        # keep projections of the parameter (e.g. `pattern.group_index`): the caller's argument is the whole parameter
        if o.place is not None and o.place["p"] and any(isinstance(e, dict) and "f" in e for e in o.place["p"]):
            out.append((fn, o))
            continue
        if not callers or fn.key in _seen:
            out.append((fn, o))
            continue
        for g, c2 in callers:
            if o.arg - 1 < len(c2.args):
                out += origins_ip(P, g, c2.args[o.arg - 1], depth - 1, _seen | {fn.key})
    return out


def source_place(fn, op, depth=5):
    """the first projected place an operand was copied / moved / borrowed from (projections kept), or None"""
    if op.get("k") not in ("copy", "move"):
        return None
    pl = op["pl"]
    if any(isinstance(e, dict) for e in pl["p"]) or depth == 0:
        return pl
    defs = _assign_defs(fn).get(pl["l"], [])
    if len(defs) != 1:
        return None
    rv = defs[0][1]["rv"]
    if rv["k"] == "use":
        return source_place(fn, rv["op"], depth - 1)
    if rv["k"] in ("ref", "copy_for_deref"):
        if any(isinstance(e, dict) for e in rv["pl"]["p"]):
            return rv["pl"]
        return source_place(fn, {"k": "copy", "pl": rv["pl"]}, depth - 1)
    return None


def place_variant_field(pl):
    """(variant name, field type) when the place projects a field out of an enum variant (downcast), else (None, None)"""
    if not pl:
        return (None, None)
    var = None
    for e in pl["p"]:
        if isinstance(e, dict) and "d" in e:
            var = e["d"]
        elif isinstance(e, dict) and "f" in e and var is not None:
            return (var, e.get("ty"))
    return (None, None)


def provenance_fields(fn, op, depth=14):
    """names of all fields read anywhere on the provenance chain of an operand (intermediate places included)"""
    from .prog import place_fields
    seen = set()

    def v(pl):
        for n in place_fields(pl):
            seen.add(n)
    origins(fn, op, depth=depth, visit=v)
    return seen
