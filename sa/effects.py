"""Effect / information-flow helpers shared by the path rules.

`inert_fields`: fields of a struct that cannot influence a query result: every read of the field in the
analysed subgraph flows only back into the field itself (a counter), into formatting for stderr, or nowhere.
Writes to such fields (statistics counters, debug bookkeeping) are not "query state"."""
import re
from .prog import short, place_fields, operands_of_stmt
from . import flow as F

# calls through which a value may pass without becoming observable in a query result
ARITH = re.compile(r"^core::num::<impl \w+>::(wrapping|checked|saturating|overflowing|unchecked)_(add|sub|mul)$|"
                   r"^core::option::Option::(unwrap|unwrap_or|expect|unwrap_or_default)$|^core::cmp::(Ord::)?(max|min)$|"
                   r"^<.* as core::ops::arith::(Add|AddAssign|Sub|SubAssign)(<.*>)?>::(add|add_assign|sub|sub_assign)$|"
                   r"^<.* as core::clone::Clone>::clone$")
DIAG = re.compile(r"^core::fmt::|^std::io::stdio::_e?print$|^alloc::fmt::format|^core::hint::must_use$|^std::time::Instant::|"
                  r"^<.* as core::fmt::(Display|Debug)>::fmt$")


PLAIN = re.compile(r"^(u8|u16|u32|u64|u128|usize|i8|i16|i32|i64|i128|isize|bool|f64|f32|std::time::\w+|core::time::Duration)$")


def owner_of(P, f):
    while f.kind == "Closure" and f.parent_key in P.fns:
        f = P.fns[f.parent_key]
    return f


def _self_field_place(pl, fields):
    return pl.get("l") == 1 and bool(set(place_fields(pl)) & fields)


def taint_sinks(fn, is_source_place):
    """where a value read from a source place can end up inside one body.
    Returns a list of (kind, line) with kind in switch | return | call:<name> | store:<place> ; taint passes through assignments,
    ARITH calls (to their result) and DIAG calls (dropped)."""
    T = set()

    def pt(pl):
        return pl["l"] in T or is_source_place(pl)

    def ot(op):
        return op.get("k") in ("copy", "move") and pt(op["pl"])

    sinks = []
    changed = True
    rounds = 0
    while changed and rounds < 50:
        changed = False
        rounds += 1
        for i, s in fn.stmts():
            if s["k"] != "assign":
                continue
            rv = s["rv"]
            hit = any(ot(o) for o in operands_of_stmt(s))
            if not hit and isinstance(rv.get("pl"), dict) and "l" in rv["pl"]:
                hit = pt(rv["pl"])
            if not hit:
                continue
            dst = s["pl"]
            if is_source_place(dst):
                continue
            if dst["l"] not in T:
                T.add(dst["l"])
                changed = True
        for c in fn.calls:
            if not any(ot(a) for a in c.args):
                continue
            sn = short(c.name)
            if DIAG.search(sn):
                # formatting machinery: the Arguments value carries the taint only into other DIAG calls
                if c.dest is not None and c.dest["l"] not in T and fn.local_ty(c.dest["l"]) != "()":
                    T.add(c.dest["l"])
                    changed = True
                continue
            if ARITH.search(sn):
                if c.dest is not None and c.dest["l"] not in T:
                    T.add(c.dest["l"])
                    changed = True
                continue
    for i, s in fn.stmts():
        if s["k"] != "assign":
            continue
        rv = s["rv"]
        hit = any(ot(o) for o in operands_of_stmt(s)) or (isinstance(rv.get("pl"), dict) and "l" in rv["pl"] and pt(rv["pl"]))
        if not hit:
            continue
        dst = s["pl"]
        if is_source_place(dst):
            continue
        if dst["l"] == 0:
            sinks.append(("return", s["line"]))
        elif dst["p"] and ((any(isinstance(e, dict) and "f" in e for e in dst["p"]) and (1 <= dst["l"] <= fn.arg_count)) or "*" in dst["p"]):
            # a write into a field of an argument, or through any reference (`*average += ..` where `average` was bound from `self`)
            sinks.append(("store:" + (".".join(place_fields(dst)) or "*"), s["line"]))
    for c in fn.calls:
        if not any(ot(a) for a in c.args):
            continue
        sn = short(c.name)
        if DIAG.search(sn) or ARITH.search(sn):
            continue
        sinks.append(("call:" + sn, c.line))
    for b in sorted(fn.reach):
        t = fn.blocks[b]["term"]
        if t["k"] == "switch" and t["discr"]["k"] in ("copy", "move") and pt(t["discr"]["pl"]):
            sinks.append(("switch", t["span"]["line"]))
        if t["k"] == "assert" and False:
            pass
    return sinks


def struct_fields(P, adt_name):
    a = P.adts.get(adt_name)
    if not a:
        return {}
    return {fl["name"]: fl["ty"] for v in a["variants"] for fl in v["fields"]}


def methods_of(P, adt_name, reach=None):
    out = []
    for k, f in P.fns.items():
        if reach is not None and k not in reach:
            continue
        o = owner_of(P, f)
        if o.raw.get("impl_self") == adt_name:
            out.append(f)
    return out


def inert_fields(P, adt_name, reach):
    """fields of `adt_name` whose value never reaches a branch, a return value, another field or a non-arithmetic / non-diagnostic
    call in any method of the type inside `reach` (closures included): writes to them cannot change what a query returns"""
    flds = struct_fields(P, adt_name)
    inert = set()
    ms = [m for m in methods_of(P, adt_name, reach) if m.kind != "Closure"]
    def plain(ty, depth=2):
        """a counter-like type: a number / bool / time, or a local struct made of such (a statistics record)"""
        if PLAIN.match(ty):
            return True
        a = P.adts.get(ty)
        if a is None or depth == 0:
            return False
        return all(plain(fl["ty"], depth - 1) for v in a["variants"] for fl in v["fields"])

    for name, ty in flds.items():
        if not plain(ty):
            continue
        ok = True
        for m in ms:
            if taint_sinks(m, lambda pl, n=name: _self_field_place(pl, {n})):
                ok = False
                break
        if ok:
            inert.add(name)
    return inert


def self_effects(P, f):
    """(fields of self written or mutably borrowed in f, local callee keys, non-local calls that get a &mut into self)"""
    written = set()
    for i, s in f.stmts():
        if s["k"] != "assign":
            continue
        pl = s["pl"]
        if pl["l"] == 1 and pl["p"]:
            fs = place_fields(pl)
            if fs:
                written.add(fs[0])
        rv = s["rv"]
        if rv["k"] in ("ref", "rawptr") and rv.get("bk") == "mut" and rv["pl"]["l"] == 1 and len(rv["pl"]["p"]) > 1:
            fs = place_fields(rv["pl"])
            if fs:
                written.add(fs[0])
    callees = set()
    for c in f.calls:
        for k in P.callee_keys(f, c):
            callees.add(k)
    return written, callees


def is_inert_fn(P, key, inert, depth=3, _seen=None):
    """the function (a method taking self) writes only inert fields of self and calls only inert local functions / diagnostics"""
    _seen = _seen or set()
    if key in _seen or depth < 0:
        return False
    g = P.fns.get(key)
    if g is None:
        return False
    written, callees = self_effects(P, g)
    if not written <= inert:
        return False
    for c in g.calls:
        ks = P.callee_keys(g, c)
        sn = short(c.name)
        if not ks:
            if DIAG.search(sn) or ARITH.search(sn):
                continue
            # a non-local call is harmless when it receives no mutable access to self
            passes_self = False
            for a in c.args:
                for o in F.origins(g, a, depth=6, through_calls=False) if a.get("k") in ("copy", "move") else []:
                    if o.kind == "arg" and o.arg == 1:
                        passes_self = True
            if passes_self and not (DIAG.search(sn) or ARITH.search(sn)):
                return False
            continue
        for k in ks:
            if k == key:
                continue
            if P.fns[k].kind == "Closure" or not is_inert_fn(P, k, inert, depth - 1, _seen | {key}):
                if P.fns[k].kind == "Closure" and is_inert_fn(P, k, inert, depth - 1, _seen | {key}):
                    continue
                return False
    return True
