"""C05 — JOIN pairs exactly the rows with equal join keys."""
import re
from .prog import short, place_fields
from . import flow as F
from . import pathrules as PR
from . import arms as A
from .rules_c17 import count_range

J = "sqlgrep::execution::join::"
V = "sqlgrep::model::Value"


def _explicit_error_return(f, c):
    """`match lookup() { Some(x) => x, None => return Err(..) }`: on the failure edge of the call's result every path builds an Err"""
    errb = set(i for i, st in f.stmts() if st["k"] == "assign" and st["rv"]["k"] == "aggr" and st["rv"].get("variant") == "Err"
               and (st["rv"].get("adt") or "").endswith("result::Result"))
    if not errb:
        return False
    for fail, good_ in (("None", "Some"), ("Err", "Ok")):
        g = PR.discr_guard(f, c, good_)
        if g and g[2]:
            return all(PR.all_paths_hit(f, nt, errb)[0] for nt in g[2])
    return False


def E_owner(P, f):
    while f.kind == "Closure" and f.parent_key in P.fns:
        f = P.fns[f.parent_key]
    return f


_CONVERT = re.compile(r"from_utf8(_lossy|_unchecked)?$|into_owned$|ToString>::to_string$|From<.*>>::from$|Into<.*>>::into$|String::(as_str|as_bytes|into_bytes|from_utf8.*)$|"
                      r"(Result|Option)::(unwrap|expect|unwrap_or_default|map_err|unwrap_unchecked)$|Try>::branch$|Iterator>::next$|Iterator::enumerate$|"
                      r"ToOwned>::to_owned$|Cow<.*>::(into_owned|to_mut)$|str::(as_bytes|to_owned)$|to_vec$|Deref>::deref$")
_TERM_STRIP = re.compile(r"str::(strip_suffix|trim_end_matches|trim_right_matches)$|slice::<impl \[T\]>::strip_suffix$")
_CUT = re.compile(r"Index<.*>>::index$|::truncate$|::pop$|::split_at$|::split_off$|::drain$|slice::<impl \[T\]>::(get|split_last|split_first)$|str::get$|::remove$")
_SOURCE = re.compile(r"Lines<.*>.*Iterator>::next$|std::io::Lines|BufRead::lines$")


def _is_terminator_const(op):
    if op.get("k") != "const":
        return False
    v = str(op.get("val", op.get("v", "")))
    return v in ("10", "13", "'\\n'", "'\\r'", "\"\\n\"", "\"\\r\\n\"", "\"\\r\"") or v.strip("'\"") in ("\n", "\r", "\r\n", "\\n", "\\r", "\\r\\n")


def _terminator_guarded(f, bb):
    """is block bb only reached after a test that mentions the line terminator (ends_with / last / == b'\\n' ...)?"""
    for (sw, lab, tgt) in F.guards_dominating(f, bb):
        info = F.switch_info(f, sw)
        if not info:
            continue
        subj = info[1]
        for o in F.origins(f, subj, depth=8):
            if o.kind == "call" and re.search(r"ends_with$|strip_suffix$|::last$|PartialEq.*::(eq|ne)$", short(o.call.name)):
                if any(_is_terminator_const(a) or any(x.kind == "const" and _is_terminator_const(x.const) for x in F.origins(f, a, depth=5))
                       for a in o.call.args):
                    return True
            if o.kind == "binop" and o.extra in ("Eq", "Ne"):
                for side in (o.place["l"], o.place["r"]):
                    if _is_terminator_const(side) or any(x.kind == "const" and _is_terminator_const(x.const) for x in F.origins(f, side, depth=4)):
                        return True
    return False


def _whole_line(R, jf):
    """C05.line: the text a row of the joined table is extracted from is a whole line of the joined file"""
    rid = "C05.line"
    ex = [c for c in jf.calls if short(c.name).endswith("ExecutionEngine::execute") and len(c.args) >= 2]
    if not ex:
        return
    c = ex[0]
    seen = set()
    work = [c.args[1]]
    bad = []
    src = 0
    buffers = set()
    steps = 0
    while work and steps < 200:
        op = work.pop()
        steps += 1
        for o in F.origins(jf, op, depth=14, through_calls=False):
            if o.kind != "call" or id(o.call) in seen:
                continue
            seen.add(id(o.call))
            n = short(o.call.name)
            if _SOURCE.search(n) or ("Iterator>::next" in n and "Lines" in " ".join(o.call.targs or []) + (o.call.args[0].get("ty") if o.call.args else "")):
                src += 1
                continue
            if re.search(r"^alloc::(vec::Vec|string::String)::(new|with_capacity)$", n):
                d = o.call.dest
                if d is not None:
                    buffers.add(d["l"])
                continue
            if _TERM_STRIP.search(n):
                if len(o.call.args) > 1 and (_is_terminator_const(o.call.args[1]) or
                                             any(x.kind == "const" and _is_terminator_const(x.const) for x in F.origins(jf, o.call.args[1], depth=5))):
                    work.append(o.call.args[0])
                    continue
                bad.append((o.call, "strips something other than the line terminator (%s)" % n.split("::")[-1]))
                continue
            if _CUT.search(n):
                if not _terminator_guarded(jf, o.call.bb):
                    bad.append((o.call, "cuts the line (%s) without having tested that what it removes is the line terminator" % n.split("::")[-1]))
                if o.call.args:
                    work.append(o.call.args[0])
                continue
            if _CONVERT.search(n) or F.TRANSPARENT.search(n):
                if o.call.args:
                    work.append(o.call.args[0])
                continue
            if re.search(r"str::(trim|trim_end|trim_start|to_lowercase|to_uppercase|replace|replacen|split.*|trim_matches|trim_start_matches)$|"
                         r"::(retain|dedup|reverse|sort.*)$", n):
                bad.append((o.call, "rewrites the line (%s) before the joined row is extracted from it" % n.split("::")[-1]))
    # a buffer filled by read_until / read_line: in-place cuts of it need the same test
    for cc in jf.calls:
        n = short(cc.name)
        if buffers and re.search(r"::(truncate|pop|remove|drain|split_off)$", n) and cc.args and PR.loop_of(jf, cc.bb) is not None:
            root = F.source_place(jf, cc.args[0])
            if root and root["l"] in buffers and not _terminator_guarded(jf, cc.bb) and id(cc) not in seen:
                bad.append((cc, "cuts the line buffer (%s) without having tested that what it removes is the line terminator" % n.split("::")[-1]))
    R.rule(rid, "the text a row of the joined table is extracted from is a whole line of the joined file: between the read (Lines::next, or "
                "read_until / read_line into a buffer) and ExecutionEngine::execute it is only converted; a cut is allowed only under a test "
                "that what is cut is the line terminator")
    if bad:
        for cc, what in bad[:3]:
            R.violation(rid, "JoinedTableData::execute|" + short(cc.name).split("::")[-1],
                        "JoinedTableData::execute %s: a row s of the joined file is extracted from a different text than its line (a last "
                        "line without a newline, or a value at the end of a line, no longer joins)" % what, [cc.loc()])
    else:
        R.ok(rid, "JoinedTableData::execute|line", "line text reaches execute unmodified (%d read source(s), %d buffer(s))" % (src, len(buffers)), c.loc())


def _range_over_names(cm, nxt, addc):
    """the loop is `for i in 0..<len of a Vec<String> field of JoinedTableData>` and the key added is `<such a field>[i]`"""
    rng = None
    for o in F.origins(cm, nxt.args[0], depth=8):
        if o.kind == "aggr" or (o.kind == "call" and short(o.call.name).endswith("into_iter")):
            rng = o
    # bounds: an aggregate Range { start: 0, end: len(..) }
    lo_ok = hi_ok = False
    for i_, st in cm.stmts():
        if st["k"] == "assign" and st["rv"]["k"] == "aggr" and "Range" in str(st["rv"].get("adt") or st["rv"].get("variant") or st["rv"].get("name") or "") \
                and len(st["rv"]["ops"]) == 2:
            a, b = st["rv"]["ops"]
            lo_ok = a.get("k") == "const" and str(a.get("val", a.get("v", ""))).startswith("0")
            for o in F.origins(cm, b, depth=6):
                if o.kind == "call" and short(o.call.name) == "alloc::vec::Vec::len":
                    fl = F.source_fields(cm, o.call.args[0], depth=8)
                    if fl and fl[-1] in ("column_names", "fully_qualified_column_names"):
                        hi_ok = True
    if not (lo_ok and hi_ok):
        return False
    idx = [o.call for a_ in addc.args[1:] for o in F.origins(cm, a_, depth=12) if o.kind == "call" and short(o.call.name).endswith("Index<I>>::index")]
    if not idx:
        return False
    for ic in idx:
        os_ = F.origins(cm, ic.args[1], depth=8, through_calls=False)
        if not os_ or any(o.kind in ("binop", "unop", "const", "cast") for o in os_):
            return False
        if not any(o.kind == "call" and o.call is nxt for o in os_):
            return False
    return True


def run(R):
    P = R.prog
    from . import rules_c16
    R.rule("C05.err", "a missing joined file, table or join column reaches the caller as an error (Try::branch -> FromResidual), never an empty result")
    R.rule("C05.nullkey", "the join index is a SQL-equality site: NULL keys are neither inserted nor looked up")
    R.rule("C05.pairs", "for an input row every partner row yields one execute call and one merge of its result on every path; the only other "
                        "exit of the partner loop is an error; partners are traversed in joined-file order")
    R.rule("C05.outer", "the OUTER row has one NULL per joined column and is produced only without a partner under is_outer && allow_outer")
    R.rule("C05.side", "both orientations of `ON a.x = b.y` map the queried table's column to joiner_column and the joined table's to joined_column")
    # ---- partner order: joined rows stay in joined-file order (they are only ever appended)
    R.rule("C05.order", "the rows of the joined file keep their file order: the join code never sorts, reverses, dedups or otherwise "
                        "permutes a container of rows (partners of one key come out in the order they were read)")
    REORDER = re.compile(r"::(sort|sort_by|sort_by_key|sort_unstable|sort_unstable_by|sort_unstable_by_key|sort_by_cached_key|reverse|rotate_left|"
                         r"rotate_right|swap|swap_remove|dedup|dedup_by|dedup_by_key|retain|select_nth_unstable\w*)$|Iterator::rev$|binary_heap::BinaryHeap")
    n_ord = 0
    for g0 in sorted(P.fns.values(), key=lambda g: g.key):
        if g0.target != "lib" or g0.derived or not g0.spath.startswith("sqlgrep::execution::join::"):
            continue
        for c in g0.calls:
            n_ord += 1
            if REORDER.search(short(c.name)) and any("data_model::Row" in (a.get("ty") or "") for a in c.args[:1]):
                R.violation("C05.order", "%s|%s" % (E_owner(P, g0).spath.split("::")[-1], short(c.name).split("::")[-1]),
                            "%s calls %s on rows of the joined table: the partners of a key are no longer guaranteed to come out in "
                            "joined-file order (an unstable or key-only sort permutes rows with equal keys)" % (g0.path, short(c.name)), [c.loc()])
    if not any(fd.rule == "C05.order" for fd in R.findings):
        R.ok("C05.order", "join", "%d calls in the join module, none reorders rows" % n_ord, "src/execution/join.rs")
    rules_c16.run_keys(R, rid="C05.key", owner_prefix="sqlgrep::execution::join", floor=2)
    jf = R.need_fn(J + "JoinedTableData::execute")
    for pat, what in ((r"^std::fs::File::open$", "File::open"), (r"ExecutionEngine::get_table$", "get_table"),
                      (r"TableDefinition::index_for$", "index_for"), (r"ExecutionEngine::execute$", "execute")):
        cs = PR.calls_matching(jf, pat)
        if not cs:
            R.violation("C05.err", "JoinedTableData::execute|" + what + "|missing", "%s is no longer called while loading the joined table" % what,
                        [jf.loc()])
            continue
        c = cs[0]
        tb = [t for t in PR.calls_matching(jf, r"Try>::branch$") if any(o.kind == "call" and o.call is c for o in F.origins(jf, t.args[0], depth=8))]
        ok = False
        for t in tb:
            g = PR.discr_guard(jf, t, "Break")
            if g and any(short(x.name).endswith("::from_residual") for x in jf.calls if x.bb in jf.reachable_from(g[1])):
                ok = True
        if not ok:
            ok = _explicit_error_return(jf, c)
        swallow = [x for x in jf.calls if re.search(r"Result::(ok|unwrap_or|unwrap_or_default|unwrap_or_else)$|Option::(unwrap_or|unwrap_or_default|unwrap_or_else)$", short(x.name))
                   and any(o.kind == "call" and o.call is c for o in F.origins(jf, x.args[0], depth=6))]
        if ok and not swallow:
            R.ok("C05.err", "JoinedTableData::execute|" + what, "error propagated with `?`", c.loc())
        else:
            R.violation("C05.err", "JoinedTableData::execute|" + what,
                        "the result of %s is not propagated as an error%s: a missing join column / file / table would look like an empty join"
                        % (what, " (swallowed by %s)" % short(swallow[0].name) if swallow else ""), [c.loc()])
    _whole_line(R, jf)
    # ---- the joined table is loaded before, and independent of, the input lines: its errors cannot be hidden by an input without
    #      admitted rows
    R.rule("C05.eager", "the joined table is loaded up front: ExecutionEngine::execute_joined_table calls JoinedTableData::execute on every path "
                        "on which the statement has a join clause, nothing else loads it, and the per-line entry ExecutionEngine::execute "
                        "cannot reach the load - so a missing joined file / table / column is an error whatever the input contains")
    ENGX = "sqlgrep::execution::execution_engine::ExecutionEngine::"
    ejt = R.need_fn(ENGX + "execute_joined_table")
    loads = [c for c in ejt.calls if short(c.name) == J + "JoinedTableData::execute"]
    clos_loads = [(g, c) for g in PR.closures_of(P, ejt) for c in g.calls if short(c.name) == J + "JoinedTableData::execute"]
    jcs = [c for c in ejt.calls if short(c.name).endswith("Statement::join_clause")]
    if not loads and not clos_loads:
        R.violation("C05.eager", "execute_joined_table|no-load", "execute_joined_table no longer loads the joined table (JoinedTableData::execute "
                    "is not called): the load, and with it the report of a missing file / table / column, happens somewhere that depends on "
                    "the input", [ejt.loc()])
    elif loads and jcs:
        g = PR.discr_guard(ejt, jcs[0], "Some")
        if g is not None:
            good, badb = PR.all_paths_hit(ejt, g[1], [c.bb for c in loads])
            if good:
                R.ok("C05.eager", "execute_joined_table|load", "join clause present => JoinedTableData::execute on every path", loads[0].loc())
            else:
                R.violation("C05.eager", "execute_joined_table|conditional-load", "with a join clause present execute_joined_table can return "
                            "without loading the joined table", [ejt.loc(badb)])
        else:
            R.ok("C05.eager", "execute_joined_table|load", "JoinedTableData::execute called (join clause not matched by a switch)", loads[0].loc(),
                 nontrivial=False)
    else:
        R.ok("C05.eager", "execute_joined_table|load", "JoinedTableData::execute called from the Some(join clause) closure", (loads or [clos_loads[0][1]])[0].loc(),
             nontrivial=False)
    per_line = R.need_fn(ENGX + "execute", raw=True)
    jload = R.need_fn(J + "JoinedTableData::execute", raw=True)
    pre = P.reachable([per_line])
    if jload.key in pre:
        chain = [jload.key]
        while pre.get(chain[-1]) is not None and len(chain) < 12:
            chain.append(pre[chain[-1]])
        R.violation("C05.eager", "execute|reaches-load",
                    "the per-line entry ExecutionEngine::execute reaches JoinedTableData::execute (%s): the joined table is loaded when a line "
                    "arrives, so with an input that has no admitted line a missing joined file / table / column is never reported"
                    % " <- ".join(P.fns[k].spath.split("::")[-1] for k in chain), [jload.loc()])
    else:
        R.ok("C05.eager", "execute|no-load", "JoinedTableData::execute is not reachable from the per-line entry", per_line.loc())
    who = sorted(set(E_owner(P, h).spath for h in P.fns.values() if h.target == "lib" and
                     any(jload.key in P.callee_keys(h, c) for c in h.calls)))
    extra = [w for w in who if w != ENGX + "execute_joined_table" and w in PR.pinned_fns()]
    if extra:
        R.violation("C05.eager", "load|other-caller", "JoinedTableData::execute is also called from %s" % extra, [jload.loc()])
    # ... and every executor loads it before, and on every path to, its first input line
    from . import rules_exec_loops as L
    for name in (L.FILE_EXEC,):      # (following a file rejects joins: JoinNotSupported)
        xf = L.exec_view(R, name)
        sn = "::".join(xf.spath.split("::")[-2:])
        jcs_ = L.calls_reaching(xf, r"ExecutionEngine::execute_joined_table$")
        lps = [l for l in L.input_loops(xf) if l.ok]
        if not jcs_:
            R.violation("C05.eager", sn + "|no-load", "%s no longer loads the joined table" % xf.path, [xf.loc()])
            continue
        inloop = [c for c in jcs_ if any(c.bb in l.body for l in lps)]
        good = any(PR.all_paths_hit(xf, 0, [c.bb])[0] for c in jcs_ if c not in inloop) or \
            any(all(xf.dominates(c.bb, l.header) for l in lps) for c in jcs_ if c not in inloop)
        if inloop or not good:
            R.violation("C05.eager", sn + "|lazy-load", "%s loads the joined table %s: with an input that has no line a missing joined file / "
                        "table / column is not reported" % (xf.path, "inside its input loop" if inloop else "on some paths only"),
                        [(inloop or jcs_)[0].loc()])
        else:
            R.ok("C05.eager", sn + "|load-first", "execute_joined_table dominates the input loops", jcs_[0].loc())
    # the queried side's join column is resolved (and its absence reported) on every path of the lookup: no fast path returns before it
    gj = R.need_fn(J + "JoinedTableData::get_joined_row")
    ix = [c for c in gj.calls if short(c.name).endswith("TableDefinition::index_for")]
    if not ix:
        R.violation("C05.err", "get_joined_row|index_for|missing", "get_joined_row no longer resolves the join column of the queried table", [gj.loc()])
    else:
        good, badb = PR.all_paths_hit(gj, 0, [ix[0].bb])
        tb = [t for t in PR.calls_matching(gj, r"Try>::branch$") if any(o.kind == "call" and o.call is ix[0] for o in F.origins(gj, t.args[0], depth=8))]
        if good and (tb or _explicit_error_return(gj, ix[0])):
            R.ok("C05.err", "get_joined_row|index_for", "column resolved and `?`-propagated on every path", ix[0].loc())
        else:
            R.violation("C05.err", "get_joined_row|index_for|bypassed",
                        "get_joined_row can return before (or without) reporting a missing join column of the queried table: with an empty joined "
                        "file a wrong column name looks like an empty result", [gj.loc(badb) if badb is not None else ix[0].loc()])
    # ---- NULL keys: every access of the Value-keyed index happens on paths where the key was tested to be non-NULL
    def ident(fn_, op):
        out = set()
        for o in F.origins(fn_, op, depth=10):
            if o.kind == "arg":
                out.add(("arg", o.arg))
            elif o.kind == "call" and not F.TRANSPARENT.search(short(o.call.name)):
                out.add(("call", o.call.bb))
        return out
    for fname, which in (("JoinedTableData::add_row", "insert"), ("JoinedTableData::get_joined_row", "lookup")):
        f0 = R.need_fn(J + fname)
        f = PR.view(P, f0, keep=r"^sqlgrep::model::Value::(is_null|is_not_null)$")
        fa = PR.facts(f)
        sinks = [c for c in f.calls if re.search(r"^std::collections::hash::map::HashMap::(entry|insert|get|get_mut|contains_key|remove)$", short(c.name))
                 and (c.func.get("res_targs") or c.targs)[:1] == ["sqlgrep::model::Value"]]
        if not sinks:
            R.violation("C05.nullkey", fname + "|" + which, "%s no longer accesses a HashMap keyed by the join value" % f0.path, [f0.loc()])
            continue
        bad = None
        for sk in sinks:
            kid = ident(f, sk.args[1])
            ok = False
            for call, val in fa.call_facts(sk.bb):
                sn = short(call.name)
                if (sn.endswith("Value::is_null") and val is False) or (sn.endswith("Value::is_not_null") and val is True):
                    if ident(f, call.args[0]) & kid:
                        ok = True
            if not ok:
                bad = sk
        if bad is None:
            R.ok("C05.nullkey", fname + "|" + which, "every index %s happens only where the key was tested non-NULL (%d access(es))" % (which, len(sinks)),
                 sinks[0].loc())
        else:
            R.violation("C05.nullkey", fname + "|" + which, "the join index %s (%s) is reachable without a NULL test of the key: rows whose join "
                                                            "column is NULL on both sides would be joined" % (which, short(bad.name).split("::")[-1]),
                        [bad.loc()])
    # ---- partner loop
    ej = R.need_fn(J + "execute_join")
    nxt = [c for c in ej.calls if short(c.name).endswith("slice::iter::Iter<'a, T> as core::iter::traits::iterator::Iterator>::next")]
    ad = [c for c in ej.calls if re.search(r"Iterator::(rev|skip|take|filter|step_by|take_while|skip_while|filter_map|find|position|last|nth)$|::(sort|sort_by|reverse|dedup)$", short(c.name))]
    if len(nxt) != 1:
        R.violation("C05.pairs", "execute_join|loop", "execute_join: expected one loop over the partner rows (found %d)" % len(nxt), [ej.loc()])
    else:
        g = PR.discr_guard(ej, nxt[0], "Some")
        hdr, body = PR.loop_of(ej, nxt[0].bb)
        ex = [c for c in ej.calls if c.bb in body and (c.func.get("trait") or "").startswith("core::ops::function::Fn") and
              "{closure" not in (c.args[0].get("ty") or "" if c.args else "")]      # (a local helper closure is not the `execute` callback)
        # consumers of the pair's result: calls in the loop body that receive the value returned by the execute call
        mg = []
        if len(ex) == 1:
            for c in ej.calls:
                if c.bb in body and c is not ex[0] and not re.search(r"Try>::branch$|from_residual$", short(c.name)):
                    if any(o.kind == "call" and o.call is ex[0] for a_ in c.args for o in F.origins(ej, a_, depth=10)):
                        mg.append(c)
        okc = len(ex) == 1 and len(mg) == 1
        if okc:
            r1 = count_range(ej, g[1], {hdr}, {ex[0].bb})
            r2 = count_range(ej, g[1], {hdr}, {mg[0].bb})
            okc = r1 == (1, 1) and r2 == (1, 1)
        if not okc and len(ex) == 1:
            # the merge spelled out in the loop: on the path where the pair produced a row, that row is put into the accumulator exactly
            # once (`acc = Some(result)` or `acc.data.extend(result.data)`), on the path where it produced none, nothing is merged
            byval = [c for c in mg if any(a_.get("k") in ("copy", "move") and not (a_.get("ty") or "").startswith("&") and
                                          any(o.kind == "call" and o.call is ex[0] for o in F.origins(ej, a_, depth=10)) for a_ in c.args)]
            M = set(c.bb for c in byval)
            for i_, st_ in ej.stmts():
                if i_ in body and st_["k"] == "assign" and st_["rv"]["k"] == "aggr" and st_["rv"].get("variant") == "Some" and st_["rv"]["ops"] and \
                        "ResultRow" in (st_["rv"]["ops"][0].get("ty") or "") and \
                        any(o.kind == "call" and o.call is ex[0] for o in F.origins(ej, st_["rv"]["ops"][0], depth=10)):
                    M.add(i_)
            sg = PR.discr_guard(ej, ex[0], "Some")
            if M and sg and sg[2]:
                r1 = count_range(ej, g[1], {hdr}, {ex[0].bb})
                r_some = count_range(ej, sg[1], {hdr}, M)
                r_none = [count_range(ej, nt_, {hdr}, M) for nt_ in sg[2] if nt_ in body]
                okc = r1 == (1, 1) and r_some == (1, 1) and all(r_ == (0, 0) for r_ in r_none)
        # leaving the loop from inside the body other than through the iterator end: only error returns
        leaves = set()
        for x in body:
            for y in ej.succs(x):
                if y not in body and not (x == g[0]):
                    leaves.add(y)
        silent = []
        for y in leaves:
            reg = ej.reachable_from(y)
            if not any(short(c.name).endswith("::from_residual") for c in ej.calls if c.bb in reg):
                silent.append(y)
        if okc and not silent and not ad:
            R.ok("C05.pairs", "execute_join", "one execute + one consumer of its result per partner on every path; only error exits; plain slice traversal",
                 nxt[0].loc())
        else:
            R.violation("C05.pairs", "execute_join|per-partner",
                        "execute_join does not execute and merge every partner exactly once (execute calls %d, result consumers %d, early exits %d, adapters %s): "
                        "pairs of one input row can be dropped or duplicated" % (len(ex), len(mg), len(silent), [short(c.name).split("::")[-1] for c in ad]),
                        [nxt[0].loc()])
    # helpers of the merge (join.rs functions reachable from execute_join): a pair without output must be skipped, not abort the merge
    reach = P.reachable([ej])
    n_help = 0
    for k in sorted(reach):
        g_ = P.fns[k]
        if not g_.spath.startswith(J) or g_.spath.endswith("create_joined_column_mapping"):
            continue
        n_help += 1
        opt_try = [c for c in g_.calls if re.search(r"Try>::branch$", short(c.name)) and (c.func.get("res_targs") or c.targs or [""])[0].startswith("core::option::Option<")]
        if opt_try and g_.key != ej.key:
            R.violation("C05.pairs", "%s|option-early-return" % g_.spath.split("::")[-1],
                        "%s returns early when a pair produced no output row (`?` on an Option): the remaining pairs of the same input row are dropped"
                        % g_.path, [opt_try[0].loc()])
        elif g_.key != ej.key:
            R.ok("C05.pairs", g_.spath.split("::")[-1], "no early return on an empty pair result", g_.loc())
    # bucket type
    a = P.adts.get(J + "JoinedTableData")
    rows_ty = [fl["ty"] for v in (a or {"variants": []})["variants"] for fl in v["fields"] if "sqlgrep::data_model::Row" in fl["ty"]]
    if rows_ty and all("alloc::vec::Vec<sqlgrep::data_model::Row>" in t and t.startswith("std::collections::hash::map::HashMap<sqlgrep::model::Value")
                       for t in rows_ty):
        R.ok("C05.pairs", "bucket-type", "partners of a key are kept in a Vec (joined-file order)", "src/execution/join.rs")
    else:
        R.violation("C05.pairs", "bucket-type", "partners of a key are not kept in an insertion-ordered Vec<Row> (%s)" % rows_ty, ["src/execution/join.rs"])
    # ---- `*` lists the queried table's columns followed by the joined table's, in definition order
    R.rule("C05.star", "the joined row's key list is the queried table's keys (with_table_keys) followed by one key per joined column, added in the "
                       "order of JoinedTableData::column_names (a Vec)")
    cm = R.need_fn(J + "create_joined_column_mapping")
    wk = [c for c in cm.calls if short(c.name).endswith("HashMapColumnProvider::with_table_keys")]
    addk = [c for c in cm.calls if (c.func.get("trait_method") == "add_key") or short(c.name).endswith("::add_key")]
    okstar = bool(wk) and bool(addk)
    why = ""
    if okstar:
        for c in addk:
            lp = PR.loop_of(cm, c.bb)
            if not lp or not cm.dominates(wk[0].bb, c.bb):
                okstar = False
                why = "add_key outside a loop or before the queried table's keys"
                break
            nxt = [x for x in cm.calls if x.bb in lp[1] and re.search(r"Iterator>::next$|Iterator for core::ops::range::Range<A>>::next$", short(x.name))]
            ts = " ".join((nxt[0].func.get("res_targs") or nxt[0].targs)) if nxt else ""
            if nxt and "ops::range::Range<" in short(nxt[0].name) and _range_over_names(cm, nxt[0], c):
                continue        # `for i in 0..names.len()` with the key taken from names[i]: the same order
            if not nxt or "hash::" in ts or "hash::" in short(nxt[0].name) or "btree" in short(nxt[0].name) or "alloc::string::String" not in ts:
                okstar = False
                why = "the joined keys are added while iterating %s" % (ts or "?")
                break
            srcs = set()
            for x in cm.calls:
                if short(x.name).endswith("IntoIterator>::into_iter") or short(x.name).endswith("slice::<impl [T]>::iter"):
                    srcs |= set(F.source_fields(cm, x.args[0], depth=8))
        # per joined column exactly one key
        if okstar:
            lp = PR.loop_of(cm, addk[0].bb)
            nxt = [x for x in cm.calls if x.bb in lp[1] and re.search(r"Iterator>::next$|Iterator for core::ops::range::Range<A>>::next$", short(x.name))][0]
            g5 = PR.discr_guard(cm, nxt, "Some")
            r5 = count_range(cm, g5[1], {lp[0]}, {c.bb for c in addk}) if g5 else None
            if r5 != (1, 1):
                okstar = False
                why = "%s keys are added per joined column" % (r5,)
    if okstar:
        R.ok("C05.star", "create_joined_column_mapping", "queried keys first, then one key per joined column in Vec order", addk[0].loc())
    else:
        R.violation("C05.star", "create_joined_column_mapping", "`*` over a join does not list the queried table's columns followed by the joined "
                                                                  "table's columns in definition order (%s)" % why, [cm.loc()])
    # ---- the joined side stays addressable by its table-qualified name: that binding is made after the queried row's names are in
    #      the map and nothing overwrites it afterwards (with the same table on both sides the qualified names of the two sides coincide)
    R.rule("C05.qualified", "in the pair's column mapping the joined table's qualified name is bound to the joined value unconditionally, "
                            "after the queried row's mapping was built, and no later insert / extend can replace it")
    def deep_fields(op):
        """field names on the provenance of a key, followed through iterator plumbing (iter / zip / enumerate / next / as_str)"""
        out, work, seen_c = set(), [op], set()
        while work and len(seen_c) < 60:
            cur = work.pop()
            if cur.get("k") not in ("copy", "move"):
                continue
            vis = []
            for o in F.origins(cm, cur, depth=12, visit=vis.append):
                if o.kind == "call" and id(o.call) not in seen_c:
                    seen_c.add(id(o.call))
                    if re.search(r"Iterator::(zip|enumerate|map|by_ref|peekable)$|::iter$|Iterator>::next$|::as_str$|Deref>::deref$|IntoIterator>::into_iter$|Index<.*>>::index$",
                                 short(o.call.name)):
                        work.extend(o.call.args)
            for pl in vis:
                out |= set(place_fields(pl))
        return out
    qins = [c for c in cm.calls if re.search(r"hash::map::HashMap::insert$", short(c.name)) and len(c.args) > 1 and
            "fully_qualified_column_names" in deep_fields(c.args[1])]
    ccm = [c for c in cm.calls if short(c.name).endswith("ExecutionEngine::create_columns_mapping")]
    if not qins:
        R.violation("C05.qualified", "create_joined_column_mapping|no-qualified", "the joined row's values are no longer bound to the joined "
                    "table's qualified column names", [cm.loc()])
    else:
        q = qins[0]
        lpq = PR.loop_of(cm, q.bb)
        after = cm.reachable_from(q.bb)
        later = [c for c in cm.calls if c.bb in after and (lpq is None or c.bb not in lpq[1]) and
                 re.search(r"hash::map::HashMap::(extend|insert|remove|retain|clear)$|Extend<.*>>::extend$", short(c.name)) and
                 c.args and "HashMap<&str, &sqlgrep::model::Value" in (c.args[0].get("ty") or "").replace("'a ", "")]
        late_build = [c for c in ccm if c.bb in after and (lpq is None or c.bb not in lpq[1])]
        cond = [1 for (sw, lab, tgt) in F.guards_dominating(cm, q.bb) if lpq is not None and sw in lpq[1] and F.switch_info(cm, sw) and
                F.switch_info(cm, sw)[0] == "bool"]
        if later or late_build or cond:
            R.violation("C05.qualified", "create_joined_column_mapping|overwritten",
                        "the binding of the joined table's qualified name to the joined value %s: when both sides use the same table the "
                        "qualified name then yields the queried row's value (the pair (r, s) is seen as (r, r))"
                        % ("is made under a condition" if cond and not (later or late_build) else
                           "is followed by %s into the same map" % short((later or late_build)[0].name).split("::")[-1]), [(later or late_build or [q])[0].loc()])
        else:
            R.ok("C05.qualified", "create_joined_column_mapping", "qualified joined name bound last and unconditionally", q.loc())
    # ---- every pair gets its own column mapping: the map the partner's columns are inserted into is created inside the partner loop
    R.rule("C05.fresh", "the column mapping of a pair is built from the queried row anew for every partner: no map that already holds a "
                        "previous partner's columns is extended (the clash guard `!contains_key(name)` would keep the first partner's value)")
    ejw = PR.view(P, ej, keep=r"JoinedTableData::get_joined_row$|ExecutionEngine::create_columns_mapping$|HashMapColumnProvider::")
    pn = [c for c in ejw.calls if short(c.name).endswith("slice::iter::Iter<'a, T> as core::iter::traits::iterator::Iterator>::next")
          and "sqlgrep::data_model::Row" in " ".join(c.func.get("res_targs") or c.targs)]
    inserts = [c for c in ejw.calls if re.search(r"hash::map::HashMap::(insert|entry)$", short(c.name)) and
               "sqlgrep::model::Value" in " ".join(c.func.get("res_targs") or c.targs)]
    if pn and inserts:
        lp_ = PR.loop_of(ejw, pn[0].bb)
        bodyp = lp_[1] if lp_ else set()
        stale = []
        for c in inserts:
            if c.bb not in bodyp:
                continue
            srcs = [o.call for o in F.origins(ejw, c.args[0], depth=10) if o.kind == "call" and
                    re.search(r"create_columns_mapping$|HashMap::(new|with_capacity|default)$|hash::map::HashMap<.*Default>::default$|Clone>::clone$", short(o.call.name))]
            if srcs and not any(sc.bb in bodyp for sc in srcs):
                stale.append((c, srcs[0]))
        if stale:
            c, sc = stale[0]
            R.violation("C05.fresh", "execute_join|mapping-shared-across-partners",
                        "the map the joined columns are inserted into is created once per input row (%s at line %d), outside the loop over the "
                        "partner rows: from the second partner on, a joined column's plain name still holds the previous partner's value"
                        % (short(sc.name).split("::")[-1], sc.line), [c.loc(), sc.loc()])
        else:
            R.ok("C05.fresh", "execute_join", "the pair's mapping is created inside the partner loop (%d insert site(s))" % len(inserts), pn[0].loc())
    else:
        R.note("C05.fresh: partner loop / mapping inserts not found in execute_join (view); not decided")
    # ---- outer row (on execute_join with its local helpers inlined; guards read as path facts, so `a && b`, a predicate
    #      function or early returns are all the same to the rule)
    ejv = PR.view(P, ej, keep=r"JoinedTableData::get_joined_row$|::create_joined_column_mapping$|::extend_option_result_row$")
    fe = [c for c in ejv.calls if short(c.name) == "alloc::vec::from_elem"]
    fa = PR.facts(ejv)
    if not fe:
        R.violation("C05.outer", "execute_join|shape", "no all-NULL row (vec![NULL; n]) is built for an OUTER JOIN without partner", [ej.loc()])
    for c in fe:
        elem_null = any(o.kind == "aggr" or (o.kind == "const") for o in F.origins(ejv, c.args[0], depth=4)) and \
            any(st["rv"]["k"] == "aggr" and st["rv"].get("variant") == "Null" for i, st in ejv.stmts()
                if st["k"] == "assign" and c.args[0]["k"] != "const" and st["pl"]["l"] == c.args[0]["pl"]["l"])
        len_ok = False
        for o in F.origins(ejv, c.args[1], depth=6):
            if o.kind == "call" and short(o.call.name) == "alloc::vec::Vec::len":
                sp = F.source_place(ejv, o.call.args[0])
                flds = [e for e in (sp["p"] if sp else []) if isinstance(e, dict) and "f" in e]
                if flds and (flds[-1].get("adt") or "").endswith("join::JoinedTableData") and "alloc::string::String" in (flds[-1].get("ty") or ""):
                    len_ok = True
        conds = set()
        for flds, root, val in fa.place_facts(c.bb):
            if val is True and 1 <= root <= ejv.arg_count and not flds and ejv.local_ty(root) == "bool":
                conds.add("allow_outer")
        for key, val in fa.at(c.bb):
            a_ = fa.atoms.get(key, {})
            if a_.get("kind") == "place" and val is True:
                fe_ = [e for e in a_["place"]["p"] if isinstance(e, dict) and "f" in e]
                if fe_ and (fe_[-1].get("adt") or "").endswith("model::JoinClause") and fe_[-1].get("ty") == "bool":
                    conds.add("is_outer")
        for key, val in fa.at(c.bb):
            a_ = fa.atoms.get(key, {})
            # the caller's permission may be a two-variant policy enum instead of a bool parameter
            if a_.get("kind") == "discr" and a_.get("call") is None and 1 <= a_["place"]["l"] <= ejv.arg_count and \
                    (a_.get("adt") or "").startswith("sqlgrep::") and not [e for e in a_["place"]["p"] if isinstance(e, dict)]:
                conds.add("allow_outer")
        for call, val in fa.call_facts(c.bb):
            if short(call.name).endswith("JoinedTableData::get_joined_row") and val == "None":
                conds.add("no-partner")
        if not fa.ok:
            R.note("C05.outer: path facts unavailable for execute_join (state cap)")
        if elem_null and len_ok and conds >= {"is_outer", "allow_outer", "no-partner"}:
            R.ok("C05.outer", "execute_join", "vec![NULL; joined columns] only without a partner under is_outer && allow_outer", c.loc())
        else:
            R.violation("C05.outer", "execute_join|outer-row", "OUTER row: all NULL=%s, one per joined column=%s, holds on every path to it: %s "
                                                               "(needs no partner, is_outer, allow_outer)" % (elem_null, len_ok, sorted(conds)), [c.loc()])
    # ---- side mapping in the converter
    tj = R.need_fn("sqlgrep::parsing::parser_tree_converter::transform_join")
    jcs = [(i, s) for i, s in tj.stmts() if s["k"] == "assign" and s["rv"]["k"] == "aggr" and s["rv"].get("variant") == "JoinClause"]
    maps = []
    for i, s in jcs:
        fields = s["rv"].get("fields", [])
        m = {}
        for fld in ("joined_column", "joiner_column", "joined_table"):
            if fld in fields:
                op = s["rv"]["ops"][fields.index(fld)]
                if op["k"] in ("copy", "move"):
                    own = [x for x in F.source_fields(tj, op) if x.endswith("_column") or x.endswith("_table")]
                    if own:
                        m[fld] = own[-1]
                        continue
                for o in F.origins(tj, op, depth=6, through_calls=False):
                    if o.place is not None and isinstance(o.place, dict) and "p" in o.place:
                        fl = [x for x in place_fields(o.place) if x.endswith("_column") or x.endswith("_table")]
                        if fl:
                            m[fld] = fl[-1]
        maps.append(m)
    want = [{"joined_column": "right_column", "joiner_column": "left_column", "joined_table": "joiner_table"},
            {"joined_column": "left_column", "joiner_column": "right_column", "joined_table": "joiner_table"}]
    if sorted(maps, key=str) == sorted(want, key=str):
        R.ok("C05.side", "transform_join", "left=from: (joiner=left, joined=right); right=from: (joiner=right, joined=left)", tj.loc())
    else:
        R.violation("C05.side", "transform_join", "the ON columns are mapped %s (expected %s): a join would compare the wrong columns for one orientation"
                    % (maps, want), [tj.loc()])
    R.assume("the set and order of pairs as values is not computed; name-clash resolution under `*` is not decided")
