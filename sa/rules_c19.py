"""C19 — interrupting a query stops it promptly and leaves consistent output.

Where the `running` flag is sampled relative to reading, executing and printing is a CFG fact."""
import re
from .prog import short, place_fields
from . import flow as F
from . import pathrules as PR
from . import rules_exec_loops as L


def _is_running_load(f, c):
    """the load is on an AtomicBool (the only atomic flag of the executors is the interrupt flag)"""
    ts = c.func.get("res_targs") or c.targs
    if ts[:1] == ["bool"] or "AtomicBool" in short(c.name):
        return True
    if c.dest is not None and not c.dest["p"] and f.local_ty(c.dest["l"]) == "bool":
        return True   # an atomic load that yields a bool is a load of an AtomicBool
    for o in F.origins(f, c.args[0], depth=10):
        if o.kind in ("arg", "place") and o.place is not None:
            if "running" in place_fields(o.place) or f.local_name(o.place["l"]) == "running":
                return True
        if o.kind == "call" and o.call.args:
            for o2 in F.origins(f, o.call.args[0], depth=6):
                if o2.place is not None and ("running" in place_fields(o2.place) or f.local_name(o2.place["l"]) == "running"):
                    return True
    return False


def _line_counter_problem(f, dividend, loops):
    """None if the dividend of `% n` is the enumerate index of the line loop or a local incremented by one on every pass of the loop body"""
    os_ = F.origins(f, dividend, depth=12)
    for lp in loops:
        if any(o.kind == "call" and o.call is lp.next and re.search(L.ENUM_NEXT, short(o.call.name)) for o in os_):
            return None
    for o in os_:
        if o.kind == "binop" and o.extra in ("Add", "AddWithOverflow", "AddUnchecked"):
            one = 1 in (o.place["l"].get("int"), o.place["r"].get("int"))
            if not one:
                continue
            # the increment must lie on every path through the body of a line loop
            for i, st in f.stmts():
                if st["k"] == "assign" and st["rv"]["k"] == "binop" and st["rv"]["l"] is o.place["l"]:
                    for lp in loops:
                        # every way from reading a line back to the loop header passes the increment (leaving the loop is fine)
                        if i in lp.body and lp.header not in f.reachable_from(lp.some, avoid={i}):
                            return None
    calls = [short(o.call.name) for o in os_ if o.kind == "call"]
    return "it is derived from %s" % (calls[0] if calls else "a value that is not advanced once per line")


def _is_error_exit(f, exit_bb, region):
    """the exit is reached (within region) only after an Err / None was constructed for the return value"""
    return any(st["k"] == "assign" and st["rv"]["k"] == "aggr" and st["rv"].get("variant") in ("Err",) and exit_bb in f.reachable_from(i)
               for i, st in f.stmts() if i in region)


def _only_called_from(P, g, allowed, depth=2):
    """every (transitive, bounded) caller of g is one of the allowed functions"""
    callers = set()
    for h in P.fns.values():
        if h.target != g.target:
            continue
        if any(g.key in P.callee_keys(h, c) for c in h.calls):
            o = h
            while o.kind == "Closure" and o.parent_key in P.fns:
                o = P.fns[o.parent_key]
            callers.add(o.key)
    if not callers:
        return False
    for k in callers:
        o = P.fns[k]
        if o.spath in allowed:
            continue
        if depth > 0 and (not o.loops() or o.spath not in PR.pinned_fns()) and _only_called_from(P, o, allowed, depth - 1):
            continue
        return False
    return True

def run(R):
    P = R.prog
    R.rule("C19.sample", "in each executor loop the running flag is loaded after the line is read and the load dominates executing and "
                         "printing that line; its false edge leaves every input loop")
    R.rule("C19.quiet", "the interrupt path constructs no error and, for aggregates, still passes the final result call and print")
    R.rule("C19.join", "while the joined file is loaded the flag is sampled at least every 10 lines")
    R.rule("C19.flag", "the flag is stored only by the query start (true) and the Ctrl-C handler (false)")
    for name in (L.FILE_EXEC, L.FOLLOW_EXEC):
        f = L.exec_view(R, name)
        sn = "::".join(f.spath.split("::")[-2:])
        loops = [l for l in L.input_loops(f) if L.is_line_loop(l) and l.ok]
        if len(loops) != 1:
            R.violation("C19.sample", sn + "|shape", "%s: expected one line loop" % f.path, [f.loc()])
            continue
        lp = loops[0]
        loads = [c for c in L.running_load(f, lp) if _is_running_load(f, c)]
        if len(loads) != 1:
            R.violation("C19.sample", sn + "|no-load", "%s: the line loop does not sample the running flag exactly once per line (found %d loads)"
                        % (f.path, len(loads)), [f.loc(lp.header)])
            continue
        ld = loads[0]
        g = PR.bool_guard(f, ld)
        if g is None:
            R.violation("C19.sample", sn + "|unbranched", "%s: the loaded flag is not branched on" % f.path, [ld.loc()])
            continue
        sw, t_t, f_t = g
        problems = []
        if not f.dominates(lp.some, ld.bb):
            problems.append(("load-before-read", "the flag is sampled before the line is read"))
        else:
            good, badb = PR.all_paths_hit(f, lp.some, [ld.bb])
            if not good:
                problems.append(("exit-before-sample", "between reading a line and sampling the flag the function can return (e.g. report a read error): "
                                                       "an interrupted query would still report an error for a line it must not consume"))
        for c in L.calls_reaching(f, L.ENGINE_EXEC) + L.calls_reaching(f, L.PRINT):
            if c.bb in lp.body and not PR.dominated_by_edge(f, c.bb, sw, t_t):
                problems.append(("late-sample|" + short(c.name).split("::")[-1],
                                 "%s of a line is not dominated by the running==true edge: an interrupted query still executes/prints it"
                                 % short(c.name).split("::")[-1]))
        # false edge: no input-consuming call reachable
        after = PR.flag_reach(f, f_t)
        if after is None:
            after = f.reachable_from(f_t)
        cons = [c for c in L.consuming_calls(f) if c.bb in after]
        if cons:
            problems.append(("continues-reading", "after an interrupt control can still reach %s (further input is consumed)"
                             % short(cons[0].name)))
        # loading the joined table polls the same flag and returns quietly when it is cleared: no line may be executed after the
        # load without the flag having been sampled in between
        for jc in L.calls_reaching(f, r"ExecutionEngine::execute_joined_table$"):
            tgt = f.blocks[jc.bb]["term"].get("target")
            if tgt is None:
                continue
            unsampled = f.reachable_from(tgt, avoid={ld.bb})
            hit = [c for c in L.calls_reaching(f, L.ENGINE_EXEC) + L.calls_reaching(f, L.PRINT) if c.bb in unsampled and c.bb in lp.body]
            if hit:
                problems.append(("load-then-execute", "after the joined table is loaded (which returns quietly, half loaded, on an interrupt) "
                                 "%s of a line is reached without sampling the flag again: an interrupted query consumes one more line and "
                                 "joins it against a partial table" % short(hit[0].name).split("::")[-1]))
        if problems:
            for k, msg in problems:
                R.violation("C19.sample", sn + "|" + k, "%s: %s" % (f.path, msg), [ld.loc()])
        else:
            R.ok("C19.sample", sn, "load after next(), dominates execute and print, false edge leaves all input loops", ld.loc())
        # quiet: no Err constructed on the interrupt path; aggregate result still produced
        errs = [s for i, s in f.stmts() if i in after and s["rv"]["k"] == "aggr" and s["rv"].get("variant") == "Err"]
        if errs:
            R.violation("C19.quiet", sn + "|error", "%s: the interrupt path constructs an error" % f.path,
                        ["%s:%d" % (f.file, errs[0]["line"])])
        elif name == L.FILE_EXEC:
            agg = PR.calls_matching(f, r"ExecutionEngine::is_aggregate$")
            miss = PR.flag_reach(f, f_t, avoid=set(c.bb for c in agg)) if agg else None
            if miss is None:
                good = bool(agg) and PR.all_paths_hit(f, f_t, [c.bb for c in agg])[0]
            else:
                # exits reached without passing the aggregate test; error exits (a `?` that fails) do not count
                good = bool(agg) and not any(b in miss and not _is_error_exit(f, b, miss) for b in f.exits())
            pr = [c for c in PR.calls_matching(f, L.PRINT) if c.bb not in lp.body]
            if good and pr:
                R.ok("C19.quiet", sn, "interrupt path reaches the final aggregate result + print, no error constructed", ld.loc())
            else:
                R.violation("C19.quiet", sn + "|no-final-table", "%s: the interrupt path bypasses the final aggregate result/print" % f.path,
                            [ld.loc()])
        else:
            R.ok("C19.quiet", sn, "interrupt path constructs no error", ld.loc())
    # join loader
    jf = L.exec_view(R, L.JOIN_EXEC)
    loads = [c for c in PR.calls_matching(jf, L.ATOMIC_LOAD) if _is_running_load(jf, c)]
    rems = [(i, s) for i, s in jf.stmts() if s["rv"]["k"] == "binop" and s["rv"]["op"] == "Rem"]
    ok = False
    if len(loads) == 1 and rems:
        c = rems[0][1]["rv"]["r"].get("int")
        lps = [l for l in L.input_loops(jf) if l.ok]
        g = PR.bool_guard(jf, loads[0])
        cnt_problem = _line_counter_problem(jf, rems[0][1]["rv"]["l"], lps) if lps else None
        if cnt_problem:
            R.violation("C19.join", "JoinedTableData::execute|counter", "the sampling interval of the joined-file loop does not count lines read: %s "
                        "(lines that do not advance it are read without ever sampling the flag)" % cnt_problem,
                        ["%s:%d" % (jf.file, rems[0][1]["line"])])
            ok = True
        elif c is not None and 0 < c <= 10 and g and lps:
            after = jf.reachable_from(g[2])
            # an interrupted load ends exactly like a completed one (the rows read so far are the table): every path from the false
            # edge to the function exit goes through the statement(s) that build the value the completed load returns - a different
            # value (None, an error) for "interrupted" makes the rest of the run (the final aggregate table) fail or differ
            lp_ = lps[0]
            normal = set()
            for nt_ in (getattr(lp_, "none", None) or []):
                normal |= jf.reachable_from(nt_)
            ret_blocks = set(i for i, st in jf.stmts() if i in normal and st["k"] == "assign" and st["pl"]["l"] == 0 and not st["pl"]["p"])
            same_end, badb = PR.all_paths_hit(jf, g[2], ret_blocks) if ret_blocks else (True, None)
            if not same_end:
                # value-sensitive reachability: `Ok(())` of an inlined helper followed by `?` only takes the Continue edge
                fr = PR.flag_reach(jf, g[2], avoid=ret_blocks)
                if fr is not None:
                    ex_ = sorted(set(jf.exits()) & set(fr))
                    same_end, badb = (not ex_), (ex_[0] if ex_ else None)
            if [x for x in L.consuming_calls(jf) if x.bb in after]:
                R.violation("C19.join", "JoinedTableData::execute|continues", "after an interrupt the joined file keeps being read", [loads[0].loc()])
                ok = True
            elif not same_end:
                ok = True
                R.violation("C19.join", "JoinedTableData::execute|other-result",
                            "an interrupted load of the joined file does not return what a completed load returns (it leaves through its own "
                            "return): callers see a missing / different joined table, so the final aggregate table of an interrupted query "
                            "fails or differs instead of covering the lines consumed", [jf.loc(badb) if badb is not None else loads[0].loc()])
            elif True:
                ok = True
                R.ok("C19.join", "JoinedTableData::execute", "flag sampled every %d lines; false edge leaves the loop" % c, loads[0].loc())
            else:
                R.violation("C19.join", "JoinedTableData::execute|continues", "after an interrupt the joined file keeps being read", [loads[0].loc()])
                ok = True
        elif c is not None:
            R.violation("C19.join", "JoinedTableData::execute|interval", "the running flag is sampled every %s lines while loading the joined "
                                                                         "file (more than ten)" % c, [loads[0].loc()])
            ok = True
    if not ok:
        R.violation("C19.join", "JoinedTableData::execute|shape", "the joined-file loop does not sample the running flag every <= 10 lines",
                    [jf.loc()])
    # who stores the flag
    n = 0
    for f in P.fns.values():
        for c in PR.calls_matching(f, r"^core::sync::atomic::Atomic(Bool)?::(store|swap|fetch_and|fetch_or|fetch_xor|fetch_nand|compare_exchange|compare_exchange_weak|fetch_update)$"):
            n += 1
            owner = f
            while owner.kind == "Closure" and owner.parent_key in P.fns:
                owner = P.fns[owner.parent_key]
            val = c.args[1].get("v") if len(c.args) > 1 and c.args[1]["k"] == "const" else None
            key = "%s|%s|%s" % (owner.spath, short(c.name).split("::")[-1], val)
            allowed = {"sqlgrep::execute|store|true", "sqlgrep::main_normal|store|false"}
            # the Ctrl-C handler, wherever it is installed from: the closure handed to ctrlc::set_handler storing `false`
            handler = f.kind == "Closure" and f.target == "bin" and val == "false" and short(c.name).endswith("::store") and \
                any(re.search(r"^ctrlc::set_handler$", short(c2.name)) and f.key in (c2.func.get("closure_args") or []) or
                    (re.search(r"^ctrlc::set_handler$", short(c2.name)) and any(f.key.endswith(x) or x == f.raw.get("key") for x in (c2.func.get("closure_args") or [])))
                    for c2 in owner.calls)
            if (key in allowed or handler) and f.target == "bin":
                R.ok("C19.flag", key, "listed writer" if key in allowed else "the closure handed to ctrlc::set_handler", c.loc())
            else:
                R.violation("C19.flag", key, "unexpected writer of an atomic flag: %s in %s" % (short(c.name), f.path), [c.loc()])
    # readers: only the three input loops may sample the flag; a load deeper down (e.g. inside the printer) splits a line's output
    allowed_readers = {L.FILE_EXEC, L.FOLLOW_EXEC, L.JOIN_EXEC}
    for f in P.fns.values():
        if f.target != "lib":
            continue
        for c in PR.calls_matching(f, L.ATOMIC_LOAD):
            owner = f
            while owner.kind == "Closure" and owner.parent_key in P.fns:
                owner = P.fns[owner.parent_key]
            if owner.spath in allowed_readers:
                R.ok("C19.flag", "reader|" + owner.spath.split("::")[-2] + "::" + owner.spath.split("::")[-1], "input loop", c.loc(), nontrivial=False)
            elif owner.spath.startswith("sqlgrep::table_editor") or owner.spath.startswith("sqlgrep::python_wrapper"):
                continue
            elif _only_called_from(P, owner, allowed_readers) and (not owner.loops() or owner.spath not in PR.pinned_fns()):
                # a predicate helper of an input loop (`is_running()`): C19.sample analyses it inlined into its loop
                R.ok("C19.flag", "reader|" + owner.spath.split("::")[-2] + "::" + owner.spath.split("::")[-1],
                     "helper called only from the input loops", c.loc(), nontrivial=False)
            else:
                R.violation("C19.flag", "reader|" + owner.spath,
                            "%s samples an atomic flag: an interrupt observed below the line loop (e.g. while printing the rows of one line) leaves "
                            "output that is not a prefix of the uninterrupted output" % owner.path, [c.loc()])
    R.floor("C19.flag", 2)
    R.floor("C19.sample", 2)
    R.assume("signal delivery timing and the prefix relation between interrupted and uninterrupted output are not decided; "
             "the follower does not sample the flag while waiting for new data (observation)")
