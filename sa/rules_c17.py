"""C17 — printed records faithfully carry the result rows in every output format."""
import re, os
from .prog import short, place_fields
from . import flow as F
from . import pathrules as PR
from .extract import REPO

PRINT = "sqlgrep::executor::OutputPrinter::print"
PRINTLN = r"^sqlgrep::executor::Printer::println$|^<.* as sqlgrep::executor::Printer>::println$"


def count_range(fn, start, stops, counted, avoid_edges=()):
    """(min, max) number of blocks in `counted` over all acyclic paths from start to any block in stops"""
    memo = {}
    avoid_edges = set(avoid_edges)

    def go(b, stack):
        if b in stops:
            return (0, 0)
        if b in memo:
            return memo[b]
        if b in stack:
            return None
        res = None
        for y in fn.succs(b):
            if (b, y) in avoid_edges:
                continue
            r = go(y, stack | {b})
            if r is None:
                continue
            res = r if res is None else (min(res[0], r[0]), max(res[1], r[1]))
        if res is None:
            memo[b] = None
            return None
        c = 1 if b in counted else 0
        memo[b] = (res[0] + c, res[1] + c)
        return memo[b]

    return go(start, frozenset())


def run(R):
    P = R.prog
    R.rule("C17.once", "per result row exactly one record is printed on every path (two only on the CSV first-line path: header + record); "
                       "after the rows at most one separator line, only under multiple_rows && !single_result")
    R.rule("C17.header", "first_line is true only from the constructor, set to false on every path through the row loop and tested only "
                         "by the CSV header branch")
    R.rule("C17.pair", "in every format the value printed for column i is row.columns[i] with the enumerate index unmodified")
    R.rule("C17.json", "Value::json_value maps each variant to the JSON value of the same kind without coercion, with no wildcard arm; "
                       "records are serialised by serde_json (preserve_order)")
    R.rule("C17.route", "FileExecutor::execute prints each Some(result_row) at most once per line and the final aggregate table once")
    f = R.need_fn(PRINT)
    pl = [c.bb for c in f.calls if re.search(PRINTLN, short(c.name)) or re.search(PRINTLN, short(c.decl))]
    # the row loop: the iterator loop of print() itself whose body prints (however the iteration is spelled: iter(), enumerate(), ...)
    nx = []
    for c in f.calls:
        if not short(c.name).endswith("as core::iter::traits::iterator::Iterator>::next"):
            continue
        lp = PR.loop_of(f, c.bb)
        if lp and any(b in lp[1] for b in pl) and PR.discr_guard(f, c, "Some"):
            nx.append(c)
    if len(nx) != 1:
        R.violation("C17.once", "print|shape", "OutputPrinter::print: expected one printing loop over the result rows (found %d)" % len(nx), [f.loc()])
        return
    g = PR.discr_guard(f, nx[0], "Some")
    header, body = PR.loop_of(f, nx[0].bb)
    inloop = set(b for b in pl if b in body)
    # writes of first_line: assignments, or mem::replace/take through a &mut borrow of the field
    wr = [(i, s, s["rv"]["op"].get("v") if s["rv"]["k"] == "use" and s["rv"]["op"]["k"] == "const" else None)
          for i, s in f.stmts() if s["k"] == "assign" and "first_line" in place_fields(s["pl"]) and s["pl"]["l"] == 1]
    for c in f.calls:
        if re.search(r"^core::mem::(replace|take|swap)$", short(c.name)) and c.args:
            if "first_line" in F.source_fields(f, c.args[0]):
                v = c.args[1].get("v") if short(c.name).endswith("replace") and len(c.args) > 1 and c.args[1]["k"] == "const" else \
                    ("false" if short(c.name).endswith("take") else None)
                wr.append((c.bb, {"line": c.term["span"]["line"]}, v))
    outside = [(i, s) for i, s, v in wr if not (i in body and f.dominates(g[1], i))]
    if outside:
        R.violation("C17.header", "print|first_line-cleared-outside-rows",
                    "first_line is cleared outside the per-row path of print (line %d): a result with no rows consumes the CSV header, so a later "
                    "first record is printed without it" % outside[0][1]["line"], ["%s:%d" % (f.file, outside[0][1]["line"])])
    # first_line true edge
    fl_sw = []
    for (bb, s) in PR.field_reads(f, "first_line"):
        if isinstance(s, dict) and s.get("switch"):
            fl_sw.append(bb)
            continue
        l = s["pl"]["l"]
        for sw in sorted(f.reach):
            t = f.blocks[sw]["term"]
            if t["k"] == "switch" and t["discr"]["k"] in ("copy", "move") and t["discr"]["pl"]["l"] == l and not t["discr"]["pl"]["p"]:
                fl_sw.append(sw)
    if len(fl_sw) != 1:
        R.violation("C17.header", "print|first_line-tests", "first_line is tested %d times in print (expected once, for the CSV header)" % len(fl_sw),
                    [f.loc()])
        return
    sw = fl_sw[0]
    true_t = f.blocks[sw]["term"]["otherwise"]
    # paths that avoid the header edge: exactly one println
    r1 = count_range(f, g[1], {header}, inloop, avoid_edges={(sw, true_t)})
    # paths through the header edge: from true_t to header + from Some-edge to sw
    r_pre = count_range(f, g[1], {sw}, inloop)
    r_post = count_range(f, true_t, {header}, inloop)
    if r1 == (1, 1) and r_pre == (0, 0) and r_post == (2, 2):
        R.ok("C17.once", "print|per-row", "1 record per row on every path; CSV first line: header + record", f.loc(header))
    else:
        R.violation("C17.once", "print|per-row",
                    "println count per result row is %s on the normal paths (must be exactly 1) and %s+%s on the CSV first-line path (must be 0+2): "
                    "a record is dropped or duplicated on some path" % (r1, r_pre, r_post), [f.loc(header)])
    # the `lone input column prints just the line` case: the println that prints a single value needs all three guards
    R.rule("C17.lone-input", "only a result whose single column is named `input`, in text format, is printed as the bare line")
    eqs = [c for c in f.calls if re.search(r"String as core::cmp::PartialEq<&str>>::eq$|PartialEq<&B> for &A>::eq$|PartialEq<str>>::eq$", short(c.name))]
    special = None
    for c in eqs:
        g2 = PR.bool_guard(f, c)
        if g2:
            inside = [b for b in inloop if PR.dominated_by_edge(f, b, g2[0], g2[1])]
            if inside:
                special = (c, g2, inside)
    if special is None:
        R.violation("C17.lone-input", "print|no-special-case", "the `input`-only special case is gone or unrecognised", [f.loc()])
    else:
        c, g2, inside = special
        conds = set()
        for b in inside:
            for gsw, lab, tgt in F.guards_dominating(f, b):
                info = F.switch_info(f, gsw)
                if info and info[0] == "bool":
                    pos, os_ = F.bool_edge_polarity(f, gsw, lab)
                    for o in os_:
                        if o.kind == "binop" and o.extra == "Eq" and pos and 1 in (o.place["l"].get("int"), o.place["r"].get("int")):
                            conds.add("len==1")
                        if o.kind == "call" and pos and "OutputFormat as core::cmp::PartialEq>::eq" in short(o.call.name):
                            conds.add("text-format")
                        if o.kind == "call" and pos and o.call is c:
                            conds.add("named-input")
        if conds >= {"len==1", "text-format", "named-input"}:
            R.ok("C17.lone-input", "print", "bare line only under columns.len() == 1 && columns[0] == \"input\" && format == Text", c.loc())
        else:
            R.violation("C17.lone-input", "print|guards", "the bare-line output is guarded only by %s (needs len==1, named-input, text-format): "
                                                          "a multi-column result would lose its other columns" % sorted(conds), [c.loc()])
    # after the loop
    after = [b for b in pl if b not in body]
    none_t = [b for b in g[2]][0] if g[2] else None
    r2 = count_range(f, none_t, set(f.exits()), set(after)) if none_t is not None else None
    sep_ok = r2 is not None and r2[0] == 0 and r2[1] <= 1
    if sep_ok and after:
        # guards of the separator
        conds = set()
        for gsw, lab, tgt in F.guards_dominating(f, after[0]):
            info = F.switch_info(f, gsw)
            if info and info[0] == "bool":
                pos, os_ = F.bool_edge_polarity(f, gsw, lab)
                for o in os_:
                    if o.kind == "arg" and f.local_ty(o.arg) == "bool":
                        conds.add(("single_result", pos))
                    if o.kind == "binop" and o.extra == "Gt":
                        conds.add(("multiple_rows", pos))
                d = f.blocks[gsw]["term"]["discr"]
                if d["k"] in ("copy", "move"):
                    for oo in F.origins(f, d, depth=5, through_calls=False):
                        if oo.kind == "binop" and oo.extra == "Gt":
                            conds.add(("multiple_rows", pos))
                        if oo.kind == "arg" and f.local_ty(oo.arg) == "bool":
                            conds.add(("single_result", pos))
        if ("multiple_rows", True) in conds and ("single_result", False) in conds:
            R.ok("C17.once", "print|separator", "one separator, only under multiple_rows && !single_result", f.loc(after[0]))
        else:
            R.violation("C17.once", "print|separator-guard", "the trailing println is not guarded by multiple_rows && !single_result (guards: %s)"
                        % sorted(conds), [f.loc(after[0])])
    elif not sep_ok:
        R.violation("C17.once", "print|after-loop", "after the rows %s extra lines are printed" % (r2,), [f.loc()])
    # header typestate
    vals = set(v for i, s_, v in wr)
    good, bad = PR.all_paths_hit(f, g[1], [i for i, s_, v in wr], stop_blocks={header})
    ctor_true = False
    for fn2 in P.fns.values():
        if fn2.target != "lib" or fn2.key == f.key:
            continue
        for i, s in fn2.stmts():
            if s["k"] == "assign" and s["rv"]["k"] == "aggr" and s["rv"].get("variant") == "OutputPrinter":
                fields = s["rv"].get("fields", [])
                if "first_line" in fields and s["rv"]["ops"][fields.index("first_line")].get("v") == "true":
                    ctor_true = True
            if s["k"] == "assign" and "first_line" in place_fields(s["pl"]) and fn2.key != f.key:
                R.violation("C17.header", "writer|" + fn2.spath, "first_line is written outside OutputPrinter::print", ["%s:%d" % (fn2.file, s["line"])])
    if vals == {"false"} and good and ctor_true:
        R.ok("C17.header", "print|first_line", "true from the constructor; false on every path through the row loop", f.loc())
    else:
        R.violation("C17.header", "print|first_line", "first_line handling: values written in print = %s, cleared on every row path = %s, "
                                                       "constructor sets true = %s" % (sorted(vals), good, ctor_true), [f.loc()])
    # pairing inside the closures
    n_pair = 0
    for ch in P.children.get(f.key, []):
        for c in ch.calls:
            if short(c.name).endswith("Index<I>>::index") and (c.func.get("res_targs") or [""])[0] == "sqlgrep::model::Value":
                n_pair += 1
                os_ = F.origins(ch, c.args[1], depth=8, through_calls=False)
                clean = all(o.kind in ("arg", "place") for o in os_) and any(o.kind == "arg" for o in os_)
                if clean:
                    R.ok("C17.pair", "print|%s" % ch.spath.split("::")[-1], "row.columns[enumerate index]", c.loc())
                else:
                    R.violation("C17.pair", "print|%s|index" % ch.spath.split("::")[-1],
                                "the value index is not the unmodified enumerate index of the column name (%s): names and values are skewed"
                                % [str(o) for o in os_], [c.loc()])
    if n_pair < 3:
        R.violation("C17.pair", "print|closures", "expected the three format closures to index row.columns (found %d)" % n_pair, [f.loc()])
    # json_value arm table
    _json_arms(R)
    # serde_json preserve_order
    try:
        import tomllib
        with open(os.path.join(REPO, "Cargo.toml"), "rb") as fh:
            t = tomllib.load(fh)
        sj = t.get("dependencies", {}).get("serde_json")
        feats = sj.get("features", []) if isinstance(sj, dict) else []
        if "preserve_order" in feats:
            R.ok("C17.json", "Cargo.toml|preserve_order", "serde_json Map keeps insertion order", "Cargo.toml")
        else:
            R.violation("C17.json", "Cargo.toml|preserve_order", "serde_json is built without `preserve_order`: JSON keys come out sorted, not in "
                                                                 "column order", ["Cargo.toml"])
    except Exception as e:  # pragma: no cover
        R.note("could not read Cargo.toml: %s" % e)
    js = [c for c in f.calls if short(c.name) == "serde_json::ser::to_string"]
    if len(js) == 1 and any("serde_json::map::Map" in short(c.name) and "from_iter" in short(c.name) for c in f.calls):
        R.ok("C17.json", "print|serde", "record = serde_json::to_string(Map::from_iter(..))", js[0].loc())
    else:
        R.violation("C17.json", "print|serde", "JSON records are not produced by serde_json::to_string on a Map", [f.loc()])
    # route
    from . import rules_exec_loops as L0
    fe = L0.exec_view(R, "sqlgrep::executor::FileExecutor::execute")
    from . import rules_exec_loops as L
    prs = L.calls_reaching(fe, r"^sqlgrep::executor::OutputPrinter::print$")
    ex = L.calls_reaching(fe, r"ExecutionEngine::execute$")
    inl = [c for c in prs if PR.loop_of(fe, c.bb)]
    out = [c for c in prs if not PR.loop_of(fe, c.bb)]
    if len(inl) == 1 and len(out) == 1:
        lp = PR.loop_of(fe, inl[0].bb)
        e_in = [c for c in ex if c.bb in lp[1]]
        r = count_range(fe, e_in[0].bb, {lp[0]}, {inl[0].bb}) if e_in else None
        if r and r[1] == 1:
            R.ok("C17.route", "FileExecutor::execute", "at most one print per executed line; final table printed once", inl[0].loc())
        else:
            R.violation("C17.route", "FileExecutor::execute|per-line", "a line's result can be printed %s times" % (r,), [inl[0].loc()])
    else:
        R.violation("C17.route", "FileExecutor::execute|prints", "expected one print in the line loop and one for the final aggregate table "
                                                                 "(found %d / %d)" % (len(inl), len(out)), [fe.loc()])
    R.assume("number formatting / string escaping inside serde_json, and Display of REAL, timestamps and intervals are not decided")


def _json_arms(R):
    P = R.prog
    f = R.need_fn("sqlgrep::model::Value::json_value")
    sws = [sw for sw in sorted(f.reach) if (F.switch_info(f, sw) or (None,))[0] == "discr" and
           (F.switch_info(f, sw)[1].get("adt") or "").endswith("model::Value")]
    if not sws:
        R.violation("C17.json", "json_value|no-match", "Value::json_value does not match on the value's variant", [f.loc()])
        return
    sw = sws[0]
    kind, rv, targets = F.switch_info(f, sw)
    names = {dv: n for dv, n in rv.get("variants", [])}
    if f.blocks[targets["otherwise"]]["term"]["k"] != "unreachable":
        listed = [names.get(l) for l in targets if l != "otherwise"]
        missing = [n for n in names.values() if n not in listed]
        if len(missing) != 1:
            R.violation("C17.json", "json_value|wildcard", "Value::json_value has a wildcard arm covering %s" % missing, [f.loc(sw)])
            return
    expect = {
        "Null": (r"^$", "Null"),
        "Int": (r"Number as core::convert::From<i64>>::from$", "Number"),
        "Float": (r"Number::from_f64$", None),
        "Bool": (r"^$", "Bool"),
        "String": (r"String as core::clone::Clone>::clone$", "String"),
        "Array": (r"Iterator::collect$|FromIterator", "Array"),
        "Timestamp": (r"ToString>::to_string$", "String"),
        "Interval": (r"ToString>::to_string$", "String"),
    }
    for lab, tgt in targets.items():
        vn = names.get(lab)
        if lab == "otherwise":
            listed = [names.get(l) for l in targets if l != "otherwise"]
            rest = [n for n in names.values() if n not in listed]
            vn = rest[0] if len(rest) == 1 and f.blocks[tgt]["term"]["k"] != "unreachable" else None
        if vn is None:
            continue
        region = [b for b in f.reach if f.dominates(tgt, b)]
        calls = [short(c.name) for c in f.calls if c.bb in region]
        aggr = [s["rv"].get("variant") for i, s in f.stmts() if i in region and s["rv"]["k"] == "aggr" and
                (s["rv"].get("adt") or "").endswith("serde_json::value::Value")]
        casts = [s["rv"]["ck"] for i, s in f.stmts() if i in region and s["rv"]["k"] == "cast" and s["rv"]["ck"] in ("IntToFloat", "FloatToInt", "IntToInt")]
        rx, want_aggr = expect.get(vn, (None, None))
        ok = rx is not None and (any(re.search(rx, c) for c in calls) or (rx == "^$" and not calls)) and not casts
        if ok and want_aggr and want_aggr not in aggr:
            ok = False
        if vn == "Array":
            ch = [short(c.name) for x in P.children.get(f.key, []) for c in x.calls]
            ok = ok and "sqlgrep::model::Value::json_value" in ch
        if ok:
            R.ok("C17.json", "json_value|" + vn, "%s -> %s" % (vn, want_aggr or "Number(from_f64) / null"), f.loc(tgt))
        else:
            R.violation("C17.json", "json_value|" + vn,
                        "Value::%s is not rendered as the JSON value of the same kind (callees %s, built %s, casts %s)" % (vn, calls, aggr, casts),
                        [f.loc(tgt)])
    R.floor("C17.json", 8)
