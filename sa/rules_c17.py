"""C17 — printed records faithfully carry the result rows in every output format."""
import re, os
from .prog import short, place_fields
from . import flow as F
from . import pathrules as PR
from .extract import REPO

PRINT = "sqlgrep::executor::OutputPrinter::print"
PRINTLN = r"^sqlgrep::executor::Printer::println$|^<.* as sqlgrep::executor::Printer>::println$"


def count_range(fn, start, stops, counted, avoid_edges=()):
    """(min, max) number of blocks in `counted` over all acyclic paths from start to any block in stops"""
    memo = {}
    avoid_edges = set(avoid_edges)

    def go(b, stack):
        if b in stops:
            return (0, 0)
        if b in memo:
            return memo[b]
        if b in stack:
            return None
        res = None
        for y in fn.succs(b):
            if (b, y) in avoid_edges:
                continue
            r = go(y, stack | {b})
            if r is None:
                continue
            res = r if res is None else (min(res[0], r[0]), max(res[1], r[1]))
        if res is None:
            memo[b] = None
            return None
        c = 1 if b in counted else 0
        memo[b] = (res[0] + c, res[1] + c)
        return memo[b]

    return go(start, frozenset())


def run(R):
    P = R.prog
    R.rule("C17.once", "per result row exactly one record is printed on every path (two only on the CSV first-line path: header + record); "
                       "after the rows at most one separator line, only under multiple_rows && !single_result")
    R.rule("C17.header", "first_line is true only from the constructor, set to false on every path through the row loop and tested only "
                         "by the CSV header branch")
    R.rule("C17.pair", "in every format the value printed for column i is row.columns[i] with the enumerate index unmodified")
    R.rule("C17.json", "Value::json_value maps each variant to the JSON value of the same kind without coercion, with no wildcard arm; "
                       "records are serialised by serde_json (preserve_order)")
    R.rule("C17.route", "FileExecutor::execute prints each Some(result_row) at most once per line and the final aggregate table once")
    f0 = R.need_fn(PRINT)
    # print() with its own helpers (json_record, csv_header, is_lone_input_row, ...) inlined
    f = PR.view(P, f0, keep=r"Printer(>)?::println$|^sqlgrep::model::|^sqlgrep::data_model::")
    fa = PR.facts(f)
    pl = [c.bb for c in f.calls if re.search(PRINTLN, short(c.name)) or re.search(PRINTLN, short(c.decl))]
    # the row loop: the iterator loop of print() itself whose body prints (however the iteration is spelled: iter(), enumerate(), ...)
    nx = []
    for c in f.calls:
        if not short(c.name).endswith("as core::iter::traits::iterator::Iterator>::next"):
            continue
        lp = PR.loop_of(f, c.bb)
        if lp and any(b in lp[1] for b in pl) and PR.discr_guard(f, c, "Some"):
            nx.append(c)
    if len(nx) != 1:
        R.violation("C17.once", "print|shape", "OutputPrinter::print: expected one printing loop over the result rows (found %d)" % len(nx), [f.loc()])
        return
    g = PR.discr_guard(f, nx[0], "Some")
    header, body = PR.loop_of(f, nx[0].bb)
    inloop = set(b for b in pl if b in body)
    # the header state: the field of the printer (a bool, or an enum of unit variants such as `HeaderState::{Pending, Emitted}`) that
    # print() itself writes - found by that role, whatever it is called
    padt = P.adts.get(re.sub(r"<.*$", "", (f0.impl_self or "")))
    SF = "first_line"
    unit_enum = lambda ty: (ty in P.adts and len(P.adts[ty]["variants"]) > 1 and all(not v["fields"] for v in P.adts[ty]["variants"]))
    if padt is not None:
        cands = []
        for fl_ in padt["variants"][0]["fields"]:
            if fl_["ty"] == "bool" or unit_enum(fl_["ty"]):
                written = any(s["k"] == "assign" and fl_["name"] in place_fields(s["pl"]) and s["pl"]["l"] == 1 for i, s in f.stmts()) or \
                    any(re.search(r"^core::mem::(replace|take|swap)$", short(c.name)) and c.args and fl_["name"] in F.source_fields(f, c.args[0]) for c in f.calls)
                if written:
                    cands.append(fl_["name"])
        if len(cands) == 1:
            SF = cands[0]

    def wval(op_or_stmt):
        """the constant a write stores: 'true' / 'false' or the variant name"""
        rv_ = op_or_stmt
        if rv_["k"] == "use" and rv_["op"]["k"] == "const":
            v_ = rv_["op"].get("v")
            m_ = re.search(r"::(\w+)$", str(v_)) if v_ not in ("true", "false") else None
            return m_.group(1) if m_ else v_
        if rv_["k"] == "aggr" and rv_.get("variant") and not rv_["ops"]:
            return rv_["variant"]
        if rv_["k"] == "use" and rv_["op"]["k"] in ("copy", "move") and not rv_["op"]["pl"]["p"]:
            ds = [d for j, d in f.stmts() if d["k"] == "assign" and d["pl"]["l"] == rv_["op"]["pl"]["l"] and not d["pl"]["p"]]
            if len(ds) == 1:
                return wval(ds[0]["rv"])
        return None
    # writes of the state field: assignments, or mem::replace/take through a &mut borrow of the field
    wr = [(i, s, wval(s["rv"]))
          for i, s in f.stmts() if s["k"] == "assign" and SF in place_fields(s["pl"]) and s["pl"]["l"] == 1]
    for c in f.calls:
        if re.search(r"^core::mem::(replace|take|swap)$", short(c.name)) and c.args:
            if SF in F.source_fields(f, c.args[0]):
                v = c.args[1].get("v") if short(c.name).endswith("replace") and len(c.args) > 1 and c.args[1]["k"] == "const" else \
                    ("false" if short(c.name).endswith("take") else None)
                wr.append((c.bb, {"line": c.term["span"]["line"]}, v))
    outside = [(i, s) for i, s, v in wr if not (i in body and f.dominates(g[1], i))]
    if outside:
        R.violation("C17.header", "print|first_line-cleared-outside-rows",
                    "first_line is cleared outside the per-row path of print (line %d): a result with no rows consumes the CSV header, so a later "
                    "first record is printed without it" % outside[0][1]["line"], ["%s:%d" % (f.file, outside[0][1]["line"])])
    # what the constructor puts into the state field
    init = None
    for fn2 in P.fns.values():
        if fn2.target != "lib" or fn2.key == f.key:
            continue
        for i, s in fn2.stmts():
            if s["k"] == "assign" and s["rv"]["k"] == "aggr" and s["rv"].get("variant") == "OutputPrinter":
                fields = s["rv"].get("fields", [])
                if SF in fields:
                    op_ = s["rv"]["ops"][fields.index(SF)]
                    if op_.get("k") == "const":
                        v_ = op_.get("v")
                        m_ = re.search(r"::(\w+)$", str(v_)) if v_ not in ("true", "false") else None
                        init = m_.group(1) if m_ else v_
                    elif op_.get("k") in ("copy", "move") and not op_["pl"]["p"]:
                        ds = [d for j, d in fn2.stmts() if d["k"] == "assign" and d["pl"]["l"] == op_["pl"]["l"] and not d["pl"]["p"] and d["rv"]["k"] == "aggr"]
                        if len(ds) == 1 and not ds[0]["rv"]["ops"]:
                            init = ds[0]["rv"].get("variant")
    # tests of the state field; the header edge is the one taken for the constructor's value
    fl_sw = []
    hdr_edge = {}
    for (bb, s) in PR.field_reads(f, SF):
        if isinstance(s, dict) and s.get("switch"):
            fl_sw.append(bb)
            continue
        l = s["pl"]["l"]
        for sw in sorted(f.reach):
            t = f.blocks[sw]["term"]
            if t["k"] == "switch" and t["discr"]["k"] in ("copy", "move") and t["discr"]["pl"]["l"] == l and not t["discr"]["pl"]["p"]:
                fl_sw.append(sw)
                if s["rv"]["k"] == "discr" and init not in (None, "true", "false"):
                    names_ = dict((dv, n_) for dv, n_ in s["rv"].get("variants", []))
                    labs = [lab for lab, n_ in names_.items() if n_ == init]
                    tg = dict((v_, b_) for v_, b_ in t["targets"])
                    if labs and labs[0] in tg:
                        hdr_edge[sw] = tg[labs[0]]
                    elif labs:
                        hdr_edge[sw] = t["otherwise"]
    fl_sw = sorted(set(fl_sw))
    if not fl_sw:
        R.violation("C17.header", "print|first_line-tests", "first_line is never tested in print: no format prints its header line", [f.loc()])
        return
    # every test of first_line sits in the arm of one format (CSV on the pinned tree; a further tabular format added later has its
    # own): on its true edge a header and the record are printed (0 + 2), on all other paths exactly one record
    true_edges = {}
    for sw in fl_sw:
        true_edges[sw] = hdr_edge.get(sw, f.blocks[sw]["term"]["otherwise"])
    r1 = count_range(f, g[1], {header}, inloop, avoid_edges=set(true_edges.items()))
    bad_hdr = []
    for sw, true_t in sorted(true_edges.items()):
        r_pre = count_range(f, g[1], {sw}, inloop)
        r_post = count_range(f, true_t, {header}, inloop)
        if not (r_pre == (0, 0) and r_post == (2, 2)):
            bad_hdr.append((sw, r_pre, r_post))
    if r1 == (1, 1) and not bad_hdr:
        R.ok("C17.once", "print|per-row", "1 record per row on every path; first line of a tabular format: header + record (%d header test%s)"
             % (len(fl_sw), "" if len(fl_sw) == 1 else "s"), f.loc(header))
    else:
        sw, r_pre, r_post = bad_hdr[0] if bad_hdr else (fl_sw[0], (0, 0), (2, 2))
        R.violation("C17.once", "print|per-row",
                    "println count per result row is %s on the normal paths (must be exactly 1) and %s+%s on the first-line path (must be 0+2): "
                    "a record is dropped or duplicated on some path" % (r1, r_pre, r_post), [f.loc(header)])
    sw = fl_sw[0]
    true_t = true_edges[sw]
    # the `lone input column prints just the line` case: the println that prints a single value needs all three guards
    R.rule("C17.lone-input", "only a result whose single column is named `input`, in text format, is printed as the bare line")
    # the println that prints a bare value (no `name: ` prefix, no join): its argument is formatted from a single column value
    lone = []
    for c in f.calls:
        if c.bb in inloop:
            conds = set()
            for a_, val in fa.binop_facts(c.bb):
                one = 1 in (a_["l"].get("int"), a_["r"].get("int"))
                if one and ((a_["op"] == "Eq" and val) or (a_["op"] == "Ne" and not val)):
                    conds.add("len==1")
            for call, val in fa.call_facts(c.bb):
                sn = short(call.name)
                if re.search(r"String as core::cmp::PartialEq<&str>>::eq$|PartialEq<&B> for &A>::eq$|PartialEq<str>>::eq$|PartialEq<&'a str>>::eq$", sn) and val is True:
                    conds.add("named-input")
                if re.search(r"String as core::cmp::PartialEq<&str>>::ne$|PartialEq<str>>::ne$", sn) and val is False:
                    conds.add("named-input")
                if "OutputFormat as core::cmp::PartialEq>::eq" in sn and val is True:
                    conds.add("text-format")
                if "OutputFormat as core::cmp::PartialEq>::ne" in sn and val is False:
                    conds.add("text-format")
            for key_, val in fa.at(c.bb):
                a_ = fa.atoms.get(key_, {})
                # `match self.format { OutputFormat::Text if lone => ..` tests the format by its discriminant
                if a_.get("kind") == "discr" and (a_.get("adt") or "").endswith("executor::OutputFormat") and val == "Text":
                    conds.add("text-format")
            if "named-input" in conds or "len==1" in conds and "text-format" in conds:
                lone.append((c, conds))
    if not lone:
        R.violation("C17.lone-input", "print|no-special-case", "the `input`-only special case is gone or unrecognised", [f.loc()])
    else:
        c, conds = lone[0]
        if not fa.ok:
            R.note("C17.lone-input: path facts unavailable")
        if conds >= {"len==1", "text-format", "named-input"}:
            R.ok("C17.lone-input", "print", "bare line only under columns.len() == 1 && columns[0] == \"input\" && format == Text", c.loc())
        else:
            R.violation("C17.lone-input", "print|guards", "the bare-line output is guarded only by %s (needs len==1, named-input, text-format): "
                                                          "a multi-column result would lose its other columns" % sorted(conds), [c.loc()])
    # after the loop
    after = [b for b in pl if b not in body]
    none_t = [b for b in g[2]][0] if g[2] else None
    r2 = count_range(f, none_t, set(f.exits()), set(after)) if none_t is not None else None
    sep_ok = r2 is not None and r2[0] == 0 and r2[1] <= 1
    if sep_ok and after:
        # guards of the separator (path facts: nested ifs, `a && b`, or a flag computed before the loop)
        conds = set()
        for a_, val in fa.binop_facts(after[0]):
            if (a_["op"] == "Gt" and val) or (a_["op"] == "Le" and not val):
                conds.add(("multiple_rows", True))
        for flds, root, val in fa.place_facts(after[0]):
            if not flds and 1 <= root <= f.arg_count and f.local_ty(root) == "bool":
                conds.add(("single_result", val))
        if ("multiple_rows", True) in conds and ("single_result", False) in conds:
            R.ok("C17.once", "print|separator", "one separator, only under multiple_rows && !single_result", f.loc(after[0]))
        else:
            R.violation("C17.once", "print|separator-guard", "the trailing println is not guarded by multiple_rows && !single_result (guards: %s)"
                        % sorted(conds), [f.loc(after[0])])
    elif not sep_ok:
        R.violation("C17.once", "print|after-loop", "after the rows %s extra lines are printed" % (r2,), [f.loc()])
    # header typestate
    vals = set(v for i, s_, v in wr)
    good, bad = PR.all_paths_hit(f, g[1], [i for i, s_, v in wr], stop_blocks={header})
    ctor_true = init is not None and init != "false"
    for fn2 in P.fns.values():
        if fn2.target != "lib" or fn2.key == f.key:
            continue
        for i, s in fn2.stmts():
            if s["k"] == "assign" and SF in place_fields(s["pl"]) and fn2.key != f.key and (f0.impl_self or "x") in (fn2.impl_self or ""):
                R.violation("C17.header", "writer|" + fn2.spath, "first_line is written outside OutputPrinter::print", ["%s:%d" % (fn2.file, s["line"])])
    cleared = (vals == {"false"}) if init == "true" else (len(vals) == 1 and None not in vals and init not in vals)
    if cleared and good and ctor_true:
        R.ok("C17.header", "print|first_line", "true from the constructor; false on every path through the row loop", f.loc())
    else:
        R.violation("C17.header", "print|first_line", "first_line handling: values written in print = %s, cleared on every row path = %s, "
                                                       "constructor sets true = %s" % (sorted(vals), good, ctor_true), [f.loc()])
    # the JSON record goes out exactly as serde_json serialised it
    R.rule("C17.verbatim", "the JSON line handed to the printer is the string serde_json::to_string produced, only formatted with `{}` / "
                           "unwrapped / dereferenced on the way - nothing rewrites the serialised text")
    PASS = re.compile(r"^core::hint::must_use$|^alloc::fmt::format$|^core::fmt::Arguments::new\w*$|^core::fmt::rt::Argument::new_display$|"
                      r"^core::result::Result::(unwrap|expect|unwrap_or_default)$|Deref>::deref$|^alloc::string::String::as_str$|"
                      r"AsRef<.*>>::as_ref$|Borrow<.*>>::borrow$|ToString>::to_string$|^alloc::fmt::format::format_inner$")
    tss = [c for c in f.calls if short(c.name) == "serde_json::ser::to_string"]
    if not tss:
        R.note("C17.verbatim: no serde_json::to_string call in print (records are serialised differently); rule not instantiated")
    for ts in tss:
        sinks = []
        for c in f.calls:
            if not (re.search(PRINTLN, short(c.name)) or re.search(PRINTLN, short(c.decl))) or len(c.args) < 2:
                continue
            seen_, work, hit, foreign = set(), [c.args[1]], False, []
            while work:
                op_ = work.pop()
                if op_.get("k") not in ("copy", "move"):
                    continue
                for o in F.origins(f, op_, depth=14, through_calls=False):
                    if o.kind != "call" or id(o.call) in seen_:
                        continue
                    seen_.add(id(o.call))
                    if o.call is ts:
                        hit = True
                    elif PASS.search(short(o.call.name)):
                        work.extend(o.call.args)
                    else:
                        foreign.append(o.call)
            if hit:
                sinks.append((c, foreign))
        if not sinks:
            R.violation("C17.verbatim", "print|json-not-printed", "what serde_json::to_string returns does not reach the printer", [ts.loc()])
        for c, foreign in sinks:
            if foreign:
                R.violation("C17.verbatim", "print|json-rewritten",
                            "the serialised JSON record passes through %s before it is printed: the text serde_json produced (the only place "
                            "where escaping is known to be right) is rewritten, so a value may no longer be recovered exactly"
                            % short(foreign[0].name), [foreign[0].loc(), c.loc()])
            else:
                R.ok("C17.verbatim", "print|json", "println(format!(\"{}\", to_string(..).unwrap()))", c.loc())
    # pairing inside the closures
    n_pair = 0
    used_closures = []
    seen_cl = set()
    for c0 in f.calls:
        for ck in (c0.func.get("closure_args") or []):
            cf = P.fns.get(ck)
            if cf is not None and ck not in seen_cl:
                seen_cl.add(ck)
                used_closures.append(cf)
    for ch in used_closures:
        ch = PR.desugared(P, ch)       # `let cell = |i| &row.columns[i];` called from the format closures: spliced in
        for c in ch.calls:
            if short(c.name).endswith("Index<I>>::index") and (c.func.get("res_targs") or [""])[0] == "sqlgrep::model::Value":
                n_pair += 1
                os_ = F.origins(ch, c.args[1], depth=8, through_calls=False)
                clean = all(o.kind in ("arg", "place") for o in os_) and any(o.kind == "arg" for o in os_)
                if clean:
                    R.ok("C17.pair", "print|%s" % ch.spath.split("::")[-1], "row.columns[enumerate index]", c.loc())
                else:
                    R.violation("C17.pair", "print|%s|index" % ch.spath.split("::")[-1],
                                "the value index is not the unmodified enumerate index of the column name (%s): names and values are skewed"
                                % [str(o) for o in os_], [c.loc()])
    # the names the records are built from are the result's column names themselves
    R.rule("C17.names", "the names paired with the values (JSON keys, CSV header, text `name:`) are the elements of ResultRow.columns: every "
                        "iterator the format closures are mapped over starts at `result_row.columns`, and the JSON key is that element cloned")
    ITER_STEP = re.compile(r"::iter$|::enumerate$|IntoIterator>::into_iter$|Deref>::deref$|::as_slice$|::iter_mut$|Iterator::(by_ref|zip|peekable)$|"
                           r"Index<.*>>::index$")
    n_names = 0
    for c0 in f.calls:
        cks = [ck for ck in (c0.func.get("closure_args") or []) if ck in seen_cl]
        if not cks or not re.search(r"Iterator::map$|Iterator::for_each$", short(c0.name)) or not c0.args:
            continue
        chv = PR.desugared(P, P.fns[cks[0]])
        if not any(short(c.name).endswith("Index<I>>::index") and (c.func.get("res_targs") or [""])[0] == "sqlgrep::model::Value" for c in chv.calls):
            continue
        cfn = P.fns[cks[0]]
        if not re.search(r"&(alloc::string::String|str)\b", " ".join(cfn.local_ty(a) for a in range(1, cfn.arg_count + 1))):
            # a closure over the indices alone (`(0..n).map(|i| ..)`): a name it uses must be `result_row.columns[i]` with the same,
            # unmodified i, and the range must be 0..result_row.columns.len()
            nidx = [c for c in chv.calls if short(c.name).endswith("Index<I>>::index") and (c.func.get("res_targs") or [""])[0] == "alloc::string::String"]
            if nidx:
                okn = all("columns" in F.source_fields(chv, c.args[0], depth=8) and
                          (lambda os_: bool(os_) and all(o.kind in ("arg", "place") for o in os_) and any(o.kind == "arg" for o in os_))
                          (F.origins(chv, c.args[1], depth=8, through_calls=False)) for c in nidx)
                rng_ok = False
                for o in F.origins(f, c0.args[0], depth=10):
                    if o.kind == "aggr" and o.place is not None:
                        for _, st in F._assign_defs(f).get(o.place["l"], []):
                            rv = st["rv"]
                            if rv["k"] == "aggr" and (rv.get("adt") or "").endswith("ops::range::Range") and len(rv["ops"]) == 2 and \
                                    rv["ops"][0].get("k") == "const" and rv["ops"][0].get("int") == 0:
                                for o2 in F.origins(f, rv["ops"][1], depth=8, through_calls=False) if rv["ops"][1].get("k") in ("copy", "move") else []:
                                    if o2.kind == "call" and short(o2.call.name) == "alloc::vec::Vec::len" and \
                                            F.source_fields(f, o2.call.args[0], depth=8)[-1:] == ["columns"] and \
                                            "alloc::string::String" in " ".join(o2.call.func.get("res_targs") or o2.call.targs or []):
                                        rng_ok = True
                n_names += 1
                key = "print|%s" % cfn.spath.split("::")[-1]
                if okn and rng_ok:
                    R.ok("C17.names", key, "name = result_row.columns[i] for i in 0..result_row.columns.len()", c0.loc())
                else:
                    R.violation("C17.names", key + "|source", "the names of this format are indexed out of something else than ResultRow.columns "
                                "by the row's own index over all columns (index clean: %s, range 0..columns.len(): %s)" % (okn, rng_ok), [c0.loc()])
            continue
        work, seen_o, leaves = [c0.args[0]], set(), []
        while work and len(seen_o) < 60:
            op = work.pop()
            for o in F.origins(f, op, depth=12, through_calls=True):
                if o.kind == "call":
                    if id(o.call) in seen_o:
                        continue
                    seen_o.add(id(o.call))
                    n = short(o.call.name)
                    if ITER_STEP.search(n) and o.call.args:
                        work.append(o.call.args[0])
                    elif not F.TRANSPARENT.search(n):
                        leaves.append(("call", n, o.call.loc()))
                elif o.kind in ("arg", "place") and o.place is not None:
                    leaves.append(("place", place_fields(o.place), None))
                elif o.kind not in ("unknown",):
                    leaves.append((o.kind, str(o), None))
        n_names += 1
        badl = [l for l in leaves if not (l[0] == "place" and l[1][-1:] == ["columns"])]
        key = "print|%s" % P.fns[cks[0]].spath.split("::")[-1]
        if leaves and not badl:
            R.ok("C17.names", key, "mapped over result_row.columns", c0.loc())
        else:
            R.violation("C17.names", key + "|source", "the names of this format are not taken from ResultRow.columns but from %s: a record's keys / "
                        "labels can differ from the output column names" % ([("%s %s" % (l[0], l[1]))[:80] for l in badl[:2]] or "nothing traceable"),
                        [badl[0][2] or c0.loc()] if badl else [c0.loc()])
        # JSON: key = the name cloned
        for st_i, st in chv.stmts():
            if st["k"] == "assign" and st["pl"]["l"] == 0 and not st["pl"]["p"] and st["rv"]["k"] == "aggr" and st["rv"].get("ak") == "tuple" and \
                    len(st["rv"]["ops"]) == 2 and "String" in (st["rv"]["ops"][0].get("ty") or ""):
                os_ = F.origins(chv, st["rv"]["ops"][0], depth=10, through_calls=True)
                odd = [o for o in os_ if o.kind == "call" and not F.TRANSPARENT.search(short(o.call.name)) and
                       not re.search(r"ToString>::to_string$|From<.*>>::from$|Into<.*>>::into$|ToOwned>::to_owned$", short(o.call.name))]
                if odd or not any(o.kind == "arg" for o in os_):
                    R.violation("C17.names", key + "|key", "the JSON key is not the column name itself (%s)" %
                                ([short(o.call.name).split("::")[-1] for o in odd] or "not derived from the closure's name argument"),
                                [odd[0].call.loc() if odd else c0.loc()])
                else:
                    R.ok("C17.names", key + "|key", "key = name.to_owned()", c0.loc())
    if n_names < 1 and n_pair >= 3:
        R.violation("C17.names", "print|closures", "none of the format closures is mapped over the column names", [f.loc()])
    if n_pair < 3:
        R.violation("C17.pair", "print|closures", "expected the three format closures to index row.columns (found %d)" % n_pair, [f.loc()])
    # json_value arm table
    _json_arms(R)
    # serde_json preserve_order
    try:
        import tomllib
        with open(os.path.join(REPO, "Cargo.toml"), "rb") as fh:
            t = tomllib.load(fh)
        sj = t.get("dependencies", {}).get("serde_json")
        feats = sj.get("features", []) if isinstance(sj, dict) else []
        if "preserve_order" in feats:
            R.ok("C17.json", "Cargo.toml|preserve_order", "serde_json Map keeps insertion order", "Cargo.toml")
        else:
            R.violation("C17.json", "Cargo.toml|preserve_order", "serde_json is built without `preserve_order`: JSON keys come out sorted, not in "
                                                                 "column order", ["Cargo.toml"])
    except Exception as e:  # pragma: no cover
        R.note("could not read Cargo.toml: %s" % e)
    js = [c for c in f.calls if short(c.name) == "serde_json::ser::to_string"]
    def _is_map_build(c):
        sn = short(c.name)
        if "serde_json::map::Map" in sn and "from_iter" in sn:
            return True
        return sn.endswith("Iterator::collect") and any("serde_json::map::Map" in t for t in (c.func.get("res_targs") or c.targs or []))
    if len(js) == 1 and any(_is_map_build(c) for c in f.calls):
        R.ok("C17.json", "print|serde", "record = serde_json::to_string(Map::from_iter(..))", js[0].loc())
    else:
        R.violation("C17.json", "print|serde", "JSON records are not produced by serde_json::to_string on a Map", [f.loc()])
    # route
    from . import rules_exec_loops as L0
    fe = L0.exec_view(R, "sqlgrep::executor::FileExecutor::execute")
    from . import rules_exec_loops as L
    prs = L.calls_reaching(fe, r"^sqlgrep::executor::OutputPrinter::print$")
    ex = L.calls_reaching(fe, r"ExecutionEngine::execute$")
    inl = [c for c in prs if PR.loop_of(fe, c.bb)]
    out = [c for c in prs if not PR.loop_of(fe, c.bb)]
    if len(inl) == 1 and len(out) == 1:
        lp = PR.loop_of(fe, inl[0].bb)
        e_in = [c for c in ex if c.bb in lp[1]]
        r = count_range(fe, e_in[0].bb, {lp[0]}, {inl[0].bb}) if e_in else None
        if r and r[1] == 1:
            R.ok("C17.route", "FileExecutor::execute", "at most one print per executed line; final table printed once", inl[0].loc())
        else:
            R.violation("C17.route", "FileExecutor::execute|per-line", "a line's result can be printed %s times" % (r,), [inl[0].loc()])
    else:
        R.violation("C17.route", "FileExecutor::execute|prints", "expected one print in the line loop and one for the final aggregate table "
                                                                 "(found %d / %d)" % (len(inl), len(out)), [fe.loc()])
    R.assume("number formatting / string escaping inside serde_json, and Display of REAL, timestamps and intervals are not decided")


def _json_arms(R):
    """variant -> JSON kind table of Value::json_value, read from path facts (or-patterns, match-vs-combinator and loop-vs-map
    spellings give the same table)"""
    P = R.prog
    f = R.need_fn("sqlgrep::model::Value::json_value")
    # a thin wrapper (`serde_json::Value::from(self)`) delegates the table to the function that has it
    for _ in range(2):
        loc_calls = [c for c in f.calls if c.func.get("res_local") and (c.func.get("crate") == "sqlgrep" or True) and P.callee_keys(f, c)]
        if len(loc_calls) == 1 and len(f.calls) <= 2 and len(loc_calls[0].args) == 1 and \
                all(o.kind == "arg" and o.arg == 1 for o in F.origins(f, loc_calls[0].args[0], depth=4)) and \
                any(o.kind == "call" and o.call is loc_calls[0] for o in F.origins(f, 0, depth=4, through_calls=False)):
            g_ = P.fns[P.callee_keys(f, loc_calls[0])[0]]
            if g_.local_ty(0) == f.local_ty(0):
                f = PR.view(P, g_)
                continue
        break
    fa = PR.facts(f)
    va = P.adts.get("sqlgrep::model::Value") or {"variants": []}
    variants = [v["name"] for v in va["variants"]]

    def variants_at(bb):
        out = set()
        for w in (fa.worlds_at(bb) or []):
            got = None
            for k, v in w:
                a = fa.atoms.get(k, {})
                if a.get("kind") == "discr" and (a.get("adt") or "").endswith("model::Value") and a["place"]["l"] == 1 and isinstance(v, str):
                    if v.startswith("!"):
                        got = set(variants) - set(v[1:].split(","))
                    else:
                        got = {v}
            out |= (got if got is not None else set(variants))
        return out
    built = {v: set() for v in variants}
    calls = {v: [] for v in variants}
    casts = []

    def may_none_blocks(local, depth=4):
        """blocks where an Option local can become None: a literal None, or the result of a call (unknown); follows plain moves"""
        out = []
        for c_ in F._call_defs(f).get(local, []):
            out.append(c_.bb)
        for (b_, st_) in F._assign_defs(f).get(local, []):
            if st_["pl"]["p"]:
                continue
            rv_ = st_["rv"]
            if rv_["k"] == "aggr" and rv_.get("variant") == "None":
                out.append(b_)
            elif rv_["k"] == "aggr":
                continue
            elif depth > 0 and rv_["k"] == "use" and rv_["op"]["k"] in ("copy", "move") and not rv_["op"]["pl"]["p"]:
                out += may_none_blocks(rv_["op"]["pl"]["l"], depth - 1)
            else:
                out.append(b_)
        return out

    # a value that is only the default of `opt.unwrap_or(default)` is produced exactly where `opt` can be None
    default_of = {}
    for c in f.calls:
        if re.search(r"^core::option::Option::unwrap_or$", short(c.name)) and len(c.args) == 2 and \
                all(a.get("k") in ("copy", "move") and not a["pl"]["p"] for a in c.args):
            default_of[c.args[1]["pl"]["l"]] = c.args[0]["pl"]["l"]
    for i, st in f.stmts():
        if st["rv"]["k"] == "aggr" and (st["rv"].get("adt") or "").endswith("serde_json::value::Value"):
            where = [i]
            if st["k"] == "assign" and not st["pl"]["p"] and st["pl"]["l"] in default_of and \
                    len(F._assign_defs(f).get(st["pl"]["l"], [])) == 1:
                where = may_none_blocks(default_of[st["pl"]["l"]]) or [i]
            for v in set(v2 for b in where for v2 in variants_at(b)):
                built[v].add(st["rv"].get("variant"))
        if st["rv"]["k"] == "cast" and st["rv"]["ck"] in ("IntToFloat", "FloatToInt", "IntToInt"):
            casts.append("%s->%s" % (st["rv"]["from"], st["rv"]["to"]))
    for c in f.calls:
        for v in variants_at(c.bb):
            calls[v].append(short(c.name))
            for ck in (c.func.get("closure_args") or []):
                cf = P.fns.get(ck)
                if cf is not None:
                    calls[v] += [short(c2.name) for c2 in cf.calls]
                    for i2, st2 in cf.stmts():
                        if st2["rv"]["k"] == "aggr" and (st2["rv"].get("adt") or "").endswith("serde_json::value::Value"):
                            built[v].add(st2["rv"].get("variant"))
    if not fa.ok:
        R.violation("C17.json", "json_value|unanalysable", "Value::json_value has too many paths to tabulate", [f.loc()])
        return
    expect = {
        "Null": ({"Null"}, None),
        "Int": ({"Number"}, r"Number as core::convert::From<i64>>::from$"),
        "Float": ({"Number", "Null"}, r"Number::from_f64$"),
        "Bool": ({"Bool"}, None),
        "String": ({"String"}, r"String as core::clone::Clone>::clone$|ToOwned for str>::to_owned$|ToString>::to_string$"),
        "Array": ({"Array"}, r"^sqlgrep::model::Value::json_value$|^" + re.escape(f.spath) + "$"),      # + every element is rendered: see the adapter check below
        "Timestamp": ({"String"}, r"ToString>::to_string$"),
        "Interval": ({"String"}, r"ToString>::to_string$"),
    }
    for v in variants:
        allowed, need = expect.get(v, (None, None))
        if allowed is None:
            R.violation("C17.json", "json_value|" + v, "value variant %s has no reviewed JSON rendering" % v, [f.loc()])
            continue
        must = {"Number"} if v == "Float" else allowed
        inl = set(getattr(f, "inlined", []) or [])
        ok = bool(built[v]) and built[v] <= allowed and must <= built[v] and not casts and \
            (need is None or any(re.search(need, n) or (v == "Array" and n in inl) for n in calls[v]))
        if v == "Array" and ok:
            # the element traversal is 1:1 (map / loop): an adapter that can drop or add elements changes the array
            lossy = [n for n in calls[v] if re.search(r"Iterator::(filter|filter_map|flat_map|flatten|skip|take|step_by|skip_while|take_while|map_while|"
                                                      r"dedup\w*|rev|chain|zip)$", n)]
            if lossy:
                R.violation("C17.json", "json_value|Array|elements", "the elements of an array value go through %s on their way into the JSON "
                            "array: elements can be dropped or reordered (e.g. a NULL element vanishes instead of printing as null)"
                            % lossy[0].split("::")[-1], [f.loc()])
                continue
        if v == "Int" and any(re.search(r"as_f64|from_f64|Number as core::convert::From<(u|i)(8|16|32)>>", n) for n in calls[v]):
            ok = False
        if ok:
            R.ok("C17.json", "json_value|" + v, "%s -> %s" % (v, "/".join(sorted(built[v]))), f.loc())
        else:
            R.violation("C17.json", "json_value|" + v,
                        "Value::%s is not rendered as the JSON value of the same kind (built %s, expected %s; callees %s, casts %s)"
                        % (v, sorted(built[v]), sorted(allowed), sorted(set(calls[v]))[:6], casts), [f.loc()])
    R.floor("C17.json", 8)
