"""C16 — value equality, ordering and hashing agree and form a total order.

P-IMPL: the laws are consequences of where the five impls (PartialEq, Eq, PartialOrd, Ord, Hash)
of every key type come from.  Derived impls over lawful fields are lawful and mutually
consistent; a type with a float inside must define all of them on ONE total key."""
import re
from .prog import short
from . import flow as F
from . import pathrules as PR
from . import rules_sites

CMP_TRAITS = ("core::cmp::PartialEq", "core::cmp::Eq", "core::cmp::PartialOrd", "core::cmp::Ord", "core::hash::Hash")
KEYED = re.compile(r"^(alloc::collections::btree::(map::BTreeMap|set::BTreeSet)|std::collections::hash::(map::HashMap|set::HashSet))::")
ORDER_CONSUMER = re.compile(r"^(alloc::slice::<impl \[T\]>::(sort|sort_by|sort_by_key|sort_by_cached_key)|core::slice::<impl \[T\]>::(sort_unstable|sort_unstable_by|sort_unstable_by_key|binary_search|binary_search_by|binary_search_by_key)|alloc::vec::Vec::(dedup|dedup_by|dedup_by_key)|core::iter::traits::iterator::Iterator::(max|min|max_by|min_by|max_by_key|min_by_key|cmp|partial_cmp|eq|lt|le|gt|ge|is_sorted)|core::cmp::(max|min|max_by|min_by|Ord::max|Ord::min|Ord::clamp))$")
CUSTOM = re.compile(r"(sort_by|sort_by_key|sort_by_cached_key|sort_unstable_by|sort_unstable_by_key|dedup_by|dedup_by_key|max_by|min_by|max_by_key|min_by_key|binary_search_by|binary_search_by_key)$")
LOCAL_TY = re.compile(r"sqlgrep::[A-Za-z0-9_:]+")
FLOAT_TY = re.compile(r"\b(f64|f32)\b")
LEAF_OK = re.compile(r"^(i8|i16|i32|i64|i128|isize|u8|u16|u32|u64|u128|usize|bool|char|str|alloc::string::String|"
                     r"chrono::datetime::DateTime<chrono::offset::local::Local>|chrono::time_delta::TimeDelta|\(\))$")


def _adts_in(ty, P):
    return [t for t in LOCAL_TY.findall(ty) if t in P.adts]


def _closure(seed, P):
    K = set()
    st = list(seed)
    while st:
        a = st.pop()
        if a in K:
            continue
        K.add(a)
        for v in P.adts[a]["variants"]:
            for fl in v["fields"]:
                st.extend(_adts_in(fl["ty"], P))
    return K


def _has_float(adt, P, seen=None):
    seen = seen or set()
    if adt in seen:
        return False
    seen.add(adt)
    for v in P.adts[adt]["variants"]:
        for fl in v["fields"]:
            if FLOAT_TY.search(fl["ty"]):
                return True
            for a in _adts_in(fl["ty"], P):
                if _direct_float(a, P):
                    return True
    return False


def _direct_float(adt, P):
    return any(FLOAT_TY.search(fl["ty"]) for v in P.adts[adt]["variants"] for fl in v["fields"])


def run(R):
    P = R.prog
    R.rule("C16.closure", "key types: local types used as keys/elements of ordered or hashed containers, sorts, min/max, or compared "
                          "through PartialEq/PartialOrd/Ord in the engine, closed under field containment")
    R.rule("C16.derive", "a key type without a float field has only derived comparison/hash impls")
    R.rule("C16.float", "a key type with a float field defines eq, partial_cmp, cmp and hash on one total key (f64::total_cmp / to_bits of "
                        "the same canonicalised value); no IEEE comparison operator and no derived impl takes part")
    R.rule("C16.custom", "no consumer bypasses the trait impls with an ad-hoc comparator on key-typed elements")
    R.rule("C16.minmax", "MIN / MAX decide through Value's own total order (the order WHERE, group ordering and PERCENTILE use), with no "
                         "conversion of the operands to f64")
    R.rule("C16.numcmp", "ordered comparisons of values in WHERE convert an INT operand to REAL before comparing (not ordered by variant)")
    digest_rule(R, "C16.digest")
    reach = P.reachable(rules_sites.roots(R, "EXEC") + rules_sites.roots(R, "PARSE"))
    seed = set()
    consumers = []
    keycap = {}
    for im in P.impls:
        if im["self_adt"] and im["trait"] in ("core::hash::Hash", "core::cmp::Ord"):
            keycap[im["self_adt"]] = True
    for k in sorted(reach):
        f = P.fns[k]
        if f.derived:
            continue
        for c in f.calls:
            sn = short(c.name)
            ts = c.func.get("res_targs") or c.targs
            tys = []
            if KEYED.search(sn) and ts:
                tys = [ts[0]]
            elif ORDER_CONSUMER.search(sn) and ts:
                tys = ts[:1]
            elif c.func.get("trait") in CMP_TRAITS[2:4] and ts:
                tys = ts[:2]
            elif c.func.get("trait") == "core::cmp::PartialEq" and ts:
                # equality alone makes a key type only if the type can also be hashed or ordered
                tys = [t for t in ts[:2] if any(keycap.get(a) for a in _adts_in(t, P))]
            for t in tys:
                for a in _adts_in(t, P):
                    if a not in seed:
                        seed.add(a)
                    consumers.append((a, sn, c.loc()))
            if CUSTOM.search(sn) and ts and any(_adts_in(t, P) for t in ts[:1]):
                els = [a for a in _adts_in(ts[0], P)]
                hot = [a for a in els if a in ("sqlgrep::model::Value", "sqlgrep::model::Float", "sqlgrep::execution::aggregate_execution::GroupKey")]
                key = "%s|%s" % (f.spath, sn)
                if hot:
                    R.violation("C16.custom", key, "ad-hoc comparator %s on elements of type %s bypasses the value order" % (sn, ts[0]),
                                [c.loc()])
                else:
                    R.ok("C16.custom", key, "comparator on a non-value type", c.loc(), nontrivial=False)
    K = _closure(seed, P)
    impls = {}
    for im in P.impls:
        if im["trait"] in CMP_TRAITS and im["self_adt"]:
            impls.setdefault(im["self_adt"], {})[im["trait"].split("::")[-1]] = im
    for a in sorted(K):
        R.ok("C16.closure", a, "key type", P.adts[a]["span"]["file"] + ":%d" % P.adts[a]["span"]["line"],
             sample={"consumers": sorted(set(c[1] for c in consumers if c[0] == a))[:6]})
        ims = impls.get(a, {})
        manual = [t for t, im in ims.items() if not im["derived"]]
        loc = P.adts[a]["span"]["file"] + ":%d" % P.adts[a]["span"]["line"]
        if not _direct_float(a, P):
            if manual:
                R.violation("C16.derive", a, "key type %s has hand-written %s impl(s) (not in the reviewed table): consistency with the "
                                             "derived ones is not established" % (a, "/".join(sorted(manual))), [loc])
            else:
                R.ok("C16.derive", a, "all of %s derived" % "/".join(sorted(ims)) if ims else "no comparison impls", loc)
            continue
        # float-bearing key type
        _check_float_type(R, P, a, ims, loc)
    # numeric comparison by value in the Compare arm
    from .rules_c03 import EVAL_KEEP
    ev = PR.view(P, R.need_fn("sqlgrep::execution::expression_execution::ExpressionExecutionEngine::evaluate"), keep=EVAL_KEEP)
    cmp_calls = [c for c in ev.calls if c.func.get("trait") in ("core::cmp::PartialOrd", "core::cmp::Ord") and
                 (c.targs[:1] in (["sqlgrep::model::Value"], ["&sqlgrep::model::Value"])) and c.func.get("trait_method") in ("lt", "le", "gt", "ge", "cmp", "partial_cmp")]
    coercions = []
    for i, s in ev.stmts():
        if s["rv"]["k"] == "cast" and s["rv"]["ck"] == "IntToFloat" and s["rv"]["from"] == "i64":
            coercions.append(i)
    for c in cmp_calls:
        key = "evaluate|%s" % short(c.name).split("::")[-1]
        feeding = [b for b in coercions if c.bb in ev.reachable_from(b)]
        if len(feeding) >= 2:
            R.ok("C16.numcmp", key, "both INT->REAL conversions (left and right operand) lie on paths to the comparison", c.loc())
        else:
            R.violation("C16.numcmp", key, "Value ordered comparison in evaluate without INT->REAL conversion of both operand positions "
                                           "on a path to it: an INT and a REAL are ordered by enum variant", [c.loc()])
    f2i = [(i, s_) for i, s_ in ev.stmts() if s_["rv"]["k"] == "cast" and s_["rv"]["ck"] == "FloatToInt"]
    for i, s_ in f2i:
        if any(c.bb in ev.reachable_from(i) for c in cmp_calls) and any(ev.dominates(sw_, i) for sw_ in
                                                                      [c.bb for c in ev.calls if False] or [0]):
            # only casts inside the arm that holds the comparisons (dominated by the arm's entry)
            arm_entries = set()
            for c in cmp_calls:
                for gsw, lab, tgt in F.guards_dominating(ev, c.bb):
                    info = F.switch_info(ev, gsw)
                    if info and info[0] == "discr" and (info[1].get("adt") or "").endswith("model::ExpressionTree"):
                        arm_entries.add(tgt)
            if any(ev.dominates(t_, i) for t_ in arm_entries):
                R.violation("C16.numcmp", "evaluate|real-to-int",
                            "a REAL operand is converted to INT (`as i64`, saturating) before a comparison: reals beyond the i64 range collapse to "
                            "i64::MAX/MIN, so equality is not transitive and numbers are not ordered by value", ["%s:%d" % (ev.file, s_["line"])])
    R.floor("C16.numcmp", 1)
    R.floor("C16.closure", 5)
    R.assume("std, chrono::DateTime<Local> and TimeDelta implement lawful, mutually consistent Eq/Ord/Hash")
    R.assume("derived impls over lawful field types are lawful (lexicographic by declaration order, variant index first)")
    # no REAL -> INT conversion of a comparison operand (it saturates outside the i64 range and is not injective)
    from . import arms as A
    esw = A.enum_switches(ev, "model::ExpressionTree")
    region = None
    for sw in esw:
        arms_, _, _ = A.arms(ev, sw)
        if "Compare" in arms_:
            region = arms_["Compare"][1]
            break
    if region is not None:
        bad = []
        for i, st in ev.stmts():
            if i in region and st["rv"]["k"] == "cast" and st["rv"]["ck"] == "FloatToInt":
                bad.append("%s:%d %s->%s" % (ev.file, st["line"], st["rv"]["from"], st["rv"]["to"]))
        seen_f = set()
        for c in ev.calls:
            if c.bb not in region:
                continue
            for k2 in P.callee_keys(ev, c):
                g2 = P.fns[k2]
                if k2 == ev.key or k2 in seen_f or g2.derived or not g2.spath.startswith("sqlgrep::"):
                    continue
                seen_f.add(k2)
                stack = [(g2, 1)]
                while stack:
                    g3, d3 = stack.pop()
                    for i3, st3 in g3.stmts():
                        if st3["rv"]["k"] == "cast" and st3["rv"]["ck"] == "FloatToInt":
                            bad.append("%s:%d %s->%s in %s" % (g3.file, st3["line"], st3["rv"]["from"], st3["rv"]["to"], g3.spath.split("::")[-1]))
                    if d3 > 0:
                        for c3 in g3.calls:
                            for k3 in P.callee_keys(g3, c3):
                                if k3 not in seen_f and k3 != ev.key and P.fns[k3].spath.startswith("sqlgrep::") and not P.fns[k3].derived:
                                    seen_f.add(k3)
                                    stack.append((P.fns[k3], d3 - 1))
        if bad:
            R.violation("C16.numcmp", "evaluate|real-to-int", "a comparison operand is converted REAL -> INT (%s): the conversion saturates "
                                                              "outside the i64 range, so distinct REALs compare equal to one INT and the order "
                                                              "is no longer transitive" % bad[0], [bad[0].split(" ")[0]])
        else:
            R.ok("C16.numcmp", "evaluate|no-real-to-int", "no REAL -> INT conversion in the comparison arm or its helpers", ev.loc())
    # the only values a comparison makes up itself are the INT operand widened to REAL (either side) and the text operand parsed as a
    # timestamp: every other re-typing of an operand (text read as a number, case folding, rounding ..) gives WHERE an equality / order
    # that GROUP BY, DISTINCT, MIN / MAX and the join index (which use Value's own Eq / Ord / Hash) do not share
    R.rule("C16.coerce", "the Compare arm hands the evaluated operands to Value's comparison unchanged, except INT -> REAL widening (a cast of "
                         "the Int payload) and text -> timestamp parsing: no other Value is constructed for a comparison operand")
    if region is not None:
        made = []
        for i, st in ev.stmts():
            if i not in region or st["k"] != "assign" or st["rv"]["k"] != "aggr" or st["rv"].get("adt") != "sqlgrep::model::Value":
                continue
            var = st["rv"].get("variant")
            if var in ("Bool", "Null"):
                continue        # the result of the comparison
            ok_widen = False
            if var == "Float" and st["rv"]["ops"]:
                for o in F.origins(ev, st["rv"]["ops"][0], depth=8, through_calls=False):
                    if o.kind == "cast" and o.extra == "i64->f64":
                        ok_widen = True
            made.append((i, st, var, ok_widen))
        badm = [(i, st, var) for i, st, var, okw in made if not okw]
        parses = [c for c in ev.calls if c.bb in region and re.search(r"str>::parse$|::from_str$|to_lowercase$|to_uppercase$|::trim\w*$|f64>::(round|floor|ceil|trunc)$", short(c.name))]
        if badm:
            i, st, var = badm[0]
            R.violation("C16.coerce", "evaluate|compare-makes-value",
                        "the Compare arm constructs a Value::%s for a comparison operand that is not the INT -> REAL widening: WHERE then compares "
                        "by another equality / order than GROUP BY, DISTINCT, MIN / MAX and join keys (which use Value's own Eq / Ord / Hash)%s"
                        % (var, " (through %s)" % short(parses[0].name).split("::")[-1] if parses else ""), ["%s:%d" % (ev.file, st["line"])])
        elif parses:
            R.violation("C16.coerce", "evaluate|compare-transforms",
                        "the Compare arm transforms an operand with %s before comparing" % short(parses[0].name), [parses[0].loc()])
        else:
            R.ok("C16.coerce", "evaluate|compare", "%d operand values made in the Compare arm, all INT -> REAL widenings" % len(made), ev.loc())
    # MIN / MAX use the same total order as WHERE, ORDER of groups and PERCENTILE: no numeric side channel
    from . import rules_c04
    rules_c04._minmax(R, "C16.minmax")
    run_keys(R)


class RemapRules:
    """a Run seen through another rule id: lets a property that leans on C16.float (DISTINCT, join keys) re-decide it under its own name"""

    def __init__(self, R, frm, to):
        self._R, self._frm, self._to = R, frm, to

    def _m(self, rid):
        if self._frm.endswith(".") and rid.startswith(self._frm):
            return self._to + rid[len(self._frm):]      # a whole family: C12.iter -> C06.input-iter
        return self._to if rid == self._frm else rid

    def __getattr__(self, name):
        return getattr(self._R, name)

    def rule(self, rid, desc):
        return self._R.rule(self._m(rid), desc)

    def ok(self, rid, *a, **k):
        return self._R.ok(self._m(rid), *a, **k)

    def violation(self, rid, *a, **k):
        return self._R.violation(self._m(rid), *a, **k)

    def floor(self, rid, n):
        return self._R.floor(self._m(rid), n)


def digest_rule(R, rid):
    """values that are deduplicated / grouped / joined are kept as values: nothing outside the Hash impls reduces a value (tuple) to a
    hash digest - two different tuples with one digest would be taken for equal"""
    P = R.prog
    R.rule(rid, "no function of the engine other than the Hash impls themselves feeds a value, a value tuple, a group key or a row into a "
                "hasher it owns: containers that deduplicate, group or join hold the values, never their digests")
    VAL = re.compile(r"sqlgrep::model::(Value|Float)\b|aggregate_execution::GroupKey\b|data_model::Row\b")
    n = 0
    for k in sorted(P.fns):
        f = P.fns[k]
        if f.target != "lib" or f.derived or re.search(r" as core::hash::Hash>::hash$", f.spath):
            continue
        for c in f.calls:
            sn = short(c.name)
            if not re.search(r" as core::hash::Hash>::hash(_slice)?$|^core::hash::Hash::hash(_slice)?$", sn):
                continue
            n += 1
            ts = " ".join(c.func.get("res_targs") or c.targs or [])
            self_ty = sn + " " + ts + " " + (c.args[0].get("ty") or "" if c.args else "")
            if VAL.search(self_ty):
                R.violation(rid, "%s|digest" % f.spath, "%s hashes %s itself (outside a Hash impl): what is stored or compared afterwards is a "
                            "digest, and two different values with one digest are treated as equal (a DISTINCT row, a group or a join partner "
                            "is lost)" % (f.path, (c.args[0].get("ty") or "a value") if c.args else "a value"), [c.loc()])
    R.ok(rid, "engine", "%d explicit hasher uses outside Hash impls, none over values" % n, "src/execution/mod.rs", nontrivial=False)


def float_key_agreement(R, rid):
    """Hash / Eq / Ord of the float-bearing key type(s) agree (one canonical key): decided under `rid` for the property that depends on it"""
    P = R.prog
    RR = RemapRules(R, "C16.float", rid)
    RR.rule("C16.float", "the hand-written Eq / Ord / Hash of the REAL wrapper are built on one canonical key (equal values hash equally): "
                         "hashed containers of value tuples (the DISTINCT set, join index, group keys) rely on it")
    impls = {}
    for im in P.impls:
        if im["trait"] in CMP_TRAITS and im["self_adt"]:
            impls.setdefault(im["self_adt"], {})[im["trait"].split("::")[-1]] = im
    n = 0
    for a in sorted(impls):
        if a in P.adts and _direct_float(a, P) and any(not im["derived"] for im in impls[a].values()):
            n += 1
            _check_float_type(RR, P, a, impls[a], P.adts[a]["span"]["file"] + ":%d" % P.adts[a]["span"]["line"])
    return n


def _check_float_type(R, P, a, ims, loc):
    need = ("PartialEq", "Eq", "PartialOrd", "Ord", "Hash")
    for t in need:
        if t not in ims:
            R.violation("C16.float", "%s|%s|missing" % (a, t), "float-bearing key type %s lacks %s" % (a, t), [loc])
            return
    der = [t for t in ("PartialEq", "PartialOrd", "Ord", "Hash") if ims[t]["derived"]]
    if der:
        R.violation("C16.float", "%s|derived-mix" % a,
                    "float-bearing key type %s derives %s: IEEE comparison is neither reflexive nor total, so it disagrees with the "
                    "hand-written impls (NaN / -0.0)" % (a, "/".join(der)), [loc])
        return

    def body(trait, meth):
        for m in ims[trait]["methods"]:
            if m["name"] == meth:
                return P.fns.get(m["key"])
        return None

    cmp_f, eq_f, pc_f, h_f = body("Ord", "cmp"), body("PartialEq", "eq"), body("PartialOrd", "partial_cmp"), body("Hash", "hash")
    for nm, f in (("cmp", cmp_f), ("eq", eq_f), ("partial_cmp", pc_f), ("hash", h_f)):
        if f is None:
            R.violation("C16.float", "%s|%s|nobody" % (a, nm), "method %s of %s not found" % (nm, a), [loc])
            return

    def float_ops(f):
        return [s["rv"]["op"] for _, s in f.stmts()
                if s["rv"]["k"] == "binop" and s["rv"]["op"] in ("Lt", "Le", "Gt", "Ge", "Eq", "Ne") and FLOAT_TY.search(s["rv"].get("lty", ""))]

    def names(f):
        return [short(c.name) for c in f.calls]

    def local_keyfns(f):
        return sorted(set(short(c.name) for c in f.calls if c.func.get("res_local") and c.func.get("trait") is None))

    cmp_self = "<%s as core::cmp::Ord>::cmp" % a
    # cmp: total_cmp (or integer cmp of to_bits), no IEEE comparison operators
    fo = float_ops(cmp_f)
    if fo:
        R.violation("C16.float", "%s|cmp|ieee" % a,
                    "%s::cmp is built on IEEE comparison operators %s: unordered (NaN) pairs fall through to a fixed answer, so the "
                    "order is not total/transitive" % (a, fo), [cmp_f.loc()])
    elif "core::f64::<impl f64>::total_cmp" in names(cmp_f) or "core::f64::<impl f64>::to_bits" in names(cmp_f):
        R.ok("C16.float", "%s|cmp" % a, "cmp = total_cmp over key fn %s" % local_keyfns(cmp_f), cmp_f.loc())
    else:
        R.violation("C16.float", "%s|cmp|unrecognised" % a, "%s::cmp is not built on f64::total_cmp / to_bits" % a, [cmp_f.loc()])
    # eq and partial_cmp delegate to cmp
    for nm, f in (("eq", eq_f), ("partial_cmp", pc_f)):
        if cmp_self in names(f) and not float_ops(f):
            R.ok("C16.float", "%s|%s" % (a, nm), "%s delegates to cmp" % nm, f.loc())
        else:
            R.violation("C16.float", "%s|%s|not-delegating" % (a, nm),
                        "%s::%s does not delegate to cmp (or uses IEEE operators): equality/order may disagree with Ord" % (a, nm), [f.loc()])
    # ... on every path: partial_cmp never answers None (unordered) and never answers something cmp did not say
    pcv = PR.view(P, pc_f, hold=re.escape(cmp_self) + "$")
    cmpc = [c for c in pcv.calls if short(c.name) == cmp_self]
    for _, st in pcv.stmts():
        if st["k"] != "assign" or st["rv"]["k"] != "aggr" or st["rv"].get("adt") != "core::option::Option":
            continue
        if st["rv"].get("variant") == "None":
            R.violation("C16.float", "%s|partial_cmp|unordered" % a,
                        "%s::partial_cmp answers None for some pairs (e.g. NaN against a number) while cmp orders them: `<`, `>` and MIN / MAX, "
                        "which go through partial_cmp, then disagree with the total order that sorting, grouping and DISTINCT use" % a,
                        ["%s:%d" % (pcv.file, st["line"])])
        elif st["rv"].get("variant") == "Some" and st["rv"]["ops"] and "Ordering" in (st["rv"]["ops"][0].get("ty") or ""):
            os_ = F.origins(pcv, st["rv"]["ops"][0], depth=6, through_calls=False) if st["rv"]["ops"][0].get("k") != "const" else []
            if not any(o.kind == "call" and o.call in cmpc for o in os_):
                R.violation("C16.float", "%s|partial_cmp|own-answer" % a,
                            "%s::partial_cmp answers with an ordering that does not come from cmp on some path" % a,
                            ["%s:%d" % (pcv.file, st["line"])])
    # hash feeds the same key as cmp compares
    kc = local_keyfns(cmp_f)
    # helpers of hash() other than the comparison key function are looked through (e.g. `canonical_bits()` = `canonical().to_bits()`)
    h_f = PR.view(P, h_f, keep="|".join(re.escape(k) + "$" for k in kc) if kc else None,
                  hold="|".join(re.escape(k) + "$" for k in kc) if kc else None)
    kh = local_keyfns(h_f)
    raw_transmute = any(s["rv"]["k"] == "cast" and s["rv"]["ck"] == "Transmute" for _, s in h_f.stmts())
    if raw_transmute or kc != kh:
        R.violation("C16.float", "%s|hash|key-mismatch" % a,
                    "%s::hash hashes a different key (%s%s) than cmp/eq compare (%s): equal values may hash differently"
                    % (a, kh, " + raw transmute" if raw_transmute else "", kc), [h_f.loc()])
    elif "core::f64::<impl f64>::to_bits" in names(h_f):
        R.ok("C16.float", "%s|hash" % a, "hash = to_bits of the same key fn %s" % kh, h_f.loc())
    else:
        R.violation("C16.float", "%s|hash|unrecognised" % a, "%s::hash does not hash to_bits of the comparison key" % a, [h_f.loc()])
    # the key function canonicalises NaN and signed zero (structural: is_nan test and a comparison with 0.0)
    for kn in kc:
        kf = P.fn(kn)
        if kf is None:
            continue
        has_nan = "core::f64::<impl f64>::is_nan" in names(kf)
        has_zero = any(s["rv"]["k"] == "binop" and s["rv"]["op"] == "Eq" and FLOAT_TY.search(s["rv"].get("lty", ""))
                       for _, s in kf.stmts())
        if has_nan and has_zero:
            R.ok("C16.float", "%s|key" % a, "key fn canonicalises NaN (is_nan) and signed zero (== 0.0)", kf.loc())
        else:
            R.violation("C16.float", "%s|key|canonical" % a,
                        "key function %s does not canonicalise %s: total_cmp distinguishes -0.0/0.0 and NaN payloads, so numerically "
                        "equal values would be different keys" % (kn, "NaN" if not has_nan else "signed zero"), [kf.loc()])


# ---- C16.key: the key handed to a hashed/ordered container is the value itself --------------------------------------------------------
KEY_METHODS = re.compile(r"::(entry|insert|get|get_mut|contains_key|contains|remove|get_or_insert_with|get_key_value|remove_entry|replace|take)$")
HOT = ("sqlgrep::model::Value", "sqlgrep::model::Float", "sqlgrep::execution::aggregate_execution::GroupKey")
VALUE_SOURCE = re.compile(r"^sqlgrep::execution::(expression_execution::|column_providers::|.*ColumnProvider)|^sqlgrep::data_model::")
LOSSY = {"IntToFloat", "FloatToInt"}


def _lossy_casts(P, key, depth=2, _memo=None):
    """lossy numeric casts (int<->float, narrowing int) in a local function and its local callees (bounded)"""
    g = P.fns.get(key)
    if g is None or g.derived:
        return []
    res = []
    for i, s in g.stmts():
        rv = s["rv"]
        if rv["k"] != "cast":
            continue
        if rv["ck"] in LOSSY and rv["from"] != rv["to"]:
            res.append("%s:%d %s->%s" % (g.file, s["line"], rv["from"], rv["to"]))
    if depth > 0:
        for c in g.calls:
            for k2 in P.callee_keys(g, c):
                if k2 != key and not VALUE_SOURCE.search(P.fns[k2].spath):
                    res += _lossy_casts(P, k2, depth - 1)
    return res


def _key_chain(P, f, op, depth=8, seen=None):
    """local (non value-source) functions and direct casts on the provenance chain of a key operand"""
    seen = seen if seen is not None else set()
    out = []
    for o in F.origins(f, op, depth=12):
        if o.kind == "cast" and ("f64" in o.extra or "f32" in o.extra):
            out.append(("cast", o.extra, f))
        if o.kind != "call":
            continue
        c = o.call
        if id(c) in seen:
            continue
        seen.add(id(c))
        keys = [k for k in P.callee_keys(f, c) if not P.fns[k].derived]
        if any(VALUE_SOURCE.search(P.fns[k].spath) for k in keys):
            continue
        for k in keys:
            out.append(("fn", k, c))
        if keys and depth > 0:
            for a in c.args:
                out += _key_chain(P, f, a, depth - 1, seen)
    return out


def run_keys(R, rid="C16.key", owner_prefix=None, floor=4):
    P = R.prog
    R.rule(rid, "the key passed to a hashed/ordered container of values (join table, groups, DISTINCT sets) is the evaluated value "
                      "itself: no function or cast on its provenance converts between INT and REAL (a lossy image makes unequal values one key)")
    reach = P.reachable(rules_sites.roots(R, "EXEC"))
    n = 0
    for k in sorted(reach):
        f = P.fns[k]
        if f.derived:
            continue
        for c in f.calls:
            sn = short(c.name)
            ts = c.func.get("res_targs") or c.targs
            if not (KEYED.search(sn) and KEY_METHODS.search(sn) and ts and any(h in ts[0] for h in HOT)):
                continue
            if len(c.args) < 2:
                continue
            n += 1
            owner = f
            while owner.kind == "Closure" and owner.parent_key in P.fns:
                owner = P.fns[owner.parent_key]
            if owner_prefix and not owner.spath.startswith(owner_prefix):
                continue
            key = "%s|%s" % (owner.spath.split("sqlgrep::")[-1], sn.split("::")[-1])
            bad = []
            for kind, what, where in _key_chain(P, f, c.args[1]):
                if kind == "cast":
                    bad.append("a %s cast in %s" % (what, f.path))
                else:
                    lc = _lossy_casts(P, what)
                    if lc:
                        bad.append("%s (contains %s)" % (P.fns[what].path, lc[0]))
            if bad:
                R.violation(rid, key, "the key of %s on %s is computed through %s: distinct values can collapse to one key, so "
                                            "unequal values are joined/grouped/deduplicated together" % (sn.split("::")[-1], ts[0], bad[0]),
                            [c.loc()])
            else:
                R.ok(rid, key, "key provenance holds no INT<->REAL conversion", c.loc())
    R.floor(rid, floor)
