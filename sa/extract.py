"""Fact extraction: runs the rustc_private driver over a crate (always from the
current working tree), with a content-hash keyed cache so that the 20 checks of
one run share one extraction.  Fails closed (EngineError) when the tree does not
type-check or the driver did not write fresh fact files."""
import hashlib, json, os, shutil, subprocess, sys, time, glob, fcntl

VERIF = os.path.dirname(os.path.dirname(os.path.abspath(__file__)))
CACHE = os.path.join(VERIF, ".cache")
DRIVER = os.path.join(VERIF, "driver", "target", "release", "sqlgrep-facts")
REPO = os.environ.get("SQLGREP_REPO", "/repo")


class EngineError(Exception):
    pass


def _sysroot():
    return subprocess.check_output(["rustc", "+nightly", "--print", "sysroot"], text=True).strip()


def ensure_driver():
    src = [os.path.join(VERIF, "driver", "src", f) for f in ("main.rs", "json.rs")]
    if os.path.exists(DRIVER) and all(os.path.getmtime(DRIVER) >= os.path.getmtime(s) for s in src):
        return
    env = dict(os.environ, CARGO_NET_OFFLINE="true")
    r = subprocess.run(["cargo", "build", "--release", "--offline"], cwd=os.path.join(VERIF, "driver"),
                       env=env, capture_output=True, text=True)
    if r.returncode != 0:
        raise EngineError("driver build failed:\n" + r.stderr[-3000:])


def tree_hash(root, extra=""):
    h = hashlib.sha256()
    h.update(extra.encode())
    files = []
    for name in ("Cargo.toml", "Cargo.lock", "build.rs"):
        p = os.path.join(root, name)
        if os.path.exists(p):
            files.append(p)
    for d, dirs, fs in os.walk(os.path.join(root, "src")):
        dirs.sort()
        for f in sorted(fs):
            files.append(os.path.join(d, f))
    for p in files:
        h.update(os.path.relpath(p, root).encode())
        with open(p, "rb") as fh:
            h.update(fh.read())
    for s in (os.path.join(VERIF, "driver", "src", "main.rs"), os.path.join(VERIF, "driver", "src", "json.rs")):
        with open(s, "rb") as fh:
            h.update(fh.read())
    return h.hexdigest()[:24]


def extract(root=None, crates="sqlgrep", profile="dev", fresh=False, cargo_args=("--lib", "--bins")):
    """Returns (list of fact dicts, info dict)."""
    root = root or REPO
    ensure_driver()
    os.makedirs(CACHE, exist_ok=True)
    hx = tree_hash(root, extra=profile + crates + " ".join(cargo_args))
    out = os.path.join(CACHE, "facts", hx)
    lock = open(os.path.join(CACHE, "lock"), "w")
    fcntl.flock(lock, fcntl.LOCK_EX)
    try:
        done = os.path.join(out, "DONE")
        t0 = time.time()
        cached = os.path.exists(done) and not fresh
        if not cached:
            if os.path.exists(out):
                shutil.rmtree(out)
            os.makedirs(out)
            nonce = hashlib.sha256(("%s%s" % (time.time(), os.getpid())).encode()).hexdigest()[:16]
            target = os.path.join(CACHE, "target-" + profile)
            if fresh and os.path.exists(target):
                shutil.rmtree(target)
            # a warm target dir would make cargo skip the wrapper: drop member fingerprints
            for fp in glob.glob(os.path.join(target, "*", ".fingerprint", crates.split(",")[0] + "-*")):
                shutil.rmtree(fp, ignore_errors=True)
            rustflags = "-Zmir-opt-level=0 -Awarnings"
            if profile == "release":
                rustflags += " -C overflow-checks=off -C debug-assertions=off"
            env = dict(os.environ)
            env.update({
                "LD_LIBRARY_PATH": _sysroot() + "/lib",
                "RUSTFLAGS": rustflags,
                "RUSTC_WORKSPACE_WRAPPER": DRIVER,
                "SQLGREP_FACTS_OUT": out,
                "SQLGREP_FACTS_NONCE": nonce,
                "SQLGREP_FACTS_CRATES": crates,
                "CARGO_TARGET_DIR": target,
                "CARGO_NET_OFFLINE": "true",
            })
            env.pop("RUSTC_WRAPPER", None)
            r = subprocess.run(["cargo", "+nightly", "check", "--offline", "-j", "16"] + list(cargo_args),
                               cwd=root, env=env, capture_output=True, text=True)
            if r.returncode != 0:
                raise EngineError("tree does not type-check under the fact extractor:\n" + r.stderr[-4000:])
            files = sorted(glob.glob(os.path.join(out, "*.json")))
            if not files:
                raise EngineError("driver wrote no fact files (stale cargo cache?)")
            for f in files:
                with open(f) as fh:
                    head = fh.read(200)
                if nonce not in head:
                    raise EngineError("fact file %s not written by this invocation" % f)
            with open(done, "w") as fh:
                fh.write(nonce)
        files = sorted(glob.glob(os.path.join(out, "*.json")))
        facts = []
        for f in files:
            with open(f) as fh:
                d = json.load(fh)
            d["_file"] = f
            d["_target"] = "bin" if "-bin-" in os.path.basename(f) else "lib"
            facts.append(d)
        # prune old fact dirs (keep 6 newest)
        alld = sorted(glob.glob(os.path.join(CACHE, "facts", "*")), key=os.path.getmtime)
        for d in alld[:-int(os.environ.get("VERIF_KEEP_FACTS", "6")):]:
            if d != out:
                shutil.rmtree(d, ignore_errors=True)
        info = {"hash": hx, "cached": cached, "extract_s": round(time.time() - t0, 2), "root": root,
                "profile": profile}
        return facts, info
    finally:
        fcntl.flock(lock, fcntl.LOCK_UN)
        lock.close()
