"""C11 — incremental (tail -f) results equal a batch run over the same prefix.

Both modes run the same functions; they can differ only through state that one mode touches more
often.  Decided: composition (execute = update; result), the (update, result) arm table, the
repeatability of the result phase (effect analysis), config-independence of the SELECT path and
that ExecutionOutput carries the engine's result unmodified."""
import re
from .prog import short, place_fields
from . import flow as F
from . import pathrules as PR

AGGE = "sqlgrep::execution::aggregate_execution::AggregateExecutionEngine::"
ENG = "sqlgrep::execution::execution_engine::ExecutionEngine::"
ACCUMULATING = re.compile(r"::(push|push_str|push_back|push_front|insert|insert_str|extend|extend_from_slice|append|entry|or_insert|"
                          r"or_insert_with|add|add_assign|sub_assign|retain|remove|pop|drain|truncate|clear|dedup|reverse|swap)$")
RESULT_FIELDS_ALLOWED = {"group_aggregators": {"std::collections::hash::map::HashMap::iter_mut", "alloc::collections::btree::map::BTreeMap::iter_mut"},
                         "group_values": {AGGE + "get_group"}}


def run(R):
    P = R.prog
    R.rule("C11.compose", "AggregateExecutionEngine::execute is execute_update followed (iff the row passed WHERE) by execute_result, nothing else")
    R.rule("C11.arms", "ExecutionEngine::execute dispatches (update,result) = (T,T)->execute_aggregate, (T,F)->execute_aggregate_update, "
                       "(F,T)->execute_aggregate_result")
    R.rule("C11.repeat", "the result phase is repeatable: its only writes to engine state are the keyed overwrite of group_values through "
                         "get_group and the in-place sort of PERCENTILE values; nothing accumulates across refreshes")
    R.rule("C11.select", "the SELECT path of ExecutionEngine::execute does not read the execution config")
    R.rule("C11.output", "ExecutionOutput constructors carry the engine's result row unmodified")
    # ---- compose: every method of the aggregate engine that updates with a row and then renders the table does so exactly when the
    #      row was accepted (execute_update returned true) - and on nothing else (no `only if something changed` engine flag)
    # ---- refresh: wherever else a row is folded into the aggregate state (a direct update_aggregates call outside execute_update), the
    #      table is rendered afterwards on every path that returns normally - there is no "nothing visible changed" shortcut, because the
    #      rendered values of some aggregates (PERCENTILE) only come into being in the result phase
    R.rule("C11.refresh", "a row folded into the aggregate state outside execute_update is followed by execute_result on every normally "
                          "returning path (no skipped refresh)")
    n_ref = 0
    for g0 in sorted(P.fns.values(), key=lambda x: x.key):
        if g0.target != "lib" or g0.kind == "Closure" or g0.derived or not g0.spath.startswith("sqlgrep::execution::") \
                or (PR.pinned_fns() and g0.spath not in PR.pinned_fns()) or g0.spath == AGGE + "execute_update":
            continue
        g = PR.view(P, g0)
        ups = [c for c in g.calls if short(c.name) == AGGE + "update_aggregates"]
        if not ups:
            continue
        n_ref += 1
        rblocks = set(c.bb for c in g.calls if short(c.name) == AGGE + "execute_result")
        errblocks = set(c.bb for c in g.calls if short(c.name).endswith("::from_residual"))
        bad_exit = None
        for u in ups:
            if u.target is None:
                continue
            reach = g.reachable_from(u.target, avoid=rblocks | errblocks)
            ex = sorted(set(g.exits()) & reach)
            if ex:
                bad_exit = (u, ex[0])
        if bad_exit:
            R.violation("C11.refresh", g0.spath.split("::")[-1] + "|refresh-skipped",
                        "%s folds the row into the aggregate state (update_aggregates) and can then return normally without execute_result: the "
                        "followed table is not refreshed for that line, so it can differ from a batch run over the same prefix (e.g. a "
                        "PERCENTILE in HAVING only gets its value in the result phase)" % g0.path, [bad_exit[0].loc(), g.loc(bad_exit[1])])
        else:
            R.ok("C11.refresh", g0.spath.split("::")[-1], "update_aggregates is followed by execute_result on every normal path", ups[0].loc())
    if n_ref == 0:
        R.ok("C11.refresh", "none", "update_aggregates is called from execute_update only", R.need_fn(AGGE + "execute_update").loc(), nontrivial=False)
    composers = []
    for g0 in P.fns.values():
        if g0.target != "lib" or g0.kind == "Closure" or not (g0.raw.get("impl_self") or "").endswith("aggregate_execution::AggregateExecutionEngine"):
            continue
        g = PR.view(P, g0)
        up = [c for c in g.calls if short(c.name) == AGGE + "execute_update"]
        rs = [c for c in g.calls if short(c.name) == AGGE + "execute_result"]
        if up and rs:
            composers.append((g, up, rs))
    if not composers:
        R.violation("C11.compose", "execute|calls", "no method of AggregateExecutionEngine composes execute_update and execute_result", [R.need_fn(AGGE + "execute_update").loc()])
    for g, up, rs in composers:
        nm = g.spath.split("::")[-1]
        fa = PR.facts(g)
        problems = []
        for r_ in rs:
            accepted = any(call in up and val is True for call, val in fa.call_facts(r_.bb))
            if not accepted:
                problems.append("execute_result is not guarded by `execute_update(..) == true`")
            for call, val in fa.call_facts(r_.bb):
                if call in up or re.search(r"Try>::branch$|from_residual$", short(call.name)):
                    continue
                if any(o.kind == "arg" and o.arg == 1 for a_ in call.args for o in F.origins(g, a_, depth=8)):
                    problems.append("the refresh also depends on %s(self..) == %s" % (short(call.name).split("::")[-1], val))
            for flds, root, val in fa.place_facts(r_.bb):
                if root == 1 and flds:
                    problems.append("the refresh also depends on the engine field %s == %s" % (".".join(flds), val))
        writes = [w for w in PR.self_writes(g) if not w[1].startswith("&mut self")]
        if writes:
            problems.append("the composer writes engine state itself (%s)" % writes[0][1])
        if not all(g.dominates(u.bb, r_.bb) for u in up[:1] for r_ in rs):
            problems.append("execute_result can run before execute_update")
        if problems:
            R.violation("C11.compose", nm + "|" + ("order" if "before" in problems[0] or "not guarded" in problems[0] else "extra-condition"),
                        "%s: %s - the table shown after k lines would differ from a batch run over the first k lines (a refresh is skipped "
                        "or forced on a condition other than `the row was accepted`)" % (g.path, "; ".join(sorted(set(problems)))), [rs[0].loc()])
        else:
            R.ok("C11.compose", nm, "execute_update()? then, exactly if it returned true, execute_result()", g.loc())
    # ---- arm table (path facts on the view of ExecutionEngine::execute: a `match (update, result)`, an if-chain, or a mode enum
    #      computed from the config by a helper all give the same facts)
    ef = R.need_fn(ENG + "execute")
    efa = PR.facts(ef)
    want = {"execute_aggregate": {"update": True, "result": True}, "execute_aggregate_update": {"update": True, "result": False},
            "execute_aggregate_result": {"update": False, "result": True}}
    # a per-mode wrapper that was inlined by hand into execute() is recognised by the aggregate-engine call it wrapped
    WRAPPED = {"execute_aggregate": AGGE + "execute", "execute_aggregate_update": AGGE + "execute_update", "execute_aggregate_result": AGGE + "execute_result"}
    for cal, w in sorted(want.items()):
        cs = [c for c in ef.calls if short(c.name) == ENG + cal]
        if not cs and P.fn(ENG + cal) is None:
            cs = [c for c in ef.calls if short(c.name) == WRAPPED[cal]]
        if not cs:
            R.violation("C11.arms", cal + "|count", "ExecutionEngine::execute never calls %s" % cal, [ef.loc()])
            continue
        for c in cs:
            got = {}
            for key_, val in efa.at(c.bb):
                a_ = efa.atoms.get(key_, {})
                if a_.get("kind") == "place" and isinstance(val, bool):
                    fe = [e for e in a_["place"]["p"] if isinstance(e, dict) and "f" in e]
                    if fe and (fe[-1].get("adt") or "").endswith("execution_engine::ExecutionConfig") and fe[-1].get("n") in ("update", "result"):
                        got[fe[-1]["n"]] = val
            if got == w:
                R.ok("C11.arms", cal, "guards %s" % got, c.loc())
            else:
                R.violation("C11.arms", cal + "|guards", "%s is dispatched under config %s, expected %s" % (cal, got, w), [c.loc()])
    # ---- repeatability of the result phase
    rf = R.need_fn(AGGE + "execute_result")
    reach = P.reachable([rf])
    for k in sorted(reach):
        g = P.fns[k]
        if g.derived:
            continue
        owner = g
        while owner.kind == "Closure" and owner.parent_key in P.fns:
            owner = P.fns[owner.parent_key]
        # (a) mutable borrows of engine fields in execute_result itself
        engine_method = (owner.raw.get("impl_self") or "").endswith("aggregate_execution::AggregateExecutionEngine") and owner.arg_count >= 1 and \
            owner.locals[1]["ty"].startswith("&mut ") and "AggregateExecutionEngine" in owner.locals[1]["ty"]
        if owner.key == rf.key or (engine_method and g.key == owner.key):
            for i, s in g.stmts():
                if s["k"] == "assign" and s["rv"]["k"] == "ref" and s["rv"]["bk"] == "mut" and s["rv"]["pl"]["l"] == 1:
                    flds = place_fields(s["rv"]["pl"])
                    if not flds:
                        continue
                    fld = flds[0]
                    # where does this borrow go?
                    users = [c for c in g.calls if any(a["k"] in ("copy", "move") and not a["pl"]["p"] and
                                                       _derives(g, a["pl"]["l"], s["pl"]["l"]) for a in c.args)]
                    for c in users:
                        sn = short(c.name)
                        if fld in RESULT_FIELDS_ALLOWED and sn in RESULT_FIELDS_ALLOWED[fld]:
                            R.ok("C11.repeat", "execute_result|&mut %s->%s" % (fld, sn.split("::")[-1]), "listed repeatable use", c.loc())
                        else:
                            R.violation("C11.repeat", "execute_result|&mut %s->%s" % (fld, sn.split("::")[-1]),
                                        "the result phase mutates engine state `%s` through %s: state that accumulates across refreshes makes "
                                        "the followed table differ from a batch run" % (fld, sn), [c.loc()])
                if s["k"] == "assign" and s["pl"]["l"] == 1 and s["pl"]["p"]:
                    R.violation("C11.repeat", "execute_result|assign " + ".".join(place_fields(s["pl"])),
                                "the result phase assigns engine field %s" % ".".join(place_fields(s["pl"])), ["%s:%d" % (g.file, s["line"])])
        # (b) callees with &mut self: update_value may only sort; others may not mutate their receiver
        elif g.spath.startswith(AGGE.rsplit("::", 2)[0]) and g.arg_count >= 1 and g.locals[1]["ty"].startswith("&mut "):
            if g.spath.endswith("GroupAggregator::update_value"):
                for c in g.calls:
                    sn = short(c.name)
                    # only what is reached through the receiver (self) is aggregator state; a local accumulator is not
                    on_self = bool(c.args) and any(o.kind == "arg" and o.arg == 1 for o in F.origins(g, c.args[0], depth=8))
                    if ACCUMULATING.search(sn) and not sn.endswith("::sort") and on_self:
                        R.violation("C11.repeat", "update_value|" + sn.split("::")[-1],
                                    "GroupAggregator::update_value (result phase) mutates aggregator state with %s" % sn, [c.loc()])
                R.ok("C11.repeat", "update_value", "only the idempotent in-place sort touches aggregator state", g.loc())
            elif g.spath.endswith("AggregateExecutionEngine::get_group") or g.spath.endswith("AggregateExecutionEngine::execute_result"):
                pass
            elif g.spath.startswith("sqlgrep::execution::helpers::DistinctValues"):
                pass
            else:
                if any(w for w in PR.self_writes(g)):
                    R.violation("C11.repeat", "callee|" + g.spath.split("::")[-1],
                                "%s is reachable from the result phase and writes through &mut self" % g.path, [g.loc()])
    # the overwrite after get_group
    gg = [c for c in rf.calls if short(c.name) == AGGE + "get_group"]
    if gg:
        over = [s for i, s in rf.stmts() if s["k"] == "assign" and s["pl"]["p"] == ["*"] and rf.dominates(gg[0].bb, i)]
        if over:
            R.ok("C11.repeat", "execute_result|overwrite", "the entry returned by get_group is overwritten with the recomputed value", gg[0].loc())
        else:
            R.violation("C11.repeat", "execute_result|no-overwrite", "the entry returned by get_group is not overwritten: a stale value survives "
                                                                     "a refresh", [gg[0].loc()])
    R.floor("C11.repeat", 3)
    # ---- select path independent of config
    cfg_reads = []
    for i, s in ef.stmts():
        if s["k"] != "assign":
            continue
        rv = s["rv"]
        pls = []
        if rv["k"] in ("use",) and rv["op"]["k"] in ("copy", "move"):
            pls.append(rv["op"]["pl"])
        if rv["k"] in ("ref", "copy_for_deref"):
            pls.append(rv["pl"])
        for pl in pls:
            if 1 <= pl["l"] <= ef.arg_count and ef.local_ty(pl["l"]).endswith("execution_engine::ExecutionConfig"):
                cfg_reads.append((i, s))
    sel = PR.calls_matching(ef, r"ExecutionEngine::execute_select$")
    agg_calls = [c for c in ef.calls if short(c.name) in (ENG + "execute_aggregate", ENG + "execute_aggregate_update", ENG + "execute_aggregate_result")]
    bad = [(i, s) for i, s in cfg_reads if sel and (i in ef.reachable_from(0, avoid={c.bb for c in agg_calls}) and
                                                     sel[0].bb in ef.reachable_from(i))]
    if not sel:
        R.violation("C11.select", "execute|no-select", "ExecutionEngine::execute has no execute_select call", [ef.loc()])
    elif bad:
        R.violation("C11.select", "execute|config-in-select", "the SELECT path reads the execution config (batch and follow would differ)",
                    ["%s:%d" % (ef.file, bad[0][1]["line"])])
    else:
        R.ok("C11.select", "execute", "config is read only on the aggregate arms (%d reads)" % len(cfg_reads), sel[0].loc())
    # ---- output constructors
    for ctor in ("new", "joined"):
        cf = R.need_fn("sqlgrep::execution::execution_engine::ExecutionOutput::" + ctor)
        aggr = [s for i, s in cf.stmts() if s["k"] == "assign" and s["rv"]["k"] == "aggr" and s["rv"].get("variant") == "ExecutionOutput"]
        ok = False
        if len(aggr) == 1:
            fields = aggr[0]["rv"].get("fields", [])
            if "result_row" in fields:
                op = aggr[0]["rv"]["ops"][fields.index("result_row")]
                os_ = F.origins(cf, op, depth=6, through_calls=False)
                ok = len(os_) == 1 and os_[0].kind == "arg" and os_[0].arg == 1
        # other calls (`..ExecutionOutput::empty()` for the remaining fields) are fine as long as none of them gets hold of the row
        touched = [c for c in cf.calls if any(a.get("k") in ("copy", "move") and any(o.kind == "arg" and o.arg == 1 for o in F.origins(cf, a, depth=6))
                                              for a in c.args)]
        if ok and not touched:
            R.ok("C11.output", "ExecutionOutput::" + ctor, "result_row = the argument, unmodified", cf.loc())
        else:
            R.violation("C11.output", "ExecutionOutput::" + ctor,
                        "ExecutionOutput::%s transforms the result row (calls: %s): what the follower prints differs from what the engine computed"
                        % (ctor, [short(c.name) for c in (touched or cf.calls)]), [cf.loc()])
    R.assume("equality of whole tables between a follow run and a batch run is not compared; LIMIT is excluded by the property")


def _derives(g, local, src_local, depth=6):
    """local is (a reborrow / copy of) src_local"""
    if local == src_local:
        return True
    if depth == 0:
        return False
    for i, s in g.stmts():
        if s["k"] == "assign" and s["pl"]["l"] == local and not s["pl"]["p"]:
            rv = s["rv"]
            if rv["k"] in ("ref", "copy_for_deref") and rv["pl"]["l"] != local:
                return _derives(g, rv["pl"]["l"], src_local, depth - 1)
            if rv["k"] == "use" and rv["op"]["k"] in ("copy", "move"):
                return _derives(g, rv["op"]["pl"]["l"], src_local, depth - 1)
    return False
