// sqlgrep-facts: rustc_private driver that dumps the type-checked program
// (MIR CFG with resolved callees, ADTs, impls) of selected crates as JSON.
// Injected through RUSTC_WORKSPACE_WRAPPER; no analysis logic lives here — every
// rule is evaluated by the python layer over these facts.
#![feature(rustc_private)]
#![allow(clippy::all)]

extern crate rustc_abi;
extern crate rustc_data_structures;
extern crate rustc_driver;
extern crate rustc_hir;
extern crate rustc_index;
extern crate rustc_interface;
extern crate rustc_middle;
extern crate rustc_session;
extern crate rustc_span;

mod json;
use json::J;

use rustc_driver::{Callbacks, Compilation};
use rustc_hir::def::DefKind;
use rustc_hir::def_id::{DefId, LOCAL_CRATE};
use rustc_interface::interface::Compiler;
use rustc_middle::mir::{
    self, AggregateKind, AssertKind, BasicBlock, Body, BorrowKind, CastKind, Operand, Place,
    ProjectionElem, Rvalue, StatementKind, TerminatorKind, UnwindAction,
};
use rustc_middle::ty::print::{PrintTraitRefExt, 
    with_no_trimmed_paths, with_no_visible_paths, with_resolve_crate_name,
};
use rustc_middle::ty::{self, Instance, Ty, TyCtxt, TypingEnv};
use rustc_span::Span;

struct Cb;

impl Callbacks for Cb {
    fn after_analysis<'tcx>(&mut self, _c: &Compiler, tcx: TyCtxt<'tcx>) -> Compilation {
        let name = tcx.crate_name(LOCAL_CRATE).to_string();
        let wanted = std::env::var("SQLGREP_FACTS_CRATES").unwrap_or_else(|_| "sqlgrep".into());
        if !wanted.split(',').any(|w| w == name) {
            return Compilation::Continue;
        }
        let out_dir = match std::env::var("SQLGREP_FACTS_OUT") {
            Ok(d) => d,
            Err(_) => return Compilation::Continue,
        };
        let facts = with_resolve_crate_name!(with_no_trimmed_paths!(with_no_visible_paths!(
            dump_crate(tcx, &name)
        )));
        let mut s = String::with_capacity(1 << 24);
        facts.write(&mut s);
        let ctype = format!("{:?}", tcx.crate_types().first()).to_lowercase();
        let kind = if ctype.contains("executable") { "bin" } else { "lib" };
        let path = format!("{}/{}-{}-{}.json", out_dir, name, kind, std::process::id());
        std::fs::write(&path, s).expect("write facts");
        Compilation::Continue
    }
}

fn main() {
    let mut args: Vec<String> = std::env::args().collect();
    // RUSTC_WORKSPACE_WRAPPER passes the real rustc path as argv[1]
    if args.len() > 1 && (args[1].ends_with("rustc") || args[1].contains("/rustc")) {
        args.remove(1);
    }
    let mut cb = Cb;
    rustc_driver::run_compiler(&args, &mut cb);
}

// ---------------------------------------------------------------------------

fn key(tcx: TyCtxt<'_>, did: DefId) -> String {
    format!("{}{}", tcx.crate_name(did.krate), tcx.def_path(did).to_string_no_crate_verbose())
}

fn tys(ty: Ty<'_>) -> String {
    format!("{}", ty)
}

fn span_j(tcx: TyCtxt<'_>, sp: Span) -> J {
    let sm = tcx.sess.source_map();
    // macro-expanded code: report the outermost call site inside the crate
    let src = sp.source_callsite();
    let lo = sm.lookup_char_pos(src.lo());
    let hi = sm.lookup_char_pos(src.hi());
    let file = format!("{}", lo.file.name.prefer_local_unconditionally());
    let mut v = vec![
        ("file", J::s(file)),
        ("line", J::Int(lo.line as i128)),
        ("col", J::Int(lo.col.0 as i128 + 1)),
        ("line_hi", J::Int(hi.line as i128)),
        ("exp", J::Bool(sp.from_expansion())),
    ];
    if sp.from_expansion() {
        let mut names = vec![];
        let mut cur = sp;
        let mut guard = 0;
        while cur.from_expansion() && guard < 8 {
            let d = cur.ctxt().outer_expn_data();
            names.push(J::s(format!("{}", d.kind.descr())));
            cur = d.call_site;
            guard += 1;
        }
        v.push(("macros", J::Arr(names)));
    }
    J::Obj(v)
}

fn dump_crate<'tcx>(tcx: TyCtxt<'tcx>, name: &str) -> J {
    let mut fns = vec![];
    let mut n_bodies = 0;
    for ldid in tcx.hir_body_owners() {
        let did = ldid.to_def_id();
        let dk = tcx.def_kind(did);
        match dk {
            DefKind::Fn | DefKind::AssocFn | DefKind::Closure => {}
            _ => continue,
        }
        if tcx.is_constructor(did) {
            continue;
        }
        n_bodies += 1;
        fns.push(dump_fn(tcx, did, dk));
    }
    // ADTs, impls, statics
    let mut adts = vec![];
    let mut impls = vec![];
    let mut statics = vec![];
    for id in tcx.hir_crate_items(()).definitions() {
        let did = id.to_def_id();
        match tcx.def_kind(did) {
            DefKind::Struct | DefKind::Enum | DefKind::Union => adts.push(dump_adt(tcx, did)),
            DefKind::Impl { .. } => impls.push(dump_impl(tcx, did)),
            DefKind::Static { .. } => {
                let ty = tcx.type_of(did).instantiate_identity().skip_norm_wip();
                statics.push(J::Obj(vec![
                    ("key", J::s(key(tcx, did))),
                    ("ty", J::s(tys(ty))),
                    ("span", span_j(tcx, tcx.def_span(did))),
                ]));
            }
            _ => {}
        }
    }
    J::Obj(vec![
        ("crate", J::s(name)),
        ("nonce", J::s(std::env::var("SQLGREP_FACTS_NONCE").unwrap_or_default())),
        ("n_bodies", J::Int(n_bodies)),
        ("fns", J::Arr(fns)),
        ("adts", J::Arr(adts)),
        ("impls", J::Arr(impls)),
        ("statics", J::Arr(statics)),
    ])
}

fn dump_adt<'tcx>(tcx: TyCtxt<'tcx>, did: DefId) -> J {
    let adt = tcx.adt_def(did);
    let mut variants = vec![];
    for (vi, v) in adt.variants().iter_enumerated() {
        let discr = if adt.is_enum() {
            J::s(format!("{}", adt.discriminant_for_variant(tcx, vi).val))
        } else {
            J::Null
        };
        let mut fields = vec![];
        for f in v.fields.iter() {
            let fty = tcx.type_of(f.did).instantiate_identity().skip_norm_wip();
            fields.push(J::Obj(vec![
                ("name", J::s(f.name.to_string())),
                ("ty", J::s(tys(fty))),
            ]));
        }
        variants.push(J::Obj(vec![
            ("name", J::s(v.name.to_string())),
            ("idx", J::Int(vi.as_u32() as i128)),
            ("discr", discr),
            ("fields", J::Arr(fields)),
        ]));
    }
    let self_ty = tcx.type_of(did).instantiate_identity().skip_norm_wip();
    let tenv = TypingEnv::post_analysis(tcx, did);
    J::Obj(vec![
        ("key", J::s(key(tcx, did))),
        ("path", J::s(tcx.def_path_str(did))),
        ("kind", J::s(if adt.is_enum() { "enum" } else if adt.is_struct() { "struct" } else { "union" })),
        ("freeze", J::Bool(self_ty.is_freeze(tcx, tenv))),
        ("variants", J::Arr(variants)),
        ("span", span_j(tcx, tcx.def_span(did))),
    ])
}

fn dump_impl<'tcx>(tcx: TyCtxt<'tcx>, did: DefId) -> J {
    let self_ty = tcx.type_of(did).instantiate_identity().skip_norm_wip();
    let trait_ = tcx.impl_opt_trait_ref(did).map(|t| {
        let t = t.instantiate_identity().skip_norm_wip();
        (tcx.def_path_str(t.def_id), format!("{}", t.print_only_trait_path()))
    });
    let mut methods = vec![];
    for item in tcx.associated_items(did).in_definition_order() {
        if matches!(item.kind, ty::AssocKind::Fn { .. }) {
            methods.push(J::Obj(vec![
                ("name", J::s(item.name().to_string())),
                ("key", J::s(key(tcx, item.def_id))),
            ]));
        }
    }
    let self_adt = match self_ty.kind() {
        ty::Adt(a, _) => Some(key(tcx, a.did())),
        _ => None,
    };
    J::Obj(vec![
        ("key", J::s(key(tcx, did))),
        ("self_ty", J::s(tys(self_ty))),
        ("self_adt", J::opt_s(self_adt)),
        ("trait", J::opt_s(trait_.as_ref().map(|t| t.0.clone()))),
        ("trait_full", J::opt_s(trait_.map(|t| t.1))),
        ("derived", J::Bool(tcx.is_automatically_derived(did))),
        ("methods", J::Arr(methods)),
        ("span", span_j(tcx, tcx.def_span(did))),
    ])
}

fn dump_fn<'tcx>(tcx: TyCtxt<'tcx>, did: DefId, dk: DefKind) -> J {
    let body = tcx.optimized_mir(did);
    let parent = tcx.parent(did);
    let pk = tcx.def_kind(parent);
    let (impl_trait, impl_self, derived) = if let DefKind::Impl { .. } = pk {
        let t = tcx.impl_opt_trait_ref(parent).map(|t| {
            let t = t.instantiate_identity().skip_norm_wip();
            tcx.def_path_str(t.def_id)
        });
        let st = tcx.type_of(parent).instantiate_identity().skip_norm_wip();
        (t, Some(tys(st)), tcx.is_automatically_derived(parent))
    } else {
        (None, None, false)
    };
    let vis = if matches!(dk, DefKind::Fn | DefKind::AssocFn) {
        format!("{:?}", tcx.visibility(did))
    } else {
        String::new()
    };
    let mut v = vec![
        ("key", J::s(key(tcx, did))),
        ("path", J::s(tcx.def_path_str(did))),
        ("kind", J::s(format!("{:?}", dk))),
        ("span", span_j(tcx, tcx.def_span(did))),
        ("body_span", span_j(tcx, body.span)),
        ("parent", J::s(key(tcx, parent))),
        ("parent_kind", J::s(format!("{:?}", pk))),
        ("impl_trait", J::opt_s(impl_trait)),
        ("impl_self", J::opt_s(impl_self)),
        ("derived", J::Bool(derived)),
        ("vis", J::s(vis)),
    ];
    v.push(("body", dump_body(tcx, did, body)));
    let promoted = tcx.promoted_mir(did);
    let mut ps = vec![];
    for p in promoted.iter() {
        ps.push(dump_body(tcx, did, p));
    }
    v.push(("promoted", J::Arr(ps)));
    J::Obj(v)
}

fn dump_body<'tcx>(tcx: TyCtxt<'tcx>, owner: DefId, body: &Body<'tcx>) -> J {
    let tenv = TypingEnv::post_analysis(tcx, owner);
    let cx = Cx { tcx, body, tenv };
    // locals
    let mut names: Vec<Option<String>> = vec![None; body.local_decls.len()];
    let mut dbg = vec![];
    for vdi in body.var_debug_info.iter() {
        if let mir::VarDebugInfoContents::Place(p) = &vdi.value {
            if p.projection.is_empty() {
                names[p.local.as_usize()] = Some(vdi.name.to_string());
            }
            dbg.push(J::Obj(vec![("name", J::s(vdi.name.to_string())), ("place", cx.place(p))]));
        }
    }
    let mut locals = vec![];
    for (l, d) in body.local_decls.iter_enumerated() {
        locals.push(J::Obj(vec![
            ("ty", J::s(tys(d.ty))),
            ("name", J::opt_s(names[l.as_usize()].clone())),
            ("mut", J::Bool(d.mutability.is_mut())),
        ]));
    }
    let doms = body.basic_blocks.dominators();
    let mut blocks = vec![];
    for (bb, data) in body.basic_blocks.iter_enumerated() {
        let mut stmts = vec![];
        for st in data.statements.iter() {
            if let Some(j) = cx.stmt(st) {
                stmts.push(j);
            }
        }
        let idom = doms.immediate_dominator(bb).map(|b| J::Int(b.as_u32() as i128)).unwrap_or(J::Null);
        blocks.push(J::Obj(vec![
            ("cleanup", J::Bool(data.is_cleanup)),
            ("idom", idom),
            ("stmts", J::Arr(stmts)),
            ("term", cx.term(data.terminator())),
        ]));
    }
    J::Obj(vec![
        ("arg_count", J::Int(body.arg_count as i128)),
        ("locals", J::Arr(locals)),
        ("debug", J::Arr(dbg)),
        ("blocks", J::Arr(blocks)),
    ])
}

struct Cx<'a, 'tcx> {
    tcx: TyCtxt<'tcx>,
    body: &'a Body<'tcx>,
    tenv: TypingEnv<'tcx>,
}

fn bbj(b: BasicBlock) -> J {
    J::Int(b.as_u32() as i128)
}

impl<'a, 'tcx> Cx<'a, 'tcx> {
    fn line(&self, sp: Span) -> J {
        let sm = self.tcx.sess.source_map();
        let src = sp.source_callsite();
        J::Int(sm.lookup_char_pos(src.lo()).line as i128)
    }

    fn place(&self, p: &Place<'tcx>) -> J {
        let mut proj = vec![];
        for (base, elem) in p.iter_projections() {
            let j = match elem {
                ProjectionElem::Deref => J::s("*"),
                ProjectionElem::Field(f, fty) => {
                    let bty = base.ty(self.body, self.tcx);
                    let mut name = format!("{}", f.as_u32());
                    let mut adt_key = None;
                    if let ty::Adt(adt, _) = bty.ty.kind() {
                        let vi = bty.variant_index.unwrap_or(rustc_abi::FIRST_VARIANT);
                        if let Some(fd) = adt.variant(vi).fields.get(f) {
                            name = fd.name.to_string();
                        }
                        adt_key = Some(key(self.tcx, adt.did()));
                    }
                    J::Obj(vec![
                        ("f", J::Int(f.as_u32() as i128)),
                        ("n", J::s(name)),
                        ("adt", J::opt_s(adt_key)),
                        ("ty", J::s(tys(fty))),
                    ])
                }
                ProjectionElem::Downcast(sym, vi) => J::Obj(vec![
                    ("d", J::s(sym.map(|s| s.to_string()).unwrap_or_default())),
                    ("vi", J::Int(vi.as_u32() as i128)),
                ]),
                ProjectionElem::Index(l) => J::Obj(vec![("i", J::Int(l.as_u32() as i128))]),
                ProjectionElem::ConstantIndex { offset, min_length, from_end } => J::Obj(vec![
                    ("ci", J::Int(offset as i128)),
                    ("min", J::Int(min_length as i128)),
                    ("from_end", J::Bool(from_end)),
                ]),
                ProjectionElem::Subslice { from, to, from_end } => J::Obj(vec![
                    ("sub_from", J::Int(from as i128)),
                    ("sub_to", J::Int(to as i128)),
                    ("from_end", J::Bool(from_end)),
                ]),
                other => J::s(format!("{:?}", other)),
            };
            proj.push(j);
        }
        J::Obj(vec![("l", J::Int(p.local.as_u32() as i128)), ("p", J::Arr(proj))])
    }

    fn operand(&self, o: &Operand<'tcx>) -> J {
        match o {
            Operand::Copy(p) => J::Obj(vec![
                ("k", J::s("copy")),
                ("pl", self.place(p)),
                ("ty", J::s(tys(o.ty(&self.body.local_decls, self.tcx)))),
            ]),
            Operand::Move(p) => J::Obj(vec![
                ("k", J::s("move")),
                ("pl", self.place(p)),
                ("ty", J::s(tys(o.ty(&self.body.local_decls, self.tcx)))),
            ]),
            Operand::Constant(c) => {
                let ty = c.const_.ty();
                let mut v = vec![
                    ("k", J::s("const")),
                    ("ty", J::s(tys(ty))),
                    ("v", J::s(format!("{}", c.const_))),
                ];
                match ty.kind() {
                    ty::FnDef(d, args) => {
                        v.push(("fn", self.callee(*d, args)));
                    }
                    ty::Closure(d, _) => {
                        v.push(("closure", J::s(key(self.tcx, *d))));
                    }
                    _ => {}
                }
                if let Some(si) = c.const_.try_eval_scalar_int(self.tcx, self.tenv) {
                    let size = si.size();
                    let val: i128 = if ty.is_signed() {
                        si.to_int(size)
                    } else {
                        si.to_uint(size) as i128
                    };
                    v.push(("int", J::Int(val)));
                }
                if let mir::Const::Unevaluated(u, _) = c.const_ {
                    if let Some(p) = u.promoted {
                        v.push(("promoted", J::Int(p.as_u32() as i128)));
                    } else {
                        v.push(("uneval", J::s(key(self.tcx, u.def))));
                    }
                }
                J::Obj(v)
            }
            other => J::Obj(vec![("k", J::s("other")), ("v", J::s(format!("{:?}", other)))]),
        }
    }

    fn callee(&self, d: DefId, args: ty::GenericArgsRef<'tcx>) -> J {
        let tcx = self.tcx;
        let mut targs = vec![];
        let mut closures = vec![];
        for a in args.iter() {
            if let Some(t) = a.as_type() {
                targs.push(J::s(tys(t)));
                collect_closures(tcx, t, &mut closures, 0);
            }
        }
        let mut v = vec![
            ("key", J::s(key(tcx, d))),
            ("path", J::s(tcx.def_path_str(d))),
            ("targs", J::Arr(targs)),
            ("local", J::Bool(d.is_local())),
            ("crate", J::s(tcx.crate_name(d.krate).to_string())),
        ];
        if !closures.is_empty() {
            v.push(("closure_args", J::Arr(closures.into_iter().map(J::s).collect())));
        }
        // trait of the (unresolved) callee
        if let Some(tr) = tcx.trait_of_assoc(d) {
            v.push(("trait", J::s(tcx.def_path_str(tr))));
            v.push(("trait_method", J::s(tcx.item_name(d).to_string())));
        }
        match Instance::try_resolve(tcx, self.tenv, d, args) {
            Ok(Some(inst)) => {
                let rd = inst.def_id();
                let kind = match inst.def {
                    ty::InstanceKind::Item(_) => "item",
                    ty::InstanceKind::Virtual(..) => "virtual",
                    ty::InstanceKind::ClosureOnceShim { .. } => "closure_once_shim",
                    ty::InstanceKind::FnPtrShim(..) => "fn_ptr_shim",
                    ty::InstanceKind::Intrinsic(..) => "intrinsic",
                    ty::InstanceKind::DropGlue(..) => "drop_glue",
                    ty::InstanceKind::CloneShim(..) => "clone_shim",
                    ty::InstanceKind::ReifyShim(..) => "reify_shim",
                    _ => "other",
                };
                v.push(("res_kind", J::s(kind)));
                v.push(("res_key", J::s(key(tcx, rd))));
                v.push(("res_path", J::s(tcx.def_path_str(rd))));
                v.push(("res_local", J::Bool(rd.is_local())));
                let mut rargs = vec![];
                for a in inst.args.iter() {
                    if let Some(t) = a.as_type() {
                        rargs.push(J::s(tys(t)));
                    }
                }
                v.push(("res_targs", J::Arr(rargs)));
                // impl header of the resolved item (self type + trait)
                if matches!(tcx.def_kind(rd), DefKind::AssocFn) {
                    let p = tcx.parent(rd);
                    if let DefKind::Impl { .. } = tcx.def_kind(p) {
                        let st = tcx.type_of(p).instantiate_identity().skip_norm_wip();
                        v.push(("res_impl_self", J::s(tys(st))));
                        v.push(("res_impl_derived", J::Bool(tcx.is_automatically_derived(p))));
                    }
                }
            }
            Ok(None) => v.push(("res_kind", J::s("unresolved"))),
            Err(_) => v.push(("res_kind", J::s("error"))),
        }
        J::Obj(v)
    }

    fn func(&self, f: &Operand<'tcx>) -> J {
        let fty = f.ty(&self.body.local_decls, self.tcx);
        match fty.kind() {
            ty::FnDef(d, args) => self.callee(*d, args),
            _ => J::Obj(vec![
                ("key", J::Null),
                ("indirect", J::Bool(true)),
                ("ty", J::s(tys(fty))),
                ("op", self.operand(f)),
            ]),
        }
    }

    fn rvalue(&self, r: &Rvalue<'tcx>) -> J {
        match r {
            Rvalue::Use(o, ..) => J::Obj(vec![("k", J::s("use")), ("op", self.operand(o))]),
            Rvalue::Repeat(o, n) => J::Obj(vec![
                ("k", J::s("repeat")),
                ("op", self.operand(o)),
                ("n", J::s(format!("{}", n))),
            ]),
            Rvalue::Ref(_, bk, p) => {
                let m = match bk {
                    BorrowKind::Shared => "shared",
                    BorrowKind::Fake(_) => "fake",
                    BorrowKind::Mut { .. } => "mut",
                };
                J::Obj(vec![("k", J::s("ref")), ("bk", J::s(m)), ("pl", self.place(p))])
            }
            Rvalue::RawPtr(k, p) => J::Obj(vec![
                ("k", J::s("rawptr")),
                ("bk", J::s(format!("{:?}", k))),
                ("pl", self.place(p)),
            ]),
            Rvalue::Cast(ck, o, to) => {
                let ck_s = match ck {
                    CastKind::IntToInt => "IntToInt".to_string(),
                    CastKind::FloatToInt => "FloatToInt".to_string(),
                    CastKind::FloatToFloat => "FloatToFloat".to_string(),
                    CastKind::IntToFloat => "IntToFloat".to_string(),
                    CastKind::PtrToPtr => "PtrToPtr".to_string(),
                    CastKind::FnPtrToPtr => "FnPtrToPtr".to_string(),
                    CastKind::Transmute => "Transmute".to_string(),
                    CastKind::PointerExposeProvenance => "PointerExposeProvenance".to_string(),
                    CastKind::PointerWithExposedProvenance => "PointerWithExposedProvenance".to_string(),
                    CastKind::PointerCoercion(pc, _) => format!("PointerCoercion({:?})", pc),
                    other => format!("{:?}", other),
                };
                J::Obj(vec![
                    ("k", J::s("cast")),
                    ("ck", J::s(ck_s)),
                    ("op", self.operand(o)),
                    ("from", J::s(tys(o.ty(&self.body.local_decls, self.tcx)))),
                    ("to", J::s(tys(*to))),
                ])
            }
            Rvalue::BinaryOp(op, ops) => J::Obj(vec![
                ("k", J::s("binop")),
                ("op", J::s(format!("{:?}", op))),
                ("l", self.operand(&ops.0)),
                ("r", self.operand(&ops.1)),
                ("lty", J::s(tys(ops.0.ty(&self.body.local_decls, self.tcx)))),
            ]),
            Rvalue::UnaryOp(op, o) => J::Obj(vec![
                ("k", J::s("unop")),
                ("op", J::s(format!("{:?}", op))),
                ("o", self.operand(o)),
                ("oty", J::s(tys(o.ty(&self.body.local_decls, self.tcx)))),
            ]),
            Rvalue::Discriminant(p) => {
                let pty = p.ty(self.body, self.tcx).ty;
                let adt = match pty.kind() {
                    ty::Adt(a, _) => Some(key(self.tcx, a.did())),
                    _ => None,
                };
                let mut variants = vec![];
                if let ty::Adt(a, _) = pty.kind() {
                    if a.is_enum() {
                        for (vi, vd) in a.variants().iter_enumerated() {
                            let dv = a.discriminant_for_variant(self.tcx, vi).val;
                            variants.push(J::Arr(vec![J::s(format!("{}", dv)), J::s(vd.name.to_string())]));
                        }
                    }
                }
                J::Obj(vec![
                    ("k", J::s("discr")),
                    ("pl", self.place(p)),
                    ("ty", J::s(tys(pty))),
                    ("adt", J::opt_s(adt)),
                    ("variants", J::Arr(variants)),
                ])
            }
            Rvalue::Aggregate(ak, ops) => {
                let mut v = vec![("k", J::s("aggr"))];
                match &**ak {
                    AggregateKind::Array(t) => {
                        v.push(("ak", J::s("array")));
                        v.push(("ty", J::s(tys(*t))));
                    }
                    AggregateKind::Tuple => v.push(("ak", J::s("tuple"))),
                    AggregateKind::Adt(d, vi, _args, _, active) => {
                        let adt = self.tcx.adt_def(*d);
                        v.push(("ak", J::s("adt")));
                        v.push(("adt", J::s(key(self.tcx, *d))));
                        v.push(("variant", J::s(adt.variant(*vi).name.to_string())));
                        let fnames: Vec<J> =
                            adt.variant(*vi).fields.iter().map(|f| J::s(f.name.to_string())).collect();
                        v.push(("fields", J::Arr(fnames)));
                        if let Some(a) = active {
                            v.push(("active", J::Int(a.as_u32() as i128)));
                        }
                    }
                    AggregateKind::Closure(d, _) => {
                        v.push(("ak", J::s("closure")));
                        v.push(("closure", J::s(key(self.tcx, *d))));
                    }
                    other => {
                        v.push(("ak", J::s("other")));
                        v.push(("desc", J::s(format!("{:?}", other))));
                    }
                }
                v.push(("ops", J::Arr(ops.iter().map(|o| self.operand(o)).collect())));
                J::Obj(v)
            }
            Rvalue::CopyForDeref(p) => J::Obj(vec![("k", J::s("copy_for_deref")), ("pl", self.place(p))]),
            Rvalue::ThreadLocalRef(d) => {
                J::Obj(vec![("k", J::s("tls")), ("def", J::s(key(self.tcx, *d)))])
            }
            other => J::Obj(vec![("k", J::s("other")), ("desc", J::s(format!("{:?}", other)))]),
        }
    }

    fn stmt(&self, st: &mir::Statement<'tcx>) -> Option<J> {
        match &st.kind {
            StatementKind::Assign(b) => {
                let (p, r) = &**b;
                Some(J::Obj(vec![
                    ("k", J::s("assign")),
                    ("pl", self.place(p)),
                    ("rv", self.rvalue(r)),
                    ("line", self.line(st.source_info.span)),
                    ("exp", J::Bool(st.source_info.span.from_expansion())),
                ]))
            }
            StatementKind::SetDiscriminant { place, variant_index } => Some(J::Obj(vec![
                ("k", J::s("set_discr")),
                ("pl", self.place(place)),
                ("vi", J::Int(variant_index.as_u32() as i128)),
                ("line", self.line(st.source_info.span)),
            ])),
            StatementKind::Intrinsic(i) => Some(J::Obj(vec![
                ("k", J::s("intrinsic")),
                ("desc", J::s(format!("{:?}", i))),
            ])),
            _ => None,
        }
    }

    fn unwind(&self, u: &UnwindAction) -> J {
        match u {
            UnwindAction::Cleanup(b) => bbj(*b),
            _ => J::Null,
        }
    }

    fn term(&self, t: &mir::Terminator<'tcx>) -> J {
        let sp = t.source_info.span;
        let mut v: Vec<(&'static str, J)> = vec![];
        match &t.kind {
            TerminatorKind::Goto { target } => {
                v.push(("k", J::s("goto")));
                v.push(("target", bbj(*target)));
            }
            TerminatorKind::SwitchInt { discr, targets } => {
                v.push(("k", J::s("switch")));
                v.push(("discr", self.operand(discr)));
                let mut ts = vec![];
                for (val, bb) in targets.iter() {
                    ts.push(J::Arr(vec![J::s(format!("{}", val)), bbj(bb)]));
                }
                v.push(("targets", J::Arr(ts)));
                v.push(("otherwise", bbj(targets.otherwise())));
            }
            TerminatorKind::Return => v.push(("k", J::s("return"))),
            TerminatorKind::Unreachable => v.push(("k", J::s("unreachable"))),
            TerminatorKind::UnwindResume => v.push(("k", J::s("resume"))),
            TerminatorKind::UnwindTerminate(_) => v.push(("k", J::s("terminate"))),
            TerminatorKind::Drop { place, target, unwind, .. } => {
                v.push(("k", J::s("drop")));
                v.push(("pl", self.place(place)));
                v.push(("target", bbj(*target)));
                v.push(("unwind", self.unwind(unwind)));
            }
            TerminatorKind::Call { func, args, destination, target, unwind, fn_span, .. } => {
                v.push(("k", J::s("call")));
                v.push(("func", self.func(func)));
                v.push(("args", J::Arr(args.iter().map(|a| self.operand(&a.node)).collect())));
                v.push(("dest", self.place(destination)));
                v.push(("target", target.map(bbj).unwrap_or(J::Null)));
                v.push(("unwind", self.unwind(unwind)));
                v.push(("fn_span", span_j(self.tcx, *fn_span)));
            }
            TerminatorKind::TailCall { func, args, .. } => {
                v.push(("k", J::s("tailcall")));
                v.push(("func", self.func(func)));
                v.push(("args", J::Arr(args.iter().map(|a| self.operand(&a.node)).collect())));
            }
            TerminatorKind::Assert { cond, expected, msg, target, unwind } => {
                v.push(("k", J::s("assert")));
                v.push(("cond", self.operand(cond)));
                v.push(("expected", J::Bool(*expected)));
                let (ak, ops): (String, Vec<&Operand<'tcx>>) = match &**msg {
                    AssertKind::BoundsCheck { len, index } => ("BoundsCheck".into(), vec![len, index]),
                    AssertKind::Overflow(op, a, b) => (format!("Overflow({:?})", op), vec![a, b]),
                    AssertKind::OverflowNeg(a) => ("OverflowNeg".into(), vec![a]),
                    AssertKind::DivisionByZero(a) => ("DivisionByZero".into(), vec![a]),
                    AssertKind::RemainderByZero(a) => ("RemainderByZero".into(), vec![a]),
                    AssertKind::MisalignedPointerDereference { .. } => ("MisalignedPointerDereference".into(), vec![]),
                    AssertKind::NullPointerDereference => ("NullPointerDereference".into(), vec![]),
                    other => (format!("{:?}", other).split('(').next().unwrap_or("").to_string(), vec![]),
                };
                v.push(("ak", J::s(ak)));
                v.push(("ops", J::Arr(ops.into_iter().map(|o| self.operand(o)).collect())));
                v.push(("target", bbj(*target)));
                v.push(("unwind", self.unwind(unwind)));
            }
            TerminatorKind::FalseEdge { real_target, .. } => {
                v.push(("k", J::s("goto")));
                v.push(("target", bbj(*real_target)));
            }
            TerminatorKind::FalseUnwind { real_target, .. } => {
                v.push(("k", J::s("goto")));
                v.push(("target", bbj(*real_target)));
            }
            other => {
                v.push(("k", J::s("other")));
                v.push(("desc", J::s(format!("{:?}", other))));
            }
        }
        v.push(("span", span_j(self.tcx, sp)));
        J::Obj(v)
    }
}

fn collect_closures<'tcx>(tcx: TyCtxt<'tcx>, t: Ty<'tcx>, out: &mut Vec<String>, depth: u32) {
    if depth > 4 {
        return;
    }
    match t.kind() {
        ty::Closure(d, _) => out.push(key(tcx, *d)),
        ty::FnDef(d, _) => out.push(key(tcx, *d)),
        ty::Ref(_, inner, _) => collect_closures(tcx, *inner, out, depth + 1),
        ty::Adt(_, args) => {
            for a in args.iter() {
                if let Some(t) = a.as_type() {
                    collect_closures(tcx, t, out, depth + 1);
                }
            }
        }
        ty::Tuple(ts) => {
            for t in ts.iter() {
                collect_closures(tcx, t, out, depth + 1);
            }
        }
        _ => {}
    }
}
