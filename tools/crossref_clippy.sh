#!/bin/bash
# Informational cross-reference (not a registered check): runs clippy lints that overlap with the engine's rules on /repo's
# current tree and prints how many diagnostics each produced in the non-test code of the lib.
# Usage: tools/crossref_clippy.sh   (needs the nightly toolchain; offline)
T=$(mktemp -d /tmp/clippy-XXXX)
cd /repo && CARGO_TARGET_DIR=$T CARGO_NET_OFFLINE=true cargo +nightly clippy --offline --lib --message-format=json -- \
  -W clippy::iter_over_hash_type -W clippy::unwrap_used -W clippy::expect_used -W clippy::indexing_slicing -W clippy::panic \
  -W clippy::unimplemented -W clippy::arithmetic_side_effects -W clippy::cast_possible_truncation -W clippy::cast_sign_loss \
  -W clippy::derive_ord_xor_partial_ord 2>/dev/null \
 | python3 -c "
import sys, json, collections
c = collections.Counter()
for l in sys.stdin:
    try: m = json.loads(l)
    except Exception: continue
    if m.get('reason') != 'compiler-message': continue
    code = (m['message'].get('code') or {}).get('code')
    spans = m['message'].get('spans') or []
    if code and code.startswith('clippy::') and spans and not any('test' in s['file_name'] for s in spans):
        c[code] += 1
for k, v in sorted(c.items()): print('%5d %s' % (v, k))
"
rm -rf $T
