#!/usr/bin/env python3
"""Regenerates the seeds/mutants/benign detection matrix in DESIGN.md (between the MATRIX markers) from selftest/results.json."""
import json, os, re
V = os.path.dirname(os.path.dirname(os.path.abspath(__file__)))
r = json.load(open(os.path.join(V, "selftest", "results.json")))
exp = json.load(open(os.path.join(V, "selftest", "expect.json")))
lines = ["| kind | change | needs to manifest / what it is | reported by |", "|---|---|---|---|"]
for kind in ("seeds", "mutants", "benign"):
    for n, v in sorted(r[kind].items()):
        det = sorted(set(x for q, c in v.get("checks", {}).items() for x in c["rules"]))
        what = ""
        mp = os.path.join(V, "seeded", n, "meta.json")
        if os.path.exists(mp):
            try:
                what = json.load(open(mp)).get("needs_to_manifest", "")[:150].replace("|", "/").replace("\n", " ")
            except Exception:
                what = ""
        if n in exp:
            what = (what + " [" + exp[n].get("status", "see note") + "]").strip()
        rep = ", ".join(det) if det else ("silent (as required)" if kind == "benign" else "not reported")
        lines.append("| %s | %s | %s | %s |" % (kind[:-1] if kind != "benign" else kind, n, what, rep))
m = "\n".join(lines)
p = os.path.join(V, "DESIGN.md")
d = open(p).read()
d = re.sub(r"<!-- MATRIX:BEGIN -->.*?<!-- MATRIX:END -->", lambda _m: "<!-- MATRIX:BEGIN -->\n" + m + "\n<!-- MATRIX:END -->", d, flags=re.S)
open(p, "w").write(d)
print("matrix rows:", len(lines) - 2)
