#!/bin/bash
# tools/confirm_seed.sh <worktree> <seed-id>
# Re-confirms an agent-produced seeded change in its scratch worktree, then stores it under /verif/seeded/<seed-id>/.
# Confirms: (1) existing suite passes with the patch, (2) demo fails with the patch, (3) demo passes without it.
set -u
WT=$1; ID=$2
export CARGO_TARGET_DIR=$WT/target CARGO_NET_OFFLINE=true
cd $WT || exit 2
LOG=$WT/seed/confirm.log; : > $LOG
run_demo() {
  if [ -f seed/demo.sh ]; then bash seed/demo.sh >>$LOG 2>&1; return $?; fi
  if [ -f seed/demo_test.rs ]; then mkdir -p tests; cp seed/demo_test.rs tests/seed_demo.rs
     cargo test --offline --test seed_demo >>$LOG 2>&1; rc=$?; rm -f tests/seed_demo.rs; rmdir tests 2>/dev/null; return $rc; fi
  echo "no demo" >>$LOG; return 99
}
git checkout -q -- src; git apply seed/patch.diff || { echo "patch does not apply"; exit 2; }
echo "== suite with patch" >>$LOG
cargo test --offline 2>&1 | grep -E "^test result|FAILED|failed" >>$LOG
SUITE=$(grep -E "^test result: ok\. 229 passed" $LOG | wc -l)
echo "== demo with patch" >>$LOG; run_demo; WITH=$?
git apply -R seed/patch.diff
echo "== demo without patch" >>$LOG; run_demo; WITHOUT=$?
git apply seed/patch.diff
echo "suite_229_ok=$SUITE demo_with_patch_rc=$WITH demo_without_patch_rc=$WITHOUT" | tee -a $LOG
if [ "$SUITE" -ge 1 ] && [ "$WITH" -ne 0 ] && [ "$WITHOUT" -eq 0 ]; then
  mkdir -p /verif/seeded/$ID; cp -r seed/* /verif/seeded/$ID/; echo "CONFIRMED $ID"
else echo "NOT CONFIRMED $ID"; fi
