#!/usr/bin/env python3
"""tools/benign_for.py <file-regex> <Cxx...> [--jobs N] [--name substr]: run the given checks on every behaviour-preserving diff of
selftest/benign that touches a file matching <file-regex>, in scratch worktrees of /repo (removed afterwards).  Development aid only."""
import sys, os, re, glob, subprocess, concurrent.futures, queue, tempfile, shutil
V = os.path.dirname(os.path.dirname(os.path.abspath(__file__)))
args = sys.argv[1:]
jobs = 6
name = None
if "--jobs" in args:
    i = args.index("--jobs"); jobs = int(args[i + 1]); del args[i:i + 2]
if "--name" in args:
    i = args.index("--name"); name = args[i + 1]; del args[i:i + 2]
rx, props = re.compile(args[0]), args[1:]
def sh(c, cwd=None):
    return subprocess.run(c, shell=True, cwd=cwd, capture_output=True, text=True)
todo = []
for p in sorted(glob.glob(os.path.join(V, "selftest", "benign", "*.diff"))):
    files = re.findall(r"^\+\+\+ b/(\S+)", open(p).read(), re.M)
    if any(rx.search(f) for f in files) and (name is None or name in p):
        todo.append(p)
print("%d diffs" % len(todo))
wts = queue.Queue(); made = []
for i in range(jobs):
    wt = "/tmp/bf-wt-%d-%d" % (os.getpid(), i)
    sh("git worktree add --detach %s HEAD -q" % wt, "/repo")
    ev = tempfile.mkdtemp(prefix="bf-ev-"); made.append((wt, ev)); wts.put((wt, ev))
def work(p):
    wt, ev = wts.get()
    try:
        if sh("git apply %s || git apply -3 %s" % (p, p), wt).returncode:
            return p, ["does not apply"]
        out = []
        for c in props:
            r = sh("SQLGREP_REPO=%s VERIF_EVIDENCE_DIR=%s VERIF_KEEP_FACTS=60 ./check %s" % (wt, ev, c), V)
            if r.returncode != 0:
                out.append("%s rc=%d %s" % (c, r.returncode, " | ".join(re.findall(r"^--- .*rule (\S+)\n\s+(.{0,160})", r.stdout, re.M)[0:2] and
                                                                       ["%s: %s" % x for x in re.findall(r"^--- .*rule (\S+)\n\s+(.{0,200})", r.stdout, re.M)][:3])
                           or r.stdout[-300:] + r.stderr[-300:]))
        return p, out
    finally:
        sh("git reset -q --hard HEAD; git clean -fdq src", wt); wts.put((wt, ev))
bad = 0
try:
    with concurrent.futures.ThreadPoolExecutor(max_workers=jobs) as ex:
        for p, out in ex.map(work, todo):
            if out:
                bad += 1
                print(os.path.basename(p)); [print("   ", o) for o in out]
finally:
    for wt, ev in made:
        sh("git worktree remove --force %s" % wt, "/repo"); shutil.rmtree(ev, ignore_errors=True)
print("false alarms: %d / %d" % (bad, len(todo)))
