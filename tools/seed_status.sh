#!/bin/bash
# For every seed: apply (rebased patch if present) onto a scratch worktree of /repo HEAD, run the 229 tests and the demo.
# Prints: <seed> suite=<ok|FAIL> demo=<fails (still a violation) | passes (no longer manifests on the repaired tree)>
WT=/tmp/wt-seedstatus
git -C /repo worktree remove --force $WT 2>/dev/null
git -C /repo worktree add -q --detach $WT HEAD || exit 2
export CARGO_TARGET_DIR=$WT/target CARGO_NET_OFFLINE=true
cd $WT
for d in /verif/seeded/*/; do
  n=$(basename $d); P=$d/patch.diff; [ -f $d/patch.rebased.diff ] && P=$d/patch.rebased.diff
  git checkout -q -- . ; git clean -fdq -e target
  if ! (git apply $P 2>/dev/null || git apply -3 $P 2>/dev/null); then echo "$n patch-does-not-apply"; git reset -q --hard HEAD; continue; fi
  git reset -q 2>/dev/null
  suite=$(cargo test --offline 2>&1 | grep -c "^test result: ok. 229 passed")
  if [ -f $d/demo.sh ]; then mkdir -p seed; cp $d/demo.sh seed/demo.sh; bash seed/demo.sh >/tmp/seedstatus-$n.log 2>&1; rc=$?; rm -rf seed
  elif [ -f $d/demo_test.rs ]; then
     if grep -q "integration_tests.rs" $d/meta.json 2>/dev/null && ! grep -q "^use sqlgrep" $d/demo_test.rs; then cat $d/demo_test.rs >> src/integration_tests.rs; cargo test --offline seed_ >/tmp/seedstatus-$n.log 2>&1; rc=$?
     else mkdir -p tests; cp $d/demo_test.rs tests/seed_demo.rs; cargo test --offline --test seed_demo >/tmp/seedstatus-$n.log 2>&1; rc=$?; rm -rf tests; fi
  else rc=99; fi
  echo "$n suite_ok=$suite demo_rc=$rc"
done
cd /; git -C /repo worktree remove --force $WT
