#!/bin/bash
# tools/ingest_seed.sh <worktree-prefix> <round-letter> Cxx...: confirm each agent-made seed in its scratch worktree, store it under seeded/, remove the
# worktree when confirmed, and run the property's check against the patch (in the dev scratch worktree)
WP=$1; RL=$2; shift 2
for c in "$@"; do
  r=$(/verif/tools/confirm_seed.sh $WP-$c $c-$RL 2>&1 | tail -1)
  if echo "$r" | grep -q "^CONFIRMED"; then
    git -C /repo worktree remove --force $WP-$c; rm -rf $WP-$c
    echo "$c-$RL confirmed: $(/verif/tools/run_seed.sh /verif/seeded/$c-$RL/patch.diff $c 2>&1 | tail -1 | cut -c1-60)"
  else echo "$c-$RL: $r"; fi
done
