#!/bin/bash
# tools/run_seed.sh <patch> <Cxx...> : apply a seeded patch to a scratch worktree of /repo (never to /repo itself), run the checks
# against it, print a summary per check.  SEED_LINES = number of report lines to show.
PATCH=$(readlink -f $1); shift
WT=${VERIF_DEV_WT:-/tmp/verif-dev-wt}
[ -d $WT ] || git -C /repo worktree add --detach $WT HEAD -q
git -C $WT reset -q --hard HEAD; git -C $WT clean -fdq src
git -C $WT apply $PATCH || git -C $WT apply -3 $PATCH || { echo "patch does not apply"; exit 2; }
cd /verif
EV=$(mktemp -d /tmp/dev-ev-XXXX)
for c in "$@"; do
  out=$(SQLGREP_REPO=$WT VERIF_EVIDENCE_DIR=$EV VERIF_KEEP_FACTS=40 ./check $c 2>&1); rc=$?
  nv=$(echo "$out" | grep -c "^--- ")
  echo "[$c rc=$rc] $nv violations; $(echo "$out" | tail -1)"
  echo "$out" | grep -A4 "^--- \|^ERROR" | head -${SEED_LINES:-0}
done
rm -rf $EV
git -C $WT reset -q --hard HEAD
