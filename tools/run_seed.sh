#!/bin/bash
# tools/run_seed.sh <patch.diff> <Cxx> [<Cyy> ...]  : apply a patch to /repo, run the named checks, undo.
P=$(readlink -f "$1"); shift
cd /repo || exit 2
if [ -n "$(git status --porcelain --untracked-files=no)" ]; then echo "/repo not clean"; exit 2; fi
git apply "$P" 2>/dev/null || git apply -3 "$P" 2>/dev/null || { echo "PATCH DOES NOT APPLY: $P"; git reset -q --hard HEAD; exit 3; }
cd /verif
for c in "$@"; do
  out=$(./check $c 2>&1); rc=$?
  echo "[$c rc=$rc] $(echo "$out" | grep -c '^VIOLATION') violations; $(echo "$out" | tail -1)"
  echo "$out" | grep -A3 "^--- " | grep -v "^--$" | head -${SEED_LINES:-12}
done
git -C /repo reset -q --hard HEAD
