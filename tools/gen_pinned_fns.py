#!/usr/bin/env python3
"""tools/gen_pinned_fns.py: (re)generate tables/pinned_fns.json from /repo's HEAD: the named functions of the pinned tree and their
signatures (argument types + return type).  Run only when the pinned tree itself changes (a `fix:` commit)."""
import json, os, sys
sys.path.insert(0, os.path.dirname(os.path.dirname(os.path.abspath(__file__))))
from sa import extract, prog

facts, info = extract.extract()
names, sigs = set(), {}
for d in facts:
    for raw in d["fns"]:
        if raw["kind"] == "Closure":
            continue
        sp = prog.short(raw["path"])
        names.add(sp)
        b = raw["body"]
        sig = [b["locals"][i]["ty"] for i in range(1, b["arg_count"] + 1)] + [b["locals"][0]["ty"]]
        if sp in sigs and sigs[sp] != sig:
            sigs[sp] = None          # ambiguous (same short path twice): never used for rename matching
        else:
            sigs[sp] = sig
fields = {}
for d in facts:
    for a in d["adts"]:
        if not a["key"].startswith("sqlgrep::") or len(a["variants"]) != 1:
            continue
        fl = [[f["name"], f["ty"]] for f in a["variants"][0]["fields"]]
        if fl and not fl[0][0].isdigit():
            fields[("bin/" if d["_target"] == "bin" else "") + a["key"]] = fl
out = {"comment": "named functions of lib+bin on the pinned tree (HEAD of /repo when generated): a callee that is NOT in this list is a helper "
                  "introduced later and is inlined into the function a rule analyses. `sigs`: argument types + return type, used to "
                  "recognise a pinned function that was only renamed (same impl / module, same signature, old name gone, new name fresh)",
       "tree": info.get("tree"),
       "fns": sorted(names), "sigs": {k: v for k, v in sorted(sigs.items()) if v is not None},
       "fields": {k: v for k, v in sorted(fields.items())}}
p = os.path.join(os.path.dirname(os.path.dirname(os.path.abspath(__file__))), "tables", "pinned_fns.json")
old = json.load(open(p)) if os.path.exists(p) else {"fns": []}
json.dump(out, open(p, "w"), indent=0)
print("pinned fns: %d (was %d), sigs %d, structs %d" % (len(out["fns"]), len(old["fns"]), len(out["sigs"]), len(out["fields"])))
print("added:", sorted(set(out["fns"]) - set(old["fns"]))[:10], "removed:", sorted(set(old["fns"]) - set(out["fns"]))[:10])
