#!/bin/bash
# tools/collect_benign.sh <worktree-prefix> <corpus-prefix> <Cxx...>: copy <prefix>-Cxx/benign/refactor-k.diff into selftest/benign/<corpus-prefix>-Cxx-rk.diff
# (checking each applies to /repo HEAD) and remove the scratch worktree with its build output
WP=$1; CP=$2; shift 2
for c in "$@"; do
  d=$WP-$c
  [ -d $d/benign ] || { echo "$c: no benign dir"; continue; }
  for k in 1 2 3; do
    f=$d/benign/refactor-$k.diff
    [ -s $f ] || { echo "$c r$k: missing"; continue; }
    if git -C /repo apply --check $f 2>/dev/null; then cp $f /verif/selftest/benign/$CP-$c-r$k.diff; [ -f $d/benign/refactor-$k.txt ] && cp $d/benign/refactor-$k.txt /verif/selftest/benign/$CP-$c-r$k.txt; echo "$c r$k: ok"; else echo "$c r$k: does not apply"; fi
  done
  git -C /repo worktree remove --force $d && rm -rf $d
done
