#!/usr/bin/env python3
"""tools/gen_fingerprints.py: run the four site inventories on /repo's current tree and record, for every tabled discharge row,
the name-independent fingerprints of the sites it discharges -> tables/fingerprints.json (committed; regenerated whenever
tables/discharged_src.py changes or a fix: commit moves sites).  The file is an index for rename-tolerant matching only: a
row it lists is still subject to its `requires` guards at check time."""
import sys, os, json, importlib
sys.path.insert(0, os.path.dirname(os.path.dirname(os.path.abspath(__file__))))
from sa import core, extract, prog, registry
facts, info = extract.extract()
P = prog.Prog(facts)
out = {}
for pid in ("C01", "C03", "C09", "C14"):
    R = core.Run(pid, "quick", P, info)
    for m in registry.CHECKS[pid]["modules"]:
        try:
            importlib.import_module("sa." + m).run(R)
        except Exception as e:
            print("warn", pid, e)
    for k, fp in R.__dict__.get("fp_log", []):
        if fp not in out.setdefault(k, []):
            out[k].append(fp)
with open(os.path.join(os.path.dirname(os.path.dirname(os.path.abspath(__file__))), "tables", "fingerprints.json"), "w") as fh:
    json.dump(out, fh, indent=1, sort_keys=True)
print("rows with fingerprints:", len(out))
