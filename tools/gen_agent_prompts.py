#!/usr/bin/env python3
"""tools/gen_agent_prompts.py <round-letter> <seed-worktree-prefix> <benign-worktree-prefix>
Writes /tmp/agent-seed-<Cxx>.txt and /tmp/agent-benign-<Cxx>.txt: the complete task descriptions handed to fresh sub-agents.
A prompt contains the property's text, the worktree to work in and one-line summaries of what earlier agents already did
(so that the new change differs) - nothing from the verification machinery."""
import json, os, re, sys, glob
rnd, spre, bpre = sys.argv[1], sys.argv[2], sys.argv[3]
style = sys.argv[4] if len(sys.argv) > 4 else "bold"
props = [json.loads(l) for l in open('/verif/properties.jsonl')]
for p in props:
    pid = p["id"]
    wt = "%s-%s" % (spre, pid)
    prev = []
    for mp in sorted(glob.glob("/verif/seeded/%s-*/meta.json" % pid)):
        try:
            prev.append("- " + re.sub(r"\s+", " ", str(json.load(open(mp)).get("summary", "")))[:300])
        except Exception:
            pass
    quant = (p.get("quantifier") or {}).get("text", "")
    t = f"""You are helping test a verification tool by writing a realistic *seeded bug* for the Rust project sqlgrep (a small SQL engine over log lines). Work ONLY inside your own scratch git worktree: {wt} (a checkout of the project at its pinned commit). Do NOT read or write anything under /verif or /repo (other than through your worktree), and do not look for any verification machinery - your change must be independent of it.

Property that your change must BREAK (this is all the specification you get):
-----
{pid} - {p.get('title','')}

{p.get('statement','')}

Quantifier: {quant}
-----

Task: make a small source change to sqlgrep (in {wt}/src) such that
 1. the project still compiles (`cargo build --offline`) and the ENTIRE existing test suite still passes unchanged: run `cd {wt} && CARGO_TARGET_DIR={wt}/target cargo test --offline 2>&1 | tail -15` (229 tests pass on the pinned tree). Do not edit, delete or disable existing tests.
 2. the property above is violated by the changed code for SOME input/sequence - but not in a way that ordinary use would expose at once. Prefer a change that needs something specific to manifest: an unusual input or boundary value, a particular multi-step sequence, a particular interleaving/chunking, an error/fault at a particular point, or two cooperating sites that each look fine alone. The change should look like a plausible developer edit (refactor gone subtly wrong, "optimisation", off-by-one, dropped guard, wrong container/ordering, swallowed error...), not sabotage with a magic constant.
 3. IMPORTANT: the pinned code may already violate the property for some inputs. Your change must introduce a NEW violation: you must provide a demonstration that FAILS with your change and PASSES on the unmodified pinned tree.

Deliverables, written into {wt}/seed/ (create the directory):
 - patch.diff : output of `git -C {wt} diff -- src` (source change only; do not include the seed dir or tests in it)
 - a demonstration: either demo_test.rs (an integration test file for the tests/ directory that uses only the public API of the `sqlgrep` library crate) or demo.sh (a bash script that rebuilds the CLI itself and runs it on inputs it creates, exiting non-zero on violation). It must fail with the patch and pass without it. Verify BOTH directions yourself (use `git apply -R` to test the unmodified tree) and record the commands and observed results.
 - meta.json : {{"property": "{pid}", "summary": "...what was changed...", "needs_to_manifest": "...what specific input/sequence/condition triggers it...", "files_changed": [...], "commands_run": [...], "demo_fails_with_patch": true, "demo_passes_without_patch": true, "existing_tests_pass_with_patch": true}}

Constraints: offline sandbox (no network; use --offline). Keep build output inside {wt}/target only. Keep the change small (ideally < 30 changed lines). When done, leave the worktree with the patch APPLIED and the seed/ directory filled in (remove any temporary tests/ copy), and reply with a 5-line summary (what you changed, how it manifests, and confirmation of the three checks).

Other engineers already seeded these changes for the same property:
""" + "\n".join(prev) + """
Yours must be DIFFERENT from all of them: break another clause of the property, or the same clause through a different function or mechanism. Prefer a change that reads like an honest improvement (a refactor, an optimisation, a new convenience, support for a new input shape) whose flaw is a detail, ideally needing two cooperating sites or a specific multi-step sequence to manifest.
"""
    open('/tmp/agent-seed-%s.txt' % pid, 'w').write(t)
    bw = "%s-%s" % (bpre, pid)
    prevb = []
    for tp in sorted(glob.glob("/verif/selftest/benign/agent*-%s-r*.txt" % pid)):
        prevb.append("- " + re.sub(r"\s+", " ", open(tp).read())[:220])
    b = f"""You are helping test a verification tool by writing realistic *behaviour-preserving refactors* of the Rust project sqlgrep (a small SQL engine over log lines). Work ONLY inside your own scratch git worktree: {bw} (a checkout of the project at its pinned commit). Do NOT read or write anything under /verif or /repo (other than through your worktree), and do not look for any verification machinery - your change must be independent of it.

Property whose implementation you should refactor WITHOUT changing behaviour (this is all the specification you get):
-----
{pid} - {p.get('title','')}

{p.get('statement','')}

Quantifier: {quant}
-----

Task: find the code in {bw}/src that implements this property, and produce THREE independent, behaviour-preserving refactors of it, each as its own patch against the pinned tree. Each must be an edit a maintainer makes for structure or readability and a reviewer accepts as 'no functional change'. """ + ("This is the SECOND round: be bolder and more structural than simple local rewrites. Ideas: split a long function into two or three helpers (or a small private struct with methods) and/or move them to another module; replace a boolean flag by an enum or by early returns; change a loop into iterator adapters (or the reverse) preserving order and multiplicity; rename several functions, fields and locals at once; reorder independent statements and match arms; convert `Option`-chains to `?` with a helper returning Option; introduce a newtype or type alias; pass a struct instead of several parameters; make a private helper generic; replace `unwrap_or` by `match`; turn a method into a free function; swap `if a {x} else {y}` polarity; introduce a `const`; add tracing behind a constant-false flag or an unused statistics counter. " if style == "bold" else "Keep them the size of an everyday clean-up commit (5 to 40 changed lines): extract a helper function or inline one, replace an `if let` chain by `match` (or the reverse), replace a `for` loop by `while let` or by iterator adapters that preserve order and multiplicity, rename fields / locals / private functions, reorder independent statements, introduce a local variable or a named constant, move a guard into a small predicate function, replace `x != A` by `!matches!(x, A)`, respell `.entry().or_insert_with()` as `if !contains_key { insert }`, add an equivalent early return, add logging to stderr under a constant-false debug flag, add an unused statistics counter, merge duplicated match arms with an or-pattern, swap the polarity of an if/else. ") + f"""Each refactor must touch the code that is central to the property above (not unrelated files), should differ from each other in kind, and the three should differ in kind from each other and from these earlier ones:
""" + "\n".join(prevb) + f"""

The property must hold exactly as before for ALL inputs: do not change any observable behaviour, error message, ordering or output.

For each refactor k in 1..3:
 1. start from the clean pinned tree (`git -C {bw} checkout -- src`), apply your edit,
 2. check that it compiles and that the ENTIRE existing test suite still passes: `cd {bw} && CARGO_TARGET_DIR={bw}/target cargo test --offline 2>&1 | tail -5` (229 tests),
 3. save `git -C {bw} diff -- src` as {bw}/benign/refactor-k.diff and a one-paragraph note {bw}/benign/refactor-k.txt saying what was changed and why behaviour is unchanged.
Finally restore the clean tree (`git checkout -- src`). Do not edit existing tests. Offline sandbox (no network; use --offline). Keep build output inside {bw}/target only. Reply with a 4-line summary naming the three refactors.
"""
    open('/tmp/agent-benign-%s.txt' % pid, 'w').write(b)
print("wrote prompts for", len(props), "properties")
