#!/bin/bash
# tools/collect_feature.sh Fk...: copy /tmp/wtf-Fk/feature/feature.diff into selftest/benign/feature-Fk.diff (checking it applies to /repo HEAD), remove the worktree
for k in "$@"; do d=/tmp/wtf-$k; f=$d/feature/feature.diff
  if [ -s $f ] && git -C /repo apply --check $f 2>/dev/null; then cp $f /verif/selftest/benign/feature-$k.diff; cp $d/feature/feature.txt /verif/selftest/benign/feature-$k.txt 2>/dev/null; echo "$k ok"
  else git -C $d diff -- src > /tmp/feature-$k.diff; if [ -s /tmp/feature-$k.diff ] && git -C /repo apply --check /tmp/feature-$k.diff; then cp /tmp/feature-$k.diff /verif/selftest/benign/feature-$k.diff; echo "$k recovered"; else echo "$k BAD"; fi; rm -f /tmp/feature-$k.diff; fi
  git -C /repo worktree remove --force $d; rm -rf $d; done
