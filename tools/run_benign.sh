#!/bin/bash
# tools/run_benign.sh <name> <Cxx...> : apply selftest/benign/<name>.diff to /repo, run the given checks, show violations, restore
N=$1; shift
cd /repo && git apply /verif/selftest/benign/$N.diff || { echo "does not apply"; exit 2; }
cd /verif
for c in "$@"; do ./check $c 2>&1 | grep -A${LINES_AFTER:-4} "violated\|^ERROR\|Traceback" | grep -v "^VIOLATION" | head -${MAXL:-40}; done
git -C /repo checkout -- . ; git -C /repo clean -fdq src
