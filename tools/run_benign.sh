#!/bin/bash
# tools/run_benign.sh <name> <Cxx...> : apply selftest/benign/<name>.diff to a scratch worktree of /repo (never to /repo itself),
# run the given checks against it (SQLGREP_REPO), show violations.  The worktree /tmp/verif-dev-wt is created on demand and reused.
N=$1; shift
WT=${VERIF_DEV_WT:-/tmp/verif-dev-wt}
[ -d $WT ] || git -C /repo worktree add --detach $WT HEAD -q
git -C $WT reset -q --hard HEAD; git -C $WT clean -fdq src
P=/verif/selftest/benign/$N.diff; [ -f $P ] || P=$N
git -C $WT apply $P || { echo "does not apply"; exit 2; }
cd /verif
EV=$(mktemp -d /tmp/dev-ev-XXXX)
for c in "$@"; do SQLGREP_REPO=$WT VERIF_EVIDENCE_DIR=$EV VERIF_KEEP_FACTS=40 ./check $c 2>&1 | grep -A${LINES_AFTER:-4} "violated\|^ERROR\|Traceback" | grep -v "^VIOLATION" | head -${MAXL:-40}; done
rm -rf $EV
git -C $WT reset -q --hard HEAD
