#!/usr/bin/env python3
"""Regenerates MANIFEST.json from sa/registry.py (claimed checks) and tables/not_applicable.json."""
import json, os, sys
sys.path.insert(0, os.path.dirname(os.path.dirname(os.path.abspath(__file__))))
from sa import registry
V = os.path.dirname(os.path.dirname(os.path.abspath(__file__)))
na = json.load(open(os.path.join(V, "tables", "not_applicable.json")))
props = [json.loads(l)["id"] for l in open(os.path.join(V, "properties.jsonl"))]
checks = []
for pid in sorted(registry.CHECKS):
    s = registry.CHECKS[pid]
    checks.append({
        "property_id": pid,
        "quick_cmd": "./check %s --tier quick" % pid,
        "thorough_cmd": "./check %s --tier thorough" % pid,
        "evidence_file": "/verif/evidence/%s.json" % pid,
        "replay_cmd_template": "./check --explain {path}",
        "engine": "sqlgrep-facts+rules",
        "level_claimed": {"category": "other", "text": s["level_text"], "design_ref": s.get("design_ref", "DESIGN.md section 4, " + pid)},
        "level_note": s["level_note"],
        "technique": s["technique"],
    })
m = {
    "version": 1,
    "setup_cmd": "./setup.sh",
    "hooks": {"guard": "sqlgrep_verif", "enable": "none: the static analysis reads the unmodified source (no hooks compiled in)",
              "baseline_off_cmd": "cd /repo && cargo test --workspace --no-fail-fast --offline",
              "source_commits": [], "add_only": True},
    "engines": [{"name": "sqlgrep-facts+rules", "path": "/verif/driver + /verif/sa",
                 "serves_properties": sorted(registry.CHECKS),
                 "kind_free_text": "rustc_private driver (nightly) dumping MIR/ADT/impl facts of /repo's lib and bin targets as JSON, "
                                   "injected via RUSTC_WORKSPACE_WRAPPER under cargo check; python3 rule layer (dominance, path, "
                                   "effect, arm-table, impl-provenance and site-inventory rules) over those facts"}],
    "checks": checks,
    "notes": "Static analysis only: no check executes sqlgrep, its tests, a fuzzer or a solver. Exit 2 + 'ERROR' = engine failure (never a verdict).",
    "not_applicable": [{"property_id": p, "reason": na[p]} for p in props if p not in registry.CHECKS],
}
missing = [p for p in props if p not in registry.CHECKS and p not in na]
assert not missing, missing
json.dump(m, open(os.path.join(V, "MANIFEST.json"), "w"), indent=1)
print("MANIFEST: %d checks, %d not applicable" % (len(checks), len(m["not_applicable"])))
