"""ad-hoc query helper: python3 -i tools/q.py  -> P (Prog of /repo's current tree), short, L, F, PR"""
import sys, os
sys.path.insert(0, os.path.dirname(os.path.dirname(os.path.abspath(__file__))))
from sa import extract, prog, flow as F, pathrules as PR, rules_exec_loops as L
from sa.prog import short
facts, info = extract.extract()
P = prog.Prog(facts)
def fn(sp):
    return [f for f in P.fns.values() if f.spath == sp]
