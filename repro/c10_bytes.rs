use std::fs::{File, OpenOptions};
use std::io::{BufReader, Write};
use sqlgrep::helpers::FollowFileIterator;

#[test]
fn append_split_inside_multibyte_char() {
    let path = std::env::temp_dir().join(format!("c10_bytes_{}.log", std::process::id()));
    File::create(&path).unwrap();
    let (tx, rx) = std::sync::mpsc::channel();
    let p2 = path.clone();
    std::thread::spawn(move || {
        let reader = BufReader::new(File::open(&p2).unwrap());
        let mut it = FollowFileIterator::new(reader);
        loop {
            let item = it.next();
            let done = item.is_none();
            tx.send(item).unwrap();
            if done { break; }
        }
    });
    let mut f = OpenOptions::new().append(true).open(&path).unwrap();
    f.write_all(b"first\n").unwrap(); f.flush().unwrap();
    assert_eq!(Some("first".to_string()), rx.recv_timeout(std::time::Duration::from_secs(5)).unwrap());
    // "é" = C3 A9 : write the first byte, let the reader poll, then the rest
    f.write_all(b"caf\xc3").unwrap(); f.flush().unwrap();
    std::thread::sleep(std::time::Duration::from_millis(300));
    f.write_all(b"\xa9\nlast\n").unwrap(); f.flush().unwrap();
    let got = rx.recv_timeout(std::time::Duration::from_secs(5)).unwrap();
    assert_eq!(Some("café".to_string()), got, "follow ended or corrupted the line");
}
