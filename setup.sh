#!/bin/sh
# builds the fact-extraction driver (nightly, zero dependencies), offline
set -e
cd "$(dirname "$0")/driver"
CARGO_NET_OFFLINE=true cargo build --release --offline
