#!/usr/bin/env python3
"""Source of tables/discharged.json (run to regenerate).  One row per site key: count,
reason and - wherever the reason depends on a guard in the code - a `requires` clause that the
engine re-proves by edge dominance on every run (so removing the guard re-opens the site)."""
import json, os

EX = "sqlgrep::execution::"
AGG = EX + "aggregate_execution::"
ENG = EX + "execution_engine::ExecutionEngine::"
EVAL = EX + "expression_execution::ExpressionExecutionEngine::evaluate"
VECIDX = "<alloc::vec::Vec<T, A> as core::ops::index::Index<I>>::index"
MAPIDX = "<std::collections::hash::map::HashMap<K, V, S, A> as core::ops::index::Index<&Q>>::index"
V = "sqlgrep::model::Value"
rows = []


def d(key, count, reason, requires=None):
    e = {"key": key, "count": count, "reason": reason}
    if requires:
        e["requires"] = requires
    rows.append(e)


# ---- C09 (EXEC) -----------------------------------------------------------
d("<sqlgrep::model::Value as core::fmt::Display>::fmt|overflow|Mul i64,i64 [_,c1000]", 1,
  "TimeDelta is bounded by +-i64::MAX milliseconds, so num_seconds() * 1000 fits in i64")
d("<sqlgrep::model::Value as core::fmt::Display>::fmt|overflow|Sub i64,i64", 1,
  "num_milliseconds() - num_seconds()*1000 is the sub-second remainder (|r| < 1000)")
d("sqlgrep::data_model::ParsingInput::new|api:vec-pos|alloc::vec::Vec::insert", 1,
  "insert at position 0 is in bounds for every vector", {"arg_const": [1, 0]})
d(AGG + "AggregateExecutionEngine::execute_result|api:index|%s [alloc::vec::Vec<%s>,usize]" % (VECIDX, V), 2,
  "result_rows_by_column has one vector per aggregate: a converted AggregateStatement has >= 1 aggregate (parse_select "
  "requires a projection), and column_index ranges over 0..num_columns")
d(AGG + "AggregateExecutionEngine::execute_result|api:index|%s [%s,usize]" % (VECIDX, V), 1,
  "row_index < num_rows = len of column 0, and every column has one entry per group (rule C04.rect decides this on every run)")
d(AGG + "AggregateExecutionEngine::execute_result|api:unwrap|core::option::Option::unwrap", 2,
  "keys()/values() of the same BTreeMap whose size is num_rows (C04.rect); each is advanced once per row, under the same HAVING branch")
d(AGG + "AggregateExecutionEngine::extract_result_rows_by_column|api:index|%s [%s,usize]" % (VECIDX, V), 1,
  "group keys have one part per GROUP BY expression and the mapping holds indexes of those parts")
d(AGG + "AggregateExecutionEngine::extract_result_rows_by_column|api:index|%s [%sExpressionTreeHash,%sExpressionTreeHash,usize,std::hash::random::RandomState]" % (MAPIDX, EX, EX), 1,
  "a GroupKey aggregate is validated against group_by (validate_group_key) for every row before a group exists, and the mapping has every group_by part")
d(AGG + "AggregateExecutionEngine::update_aggregates|overflow|Add usize,usize", 1,
  "aggregates.len() + number of HAVING aggregates visited: bounded by the statement size")
d(AGG + "AggregateExecutionEngine::update_aggregate|api:unwrap|core::option::Option::unwrap", 1,
  "column_value is Some whenever a column is named, and DISTINCT without a column returned an error above")
d(AGG + "AggregateExecutionEngine::update_aggregate|overflow|Add i64,i64 [_,c1]", 1,
  "COUNT is incremented once per row: cannot reach 2^63")
# (GroupAggregator::default|api:panic: the unimplemented!() arms are discharged mechanically - `excluded variant`: every call of default()
#  sits in an arm of update_aggregate's match over the same aggregate for other variants)
d(AGG + "GroupAggregator::default|api:panic|core::panicking::panic", 1,
  "the `Count(_, false)` arm: for COUNT, default() is called only under `if distinct` in update_aggregate (the other unimplemented!() arms "
  "are discharged mechanically by variant exclusion)")
d(AGG + "GroupAggregator::update_value|api:sort|alloc::slice::<impl [T]>::sort", 1,
  "Vec<Value>::sort needs a total order: decided by C16 (Float's four impls share one total_cmp key; all other impls are derived)")
d(AGG + "GroupAggregator::update_value|cast|f64->usize", 1,
  "float->int `as` saturates (NaN -> 0) and the result is clamped with min(len - 1) before use")
d(AGG + "GroupAggregator::update|divzero|DivisionByZero i64", 1,
  "AVG divides by count, which is incremented immediately before (>= 1)")
d(AGG + "GroupAggregator::update|overflow|Div i64,i64", 1,
  "divisor is the row count (>= 1), never -1")
d(AGG + "GroupAggregator::update|overflow|Add i64,i64 [_,c1]", 2,
  "row counters of AVG / STDDEV: one increment per row")
d(AGG + "accept_group|api:index|%s [%s,usize]" % (VECIDX, V), 1,
  "group key part index comes from the mapping built over group_by")
d(AGG + "accept_group|overflow|Add usize,usize", 1, "aggregates.len() + HAVING aggregate index: bounded by the statement size")
d(ENG + "create_columns_mapping|api:index|%s [alloc::string::String,usize]" % VECIDX, 1,
  "fully_qualified_column_names is built with one entry per column in TableDefinition::new")
d(ENG + "create_columns_mapping|api:index|%s [%s,usize]" % (VECIDX, V), 2,
  "extract() returns one value per column or an empty row; the empty row fails any_result() and is never mapped (C06.guard decides the guard)")
for fn_ in ("execute_aggregate_update", "execute_aggregate", "execute_select"):
    d(ENG + fn_ + "|api:unwrap|core::option::Option::unwrap", 1,
      "statement.join is Some whenever joined_table_data is Some (execute_joined_table sets it from join_clause())",
      {"guard_call": "^core::option::Option::as_ref$", "edge": "some"})
d(ENG + "execute|api:vec-pos|alloc::vec::Vec::drain", 1, "drain(limit..) under len > limit",
  {"guard_cmp": "Gt", "edge": "true"})
d(ENG + "update_limit|overflow|Add usize,usize", 1, "number of emitted rows: bounded by rows produced")
d(EVAL + "|api:index|%s [%s,usize]" % (VECIDX, V), 9,
  "constant index into the evaluated arguments inside an arm guarded by arguments.len() == N (one value is pushed per argument)",
  {"len_guard": True})
d(EVAL + "|api:index|%s [sqlgrep::model::ValueType,usize]" % VECIDX, 1,
  "possible_types[0] after the is_empty() early return", {"guard_call": "^alloc::vec::Vec::is_empty$", "edge": "false"})
d(EVAL + "|api:vec-pos|alloc::vec::Vec::insert", 1, "insert at position 0", {"arg_const": [1, 0]})
d(EVAL + "|api:vec-pos|alloc::vec::Vec::remove", 28,
  "remove(0) inside an arm guarded by arguments.len() == N with at most N removes on the path",
  {"len_guard": True})
d(EVAL + "|cast|usize->i64", 2, "a length / character count fits in i64")
d(EX + "join::JoinedTableData::execute|api:index|%s [%s,usize]" % (VECIDX, V), 1,
  "index_for() returned a column index of the joined table and SELECT * rows carry every column")
d(EX + "join::JoinedTableData::get_joined_row|api:index|%s [%s,usize]" % (VECIDX, V), 1,
  "index_for() returned a column index and admitted rows carry every column")
d(EX + "join::create_joined_column_mapping|api:index|%s [alloc::string::String,usize]" % VECIDX, 3,
  "column_names / fully_qualified_column_names are parallel to the joined row's columns (JoinedTableData::new)")
d(EX + "join::execute_join|api:capacity|alloc::vec::from_elem", 1, "vec![NULL; number of joined columns]")
d("sqlgrep::executor::FileExecutor::execute|overflow|Add u64,u64", 2, "statistics counters (rows printed)")
d("sqlgrep::executor::FileExecutor::execute|overflow|Add usize,usize", 1, "statistics counter of ingested bytes (bounded by bytes read)")
d("sqlgrep::executor::FollowFileExecutor::execute|api:unwrap|core::option::Option::unwrap", 1,
  "reader.take(): execute() is called once per executor (the CLI builds one executor per query)")
d("sqlgrep::executor::OutputPrinter::print|api:index|%s [alloc::string::String,usize]" % VECIDX, 1,
  "columns[0] under the row.columns.len() == 1 test (names and values are parallel)", {"guard_cmp": "Eq", "edge": "true"})
d("sqlgrep::executor::OutputPrinter::print|api:index|%s [%s,usize]" % (VECIDX, V), 4,
  "value index taken from enumerate() over the column names, which are parallel to every row of a ResultRow")
d("sqlgrep::executor::OutputPrinter::print|api:unwrap|core::result::Result::unwrap", 1,
  "serde_json::to_string of a Map<String, Value> built from strings/numbers cannot fail")
d("sqlgrep::model::SelectStatement::is_wildcard_projection|api:index|%s [(alloc::string::String, sqlgrep::model::ExpressionTree),usize]" % VECIDX, 1,
  "projections[0] under projections.len() == 1", {"guard_cmp": "Eq", "edge": "true"})
d("sqlgrep::model::ValueType::default_value|api:unwrap|core::option::Option::unwrap", 1,
  "create_timestamp(2000-01-01 00:00:00): constant valid date; assumes local midnight 2000-01-01 exists in the configured zone")
d("sqlgrep::model::ValueType::parse|api:index|%s [&str,usize]" % VECIDX, 3,
  "parts[0..2] under parts.len() == 3", {"len_guard": True})

# ---- C14 (PARSE) ----------------------------------------------------------
PAR = "sqlgrep::parsing::parser::Parser::"
TOK = "sqlgrep::parsing::tokenizer::"
CONV = "sqlgrep::parsing::parser_tree_converter::"
PTIDX = "%s [sqlgrep::parsing::tokenizer::ParserToken,usize]" % VECIDX
d(PAR + "parse|overflow|Add usize,usize [_,c1]", 1, "index + 1: token index")
d(PAR + "parse|cast|isize->usize", 1, "index >= 0 after the first next()")
for f_ in ("parse_create_table", "parse_select"):
    pass
d(PAR + "current|cast|isize->usize", 1, "index >= 0: every public entry point calls next() first (C14.first-next decides this)")
d(PAR + "current|api:index|" + PTIDX, 1, "index < tokens.len(): next() refuses to advance past the last token")
d(PAR + "current_location|cast|isize->usize", 1, "as for current()")
d(PAR + "current_location|api:index|" + PTIDX, 1, "as for current()")
d(PAR + "next|overflow|Add isize,isize [_,c1]", 1, "token index + 1")
d(PAR + "next|cast|usize->isize", 1, "a Vec length fits in isize")
d(PAR + "next|cast|isize->usize", 1, "next_index >= 0 (index >= -1)")
d(PAR + "next|api:index|" + PTIDX, 1, "guarded by next_index >= len early return", {"guard_cmp": "Ge", "edge": "false"})

d("sqlgrep::model::ValueType::from_str|api:index|core::str::traits::<impl core::ops::index::Index<I> for str>::index [core::ops::range::Range<usize>]", 1,
  "&text[0..array_end]: array_end is returned by rfind(\"[]\"), a char boundary <= len", {"guard_call": "^core::str::<impl str>::rfind$", "edge": "some"})
d(PAR + "parse_binary_operator_rhs|overflow|Add i32,i32 [_,c1]", 1, "precedence constants are <= 7")
d(PAR + "parse_create_table|api:vec-pos|alloc::vec::Vec::remove", 1, "remove(0) under pattern_references.len() == 1", {"len_guard": True})
d(PAR + "parse_create_table|cast|i64->usize", 3,
  "Token::Int is never negative: the tokenizer builds it from digit characters only ('-' is an operator token); on 64-bit targets i64->usize then preserves the value")
d(PAR + "parse_select|cast|i64->usize", 1, "LIMIT literal: Token::Int is never negative (digits only)")
d(PAR + "parse_multiple_create_table|api:vec-pos|alloc::vec::Vec::remove", 1, "remove(0) under operations.len() == 1", {"len_guard": True})
d(CONV + "count_aggregates_in_expression|api:unwrap|core::result::Result::unwrap", 1,
  "visit() only propagates the closure's Err and the closure always returns Ok(())")
d(CONV + "transform_call_aggregate|api:vec-pos|alloc::vec::Vec::remove", 4, "remove(0) under arguments.len() == 1 / == 2", {"len_guard": True})
d(TOK + "TokenLocation::extract_near|api:index|%s [char,core::ops::range::Range<usize>]" % VECIDX, 1,
  "(start, length) pairs are produced by the enumeration of the same line_chars: start + length <= len")
d(TOK + "TokenLocation::extract_near|overflow|Add usize,usize", 2, "start + length of a word inside the line: bounded by the line length")
d(TOK + "tokenize|api:unwrap|core::option::Option::unwrap", 3,
  "next_char() right after peek() returned Some (one next per peek)", {"guard_call": "^core::iter::adapters::peekable::Peekable::peek$", "edge": "some", "per_guard": 1})
d(TOK + "tokenize|api:unwrap|core::option::Option::unwrap", 5,
  "last_mut() under a match on last() being Some", {"guard_call": "^core::slice::<impl \\[T\\]>::last$", "edge": "some"})
d(TOK + "tokenize|api:unwrap|core::option::Option::unwrap", 1,
  "current_str.unwrap() under current_str.is_some()", {"guard_call": "^core::option::Option::is_some$", "edge": "true"})
d(TOK + "tokenize|api:vec-pos|alloc::vec::Vec::remove", 1,
  "remove(len - 1) under last() being Some", {"guard_call": "^core::slice::<impl \\[T\\]>::last$", "edge": "some"})
d(TOK + "tokenize|overflow|Sub usize,usize [_,c1]", 1,
  "len - 1 under last() being Some (len >= 1)", {"guard_call": "^core::slice::<impl \\[T\\]>::last$", "edge": "some"})

with open(os.path.join(os.path.dirname(os.path.abspath(__file__)), "discharged.json"), "w") as fh:
    json.dump({"discharged": rows}, fh, indent=1)
print("%d rows" % len(rows))
