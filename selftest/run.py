#!/usr/bin/env python3
"""selftest/run.py [--only <substr>]  — test the checker both ways.

For every seeded change (seeded/<id>/patch[.rebased].diff) and every hand-made mutant
(selftest/mutants/*.diff) the patch is applied to /repo, the checks of the properties named in the
file name (Cxx prefixes) are run and must report a VIOLATION; for every behaviour-preserving variant
(selftest/benign/*.diff) they must stay silent.  /repo is restored after each patch.  Writes
selftest/results.json.  Not part of the registered checks."""
import glob, json, os, re, subprocess, sys

V = os.path.dirname(os.path.dirname(os.path.abspath(__file__)))
REPO = "/repo"


def sh(cmd, cwd=None):
    return subprocess.run(cmd, shell=True, cwd=cwd, capture_output=True, text=True)


def props_of(name):
    return sorted(set(re.findall(r"C\d\d", name))) or []


def run_patch(patch, props):
    if sh("git status --porcelain --untracked-files=no", REPO).stdout.strip():
        raise SystemExit("/repo not clean")
    r = sh("git apply %s || git apply -3 %s" % (patch, patch), REPO)
    if r.returncode != 0:
        sh("git reset -q --hard HEAD", REPO)
        return {"applies": False}
    out = {"applies": True, "checks": {}}
    try:
        for p in props:
            c = sh("./check %s" % p, V)
            viol = re.findall(r"^--- .*rule (\S+)", c.stdout, re.M)
            out["checks"][p] = {"rc": c.returncode, "rules": sorted(set(viol)),
                                "error": (re.findall(r"^ERROR.*", c.stdout, re.M) or [None])[0]}
    finally:
        sh("git reset -q --hard HEAD", REPO)
    return out


ALL = ["C%02d" % i for i in range(1, 21)]


def main():
    only = sys.argv[sys.argv.index("--only") + 1] if "--only" in sys.argv else None
    extra = {}
    ep = os.path.join(V, "selftest", "expect.json")
    if os.path.exists(ep):
        extra = json.load(open(ep))
    results = {"mutants": {}, "seeds": {}, "benign": {}}
    rp = os.path.join(V, "selftest", "results.json")
    if only and os.path.exists(rp):
        results = json.load(open(rp))
    jobs = []
    for d in sorted(glob.glob(os.path.join(V, "seeded", "*"))):
        n = os.path.basename(d)
        p = os.path.join(d, "patch.rebased.diff")
        if not os.path.exists(p):
            p = os.path.join(d, "patch.diff")
        jobs.append(("seeds", n, p, extra.get(n, {}).get("props") or props_of(n)))
    for p in sorted(glob.glob(os.path.join(V, "selftest", "mutants", "*.diff"))):
        n = os.path.basename(p)[:-5]
        jobs.append(("mutants", n, p, extra.get(n, {}).get("props") or props_of(n)))
    for p in sorted(glob.glob(os.path.join(V, "selftest", "benign", "*.diff"))):
        n = os.path.basename(p)[:-5]
        jobs.append(("benign", n, p, ALL))
    bad = 0
    for kind, n, p, props in jobs:
        if only and only not in n:
            continue
        r = run_patch(p, props)
        results[kind][n] = r
        if not r.get("applies"):
            print("%-8s %-40s PATCH DOES NOT APPLY" % (kind, n))
            bad += 1
            continue
        detected = [q for q, c in r["checks"].items() if c["rc"] == 1]
        errors = [q for q, c in r["checks"].items() if c["rc"] not in (0, 1)]
        status = extra.get(n, {}).get("status")
        if kind == "benign":
            okk = not detected and not errors
            print("%-8s %-40s %s %s" % (kind, n, "silent (ok)" if okk else "FALSE ALARM by %s %s" % (detected, errors),
                                        ""))
            bad += 0 if okk else 1
        else:
            exp_undetected = status in ("undetected", "benign-on-repaired-tree")
            if detected:
                rules = sorted(set(x for q in detected for x in r["checks"][q]["rules"]))
                print("%-8s %-40s detected by %s" % (kind, n, ", ".join(rules)))
            elif exp_undetected:
                print("%-8s %-40s not detected (recorded: %s)" % (kind, n, status))
            else:
                print("%-8s %-40s MISSED %s" % (kind, n, errors or ""))
                bad += 1
    json.dump(results, open(os.path.join(V, "selftest", "results.json"), "w"), indent=1)
    print("unexpected outcomes: %d" % bad)
    sys.exit(1 if bad else 0)


main()
